"""C08 — UMN link files, .cap overrides and abstracts have their documented effect."""
import json

from common import Check, coq_eval, coq_str, coq_opt, coq_list, impl_run, impl_run_parallel
import umnlib
import c08gen
from umnlib import tp, td, cq_z, cq_alts, cq_natlist

HOST, PORT = "gopher.example", 70
CONFIG = {"handlers.dir.DirHandler": {"cachetime": "0"}}

# file name -> (gopher type, display name under extstrip none / nonencoded / full).  Filled by build_files() from the
# MIME / encoding tables the server reads (conf/mime.types, [pygopherd] encoding) with the DOCUMENTED rule of
# conf/pygopherd.conf [handlers.UMN.UMNDirHandler] extstrip — not by calling the code under test:
#   none: names as they are;  nonencoded: a known extension is dropped, but only from files that have no
#   encoding (.gz .bz2 .Z ...);  full: the extension is dropped, and with it the encoding suffix.
FILES = {}
HAND_CHECKED = {       # written down by hand from the shipped tables; build_files() must agree
    "a.txt": ("0", "a.txt", "a", "a"), "Welcome.txt": ("0", "Welcome.txt", "Welcome", "Welcome"),
    "pic.gif": ("g", "pic.gif", "pic", "pic"), "pygopherd.tar.gz": ("9", "pygopherd.tar.gz", "pygopherd.tar.gz", "pygopherd"),
    "data.bin": ("9", "data.bin", "data", "data"), "noext": ("0", "noext", "noext", "noext"),
    "firmware.bin.gz": ("9", "firmware.bin.gz", "firmware.bin.gz", "firmware"), "sub": ("1", "sub", "sub", "sub"),
}
ENCODED = []           # the names with an encoding suffix (every generated directory gets some)


def build_files(table, rng):
    import posixpath
    import re as _re
    types, common, encs, suffix = table["types"], table["common"], table["encodings"], table["suffix"]

    def guess(name):
        base, ext = posixpath.splitext(name)
        while ext in suffix:
            base, ext = posixpath.splitext(base + suffix[ext])
        enc = None
        if ext in encs:
            enc = encs[ext]
            base, ext = posixpath.splitext(base)
        ty = types.get(ext) or types.get(ext.lower()) or common.get(ext) or common.get(ext.lower())
        return ty, enc, base

    def gtype(mime):
        for patt, ch in table["mapping"]:
            if _re.match(patt, mime):
                return ch
        return "0"

    def facts(name):
        ty, enc, stem = guess(name)
        served = "application/octet-stream" if enc else (ty or table["default"])
        none = name
        nonenc = name if enc else (stem if ty else name)
        full = stem if ty else name
        return (gtype(served), none, nonenc, full)
    # extensions drawn from the real table: a few per MIME class, octet-stream ones and multi-dot ones included
    byclass = {}
    for ext, ty in sorted(types.items()):
        if not _re.fullmatch(r"\.[A-Za-z0-9]{1,5}", ext) or ext in encs or ext in (".pyg", ".tal", ".mbox", ".gophermap"):
            continue
        cls = ty if ty in ("application/octet-stream", "text/plain", "text/html", "application/x-tar") else ty.split("/")[0]
        byclass.setdefault(cls, []).append(ext)
    exts = []
    for cls, l in sorted(byclass.items()):
        exts += rng.sample(l, min(len(l), 3 if cls == "application/octet-stream" else 2))
    exts += [e for e in suffix if _re.fullmatch(r"\.[A-Za-z0-9]{1,5}", e)][:2] + [".xyz", ".bin", ".txt", ".so"]
    encsufs = [None] + sorted(e for e in encs if e not in (".tal",))
    stems = ["firmware", "libcodec", "notes", "Welcome", "x", "pygopherd.tar".split(".")[0]]
    FILES.clear()
    del ENCODED[:]
    for n in ["a.txt", "Welcome.txt", "b.txt", "pic.gif", "pygopherd.tar.gz", "data.bin", "noext", "fred", "zeta.txt",
              "firmware.bin.gz", "libcodec.so.bz2", "x.bin.Z",
              # names that are not valid UTF-8 (a link file addresses them byte for byte) and non-ASCII ones
              "r\udce9sum\udce9.txt", "caf\udce9", "na\u00efve.txt"]:
        FILES[n] = facts(n)
    for ext in sorted(set(exts)):
        if guess("s" + ext)[0] == "text/html":
            continue            # the HTML title handler names these from their content
        for enc in rng.sample(encsufs, 3):
            n = rng.choice(stems) + ext + (enc or "")
            FILES[n] = facts(n)
    FILES["sub"] = ("1", "sub", "sub", "sub")
    ENCODED.extend(sorted(n for n in FILES if guess(n)[1]))
    wrong = {n: (FILES.get(n), v) for n, v in HAND_CHECKED.items() if FILES.get(n) != v}
    if wrong:
        raise RuntimeError("reference reading of extstrip disagrees with the hand-checked names: %r" % wrong)


MODES = ["none", "nonencoded", "full"]


def cq_parse_case(dirsel, cap, decoded, outcome):
    if "exc" in outcome:
        oc = "(%d, @nil lentry)" % umnlib.EXC_CODES.get(outcome["exc"], 99)
    elif not outcome["entries"]:
        oc = "(0, @nil lentry)"
    else:
        oc = "(0, %s)" % coq_list(umnlib.cq_lentry(e) for e in outcome["entries"])
    return "((%s, %s), %s, %s)" % (coq_str(dirsel), "(@None str)" if cap is None else coq_opt(cap, coq_str),
                                   coq_str(decoded), oc)


def gen_menu_tree(rng, dirsel, feature=None):
    """A directory with files, sidecar abstracts, one or two link files and .cap files, all well-formed.
    -> dict(tree, dir, names, blocks per link file, caps, features)"""
    pre = dirsel.strip("/")
    pre = pre + "/" if pre else ""
    names = rng.sample(sorted(FILES), rng.randrange(2, 6))
    names += [n for n in rng.sample(ENCODED, min(len(ENCODED), 2)) if n not in names]
    if rng.random() < 0.5:
        names += [n for n in ["r\udce9sum\udce9.txt", "caf\udce9"] if n not in names][:rng.randrange(1, 3)]
    tree = []
    sidecars = {}
    for n in names:
        if n == "sub":
            tree.append({"path": pre + "sub", "kind": "dir"})
            tree.append({"path": pre + "sub/inner.txt", "data": "inner\n"})
        else:
            tree.append({"path": tp(pre + n), "data": "content of %s\n" % tp(n)})
        if rng.random() < 0.3:
            text = rng.choice(["About %s\n" % n, "two\nlines  \n", "no newline at end", "trailing spaces   \nx\n"])
            sidecars[n] = text
            tree.append({"path": tp(pre + (n + "/.abstract" if n == "sub" else n + ".abstract")), "data": td(text)})
    feats = set()
    caps = {}
    for n in rng.sample(names, min(len(names), rng.randrange(0, 3))):
        kind = rng.choice(["name", "numb", "both", "hideX", "hide-", "abstract"])
        b = {"comments": [], "fields": []}
        if kind in ("name", "both"):
            b["fields"].append(("Name", "Capped " + n))
        if kind in ("numb", "both"):
            b["fields"].append(("Numb", rng.choice(["1", "2", "5", "-1"])))
        if kind == "hideX":
            b["fields"].append(("Type", "X"))
        if kind == "hide-":
            b["fields"].append(("Type", "-"))
        if kind == "abstract":
            b["fields"].append(("Abstract", ["cap abstract", "more"]))
        caps[n] = b
        tree.append({"path": tp(pre + ".cap/" + n), "data": td(c08gen.render_block(b))})
    visible_after_cap = [n for n in names if not (n in caps and dict(caps[n]["fields"]).get("Type") in ("X", "-"))]
    linkfiles = {}
    touched = set()
    base_sel = "" if dirsel == "/" else dirsel
    # hidden by .cap or (below) by a link block: later blocks may name the file again, it stays hidden
    link_hidden = set(n for n in names if n not in visible_after_cap)
    # sometimes no link file at all (and then often no Numb either): the order of the menu must still be the
    # order of the titles, not of the file names
    nlf = rng.choice([0, 1, 1, 2, 2, 2])
    if nlf == 0:
        feats.add("no-linkfile")
    for lf in sorted(rng.sample([".Links", ".names"], nlf)):
        blocks = []
        for _ in range(rng.randrange(1, 5)):
            # a file is addressed by one block — or by several once a block has hidden it (it stays hidden)
            # usually one block per file; sometimes a second one (same or another link file: later blocks see
            # the effect of earlier ones, link files are read in name order)
            cands = [n for n in names if n not in touched or n in link_hidden or rng.random() < 0.25]
            ov = bool(cands) and rng.random() < 0.55
            b = c08gen.gen_block(rng, cands, override=ov)
            if not ov and touched and rng.random() < 0.3:
                # a curated link whose absolute Path is the selector of a file that other blocks hide or override:
                # it is an entry of its own, whatever happens to the file's entry
                t = rng.choice(sorted(touched))
                b = {"comments": [], "fields": [("Name", "Link to " + t), ("Type", FILES[t][0]),
                                                ("Path", base_sel + "/" + t), ("Host", "+"), ("Port", "+")]}
            d = dict(b["fields"])
            if ov:
                t = d["Path"][2:].rstrip("/")
                touched.add(t)
                if t not in visible_after_cap:
                    feats.add("cap-hidden-relisted")
                if t in link_hidden:
                    blocks.append(b)
                    continue
                if d.get("Type") in ("X", "-"):
                    link_hidden.add(t)
                if d.get("Type") == "-":
                    feats.add("dash")
                if t in caps and "Numb" in dict(caps[t]["fields"]) and "Numb" not in d and d.get("Type") not in ("X", "-"):
                    feats.add("numb-reset")
                if "Host" in d or "Port" in d:
                    # an override that moves the entry to another host is fine; '+' keeps it here
                    pass
            blocks.append(b)
        linkfiles[lf] = blocks
        tree.append({"path": pre + lf, "data": td(c08gen.render_linkfile(blocks))})
    return {"tree": tree, "dir": dirsel, "names": names, "sidecars": sidecars, "caps": caps, "linkfiles": linkfiles,
            "features": feats}


def dedicated(dirsel="/d"):
    """One scenario per documented clause / known discrepancy."""
    f = lambda p, d: {"path": "d/" + p, "data": d}  # noqa: E731
    base = [f("b.txt", "b\n"), f("fred", "f\n"), f("zeta.txt", "z\n"), {"path": "d/sub", "kind": "dir"},
            f("sub/inner.txt", "inner\n")]
    B = lambda **kw: {"comments": [], "fields": list(kw.items())}  # noqa: E731
    out = []

    def sc(name, lfs, caps=None, feats=()):
        tree = list(base)
        for k, blocks in lfs.items():
            tree.append(f(k, td(c08gen.render_linkfile(blocks))))
        for k, b in (caps or {}).items():
            tree.append(f(".cap/" + k, c08gen.render_block(b)))
        out.append({"tree": tree, "dir": "/d", "names": ["b.txt", "fred", "sub", "zeta.txt"], "sidecars": {}, "caps": caps or {},
                    "linkfiles": lfs, "features": set(feats), "label": name})
    sc("hide-X", {".names": [B(Type="X", Path="./fred")]})
    sc("hide-dash", {".names": [B(Path="./fred", Type="-")]}, feats=["dash"])
    sc("numb-reset", {".names": [B(Path="./b.txt", Name="zzz last by title")]}, caps={"b.txt": B(Numb="1")}, feats=["numb-reset"])
    sc("double-hide", {".names": [B(Type="X", Path="./fred"), B(Type="X", Path="./fred")]}, feats=["double-hide"])
    sc("hide-missing", {".names": [B(Type="X", Path="./no-such-file")]}, feats=["hide-missing"])
    sc("plus", {".Links": [B(Name="Cool web site", Type="h", Path="/URL:http://hostname/", Host="+", Port="+")]})
    sc("manual-example", {".Links": [B(Name="Cheese Ball Recipes", Numb="1", Type="1", Port="150", Path="1/Moo/Cheesy",
                                       Host="zippy.micro.umn.edu")]})
    sc("order", {".names": [B(Path="./b.txt", Numb="2"), B(Path="./zeta.txt", Numb="1"), B(Path="./fred", Numb="-1")],
                 ".Links": [B(Name="Aardvark", Type="0", Path="/x", Host="+", Port="+"),
                            B(Name="Neg two", Type="0", Path="/y", Host="+", Port="+", Numb="-2")]})
    out_len = len(out)
    base.append(f(tp("r\udce9sum\udce9.txt"), "r\n"))
    base.append(f(tp("caf\udce9"), "c\n"))
    sc("non-utf8-names", {".names": [B(Type="X", Path="./r\udce9sum\udce9.txt"), B(Path="./caf\udce9", Name="Caf\udce9 du jour", Numb="1")]})
    out[-1]["names"] = ["b.txt", "caf\udce9", "fred", "r\udce9sum\udce9.txt", "sub", "zeta.txt"]
    del base[-2:]
    sc("blank-lines-and-comment-paragraphs", {".Links": [
        dict(B(Name="First", Type="0", Path="/one", Host="+", Port="+"), before=["# a leading comment paragraph", ""]),
        dict(B(Path="./b.txt", Name="Bee"), before=["", ""]),
        dict(B(Name="Last", Type="1", Path="/last", Host="+", Port="+"), before=["#", "# two comment lines", "", ""],
             after=["", "# trailing", ""])]})
    sc("hide-directory-then-title", {".Links": [B(Type="-", Path="./sub/")],
                                     ".names": [B(Name="Internal area", Path="./sub/"), B(Name="Bee", Path="./b.txt")]})
    sc("hide-then-others-same-file", {".names": [B(Type="X", Path="./fred/"), B(Path="./fred", Name="Fred again"),
                                                 B(Path="./sub", Type="-"), B(Numb="1", Path="./sub/"),
                                                 B(Type="X", Path="./zeta.txt"), B(Type="-", Path="./zeta.txt")]})
    sc("hide-then-title", {".Links": [B(Type="X", Path="./fred")], ".names": [B(Path="./fred", Name="Fred again")]})
    sc("hide-then-number-same-file", {".names": [B(Path="./zeta.txt", Type="X"), B(Numb="1", Path="./zeta.txt")]})
    sc("title-then-hide", {".Links": [B(Path="./fred", Name="Fred")], ".names": [B(Type="X", Path="./fred")]})
    sc("hide-and-curated-link", {".names": [B(Type="X", Path="./fred")],
                                 ".Links": [B(Name="Fred, curated", Type="0", Path="/d/fred", Host="+", Port="+")]})
    sc("two-files-one-field", {".Links": [B(Path="./b.txt", Name="From Links", Numb="2")],
                               ".names": [B(Path="./b.txt", Name="From names")]})
    sc("indented-as-in-the-manual", {".names": [dict(B(Type="X", Path="./fred"), indent=" "),
                                                 dict(B(Path="./b.txt", Name="New Long Cool Name", Numb="2",
                                                        Abstract=["first", "second"]), indent="\t")]})
    sc("relative-here", {".Links": [B(Name="Inner", Type="0", Path="sub/inner.txt", Host="+", Port="+"),
                                    B(Name="Up", Type="1", Path="../other", Port="+"),
                                    B(Name="Plain", Type="0", Path="notes/x.txt"),
                                    B(Name="Finger", Type="0", Path="lindner", Host="mudhoney.micro.umn.edu", Port="79")]})
    sc("cap-hide", {}, caps={"fred": B(Type="-"), "b.txt": B(Type="X")})
    sc("cap-hide-then-title", {".names": [B(Path="./fred", Name="Fred is back"), B(Type="X", Path="./b.txt")]},
       caps={"fred": B(Type="-"), "b.txt": B(Type="X")}, feats=["cap-hidden-relisted"])
    sc("cap-override", {}, caps={"fred": B(Name="New Long Cool Name", Numb="2")})
    # two override sources for ONE file setting the SAME field: the .cap file is read first, link files after it in
    # name order, so the later block's value stands (one scenario per field)
    sc("cap-and-block-same-name", {".names": [B(Path="./b.txt", Name="From names")]}, caps={"b.txt": B(Name="From cap")})
    sc("cap-and-block-same-numb", {".names": [B(Path="./b.txt", Numb="3"), B(Path="./zeta.txt", Numb="2")]},
       caps={"b.txt": B(Numb="1")})
    sc("cap-and-block-same-abstract", {".Links": [B(Path="./fred", Abstract=["from the link file"])]},
       caps={"fred": B(Abstract=["from the cap file", "second line"])})
    sc("cap-and-block-same-type", {".names": [B(Path="./b.txt", Type="1")]}, caps={"b.txt": B(Type="9")})
    sc("cap-and-block-same-host-port", {".Links": [B(Path="./zeta.txt", Host="other.example", Port="7071")]},
       caps={"zeta.txt": B(Host="cap.example", Port="7072")})
    sc("cap-and-two-blocks-same-name", {".Links": [B(Path="./b.txt", Name="From Links")],
                                        ".names": [B(Path="./b.txt", Name="From names")]}, caps={"b.txt": B(Name="From cap")})
    return out


def expected_menu(sc, mode):
    """Reference reading: default entries of the visible files, .cap, link files in name order, order, render."""
    mi = MODES.index(mode)
    base = "" if sc["dir"] == "/" else sc["dir"]
    entries = []
    for n in sc["names"]:
        ty = FILES[n][0]
        sel = base + "/" + n
        ab = None
        if n in sc["sidecars"]:
            ab = "\n".join(x.rstrip() for x in sc["sidecars"][n].splitlines(True)) or None
        entries.append({"selector": sel, "type": ty, "name": FILES[n][1 + mi], "host": None, "port": None, "num": None,
                        "abstract": ab, "dir": True})
    hidden = set()      # selectors hidden so far: by a .cap file or by a link block; hidden stays hidden
    for n, b in sc["caps"].items():
        if n in sc["names"]:
            bb = {"comments": [], "fields": [("Path", "./" + n)] + [kv for kv in b["fields"] if kv[0] != "Path"]}
            entries = c08gen.spec_apply(entries, base, [bb], hidden)
    for lf in sorted(sc["linkfiles"]):
        entries = c08gen.spec_apply(entries, base, sc["linkfiles"][lf], hidden)
    keys = [c08gen.spec_key(e) for e in entries]
    ties = len(set(keys)) != len(keys)
    return c08gen.spec_menu(c08gen.spec_order(entries), HOST, PORT), ties


def chunks(menu):
    """split a menu into entry chunks (an entry line + its info lines)"""
    out = []
    for line in menu.split("\r\n"):
        if not line:
            continue
        if line.startswith("i") and line.endswith("\tfake\t(NULL)\t0") and out:
            out[-1] += "\r\n" + line
        else:
            out.append(line)
    return out


def run(tier):
    chk = Check("C08", tier)
    chk.proofs(extra_files=["Corr/K08.v"])
    cov = chk.coverage
    rng = chk.rng
    found = False
    thorough = tier == "thorough"

    pres = impl_run(umnlib.probe_jobs())
    umnlib.check_ok(pres)
    fx = umnlib.probe_fixes(pres)
    chk.notes["code_variant"] = fx
    pre = "From Coq Require Import ZArith.\nDefinition the_fx := %s." % umnlib.cq_fixes(fx)

    tres = impl_run([{"op": "c08_mimetable", "config": CONFIG}])
    umnlib.check_ok(tres)
    build_files(tres[0]["res"], rng)
    cov["extstrip_names"] = {"files": len(FILES), "with_encoding": len(ENCODED), "sample": sorted(FILES)[:12]}

    # ---------------- K: getLinkItem / processLinkFile ----------------
    targets = ["b.txt", "fred", "sub", "zeta.txt"]
    items = []
    nwf = 400 if thorough else 140
    nmal = 1500 if thorough else 300
    for i in range(nwf):
        blocks = [c08gen.gen_block(rng, targets) for _ in range(rng.randrange(0, 5))]
        text = c08gen.render_linkfile(blocks, rng.choice(["\n", "\n", "\r\n"]))
        items.append({"text": td(text), "cap": None, "wf": True})
    for i in range(nmal):
        items.append({"text": td(c08gen.gen_malformed(rng, targets)), "cap": None, "wf": False})
    for i in range(len(items) // 4):
        it = dict(rng.choice(items))
        it["cap"] = rng.choice(["/d/fred", "/b.txt", "/d/sub"])
        items.append(it)
    parse_jobs = []
    for dirsel, part in (("/d", items[0::2]), ("/", items[1::2])):
        for k in range(0, len(part), 120):
            parse_jobs.append({"op": "c08_parse", "dir": dirsel, "config": CONFIG, "items": part[k:k + 120]})
    sidecar_texts = ["one line\n", "two\nlines  \n", "", "no newline", "crlf\r\nline\r\n", "  lead\n\n\nblank lines\n",
                     "tab\t\n", "café\n", "\udcae raw\n", "a\rb\n", "x\x0c\n", "nbsp \n"] + \
                    ["".join(rng.choice(["w ", "\n", "\r\n", " ", "x", "\t"]) for _ in range(rng.randrange(1, 25)))
                     for _ in range(40)]
    pres_ = impl_run_parallel(parse_jobs + [{"op": "c08_sidecar", "items": [td(t) for t in sidecar_texts]}],
                              chunks=min(8, len(parse_jobs) + 1))
    umnlib.check_ok(pres_)
    pcases = []
    pmeta = []
    for job, r in zip(parse_jobs, pres_[:-1]):
        for it, o in zip(job["items"], r["res"]):
            pcases.append(cq_parse_case(job["dir"], it["cap"], o["decoded"], o))
            pmeta.append((job["dir"], it, o))
            chk.count(("parse", job["dir"], it["cap"], it["text"]), nontrivial=("entries" in o and bool(o["entries"])))
    mism_p, err_p, nsh_p = coq_eval("C08", "k_parse", "Lib.Str Model.DirEntry Model.UMN Model.Dir Corr.K07 Corr.K08",
                                    "chk_parse the_fx", pcases, shard=150, pre=pre)
    scases = ["(%s, %s)" % (coq_str(o["decoded"]), coq_opt(o["abstract"], coq_str)) for o in pres_[-1]["res"]]
    mism_s, err_s, _ = coq_eval("C08", "k_sidecar", "Lib.Str Model.UMN Corr.K08", "chk_sidecar", scases)
    for t in sidecar_texts:
        chk.count(("sidecar", t))
    # oracle on the well-formed link files: the real parser reads them as the manual says
    bad_wf = 0
    for (dirsel, it, o), case in zip(pmeta, pcases):
        if it["wf"] and it["cap"] is None and "exc" in o:
            bad_wf += 1
            found = True
            chk.violation({"what": "processLinkFile raises on a well-formed link file", "exception": o["exc"],
                           "link_file_latin1": it["text"], "dir": dirsel}, tag="c08-wf-linkfile-raises")

    # ---------------- K + oracle: menus ----------------
    scenarios = dedicated()
    for k in range(60 if thorough else 14):
        scenarios.append(gen_menu_tree(rng, ["/d", "/"][k % 2]))
    mjobs = [{"op": "c08_menu", "tree": sc["tree"], "dir": sc["dir"], "modes": MODES, "config": CONFIG,
              "orders": ["natural", "reversed", "rotated"], "cache_history": True} for sc in scenarios]
    import c07 as c07mod
    hs = c07mod.history_scenarios()
    hjobs = [{"op": "c07_history", "tree": t, "dir": "/d", "kinds": ["umn"], "edits": steps, "config": CONFIG}
             for _, t, steps, _ in hs]
    fresh_jobs = []
    for _, t, steps, _ in hs:
        cur = t
        for st in steps:
            cur = c07mod.apply_edits(cur, st)
            fresh_jobs.append({"op": "c08_menu", "tree": cur, "dir": "/d", "modes": ["nonencoded"], "config": CONFIG,
                               "orders": ["natural"]})
    allres = impl_run_parallel(mjobs + hjobs + fresh_jobs, chunks=16)
    umnlib.check_ok(allres)
    mres = allres[:len(mjobs)]
    hres = allres[len(mjobs):]
    mcases = []
    mcmeta = []
    reported = set()
    lcases = []
    mmeta = []
    menu_diffs = 0
    for sc, r in zip(scenarios, mres):
        for mode in MODES:
            run_ = r["res"][mode]
            if "world" not in run_:
                found = True
                chk.violation({"what": "listing a directory with well-formed link files never returns", "tree": sc["tree"],
                               "dir": sc["dir"], "extstrip": mode}, tag="c08-menu-hangs")
                continue
            world = run_["world"]
            names = [c["name"] for c in world["children"]]
            lcases.append(umnlib.listing_case(run_, "umn"))
            mmeta.append((sc, mode))
            want, ties = expected_menu(sc, mode)
            menus = {}
            for x in run_["runs"]:
                menu = x["menu"].encode("latin-1").decode("utf-8", "surrogateescape")
                menus[x["order"]] = menu
                idx = [names.index(n) for n in x["enum"]]
                mcases.append("(%s, (%s, %s), %s, (%s, %s), %s)" % (
                    umnlib.cq_world(world), cq_alts(run_["ignorepatt"]), umnlib.STRIP[mode], cq_natlist(idx),
                    coq_str(HOST), cq_z(PORT), coq_str(menu) if menu else "(@nil N)"))
                mcmeta.append((sc, mode))
                chk.count((json.dumps(sc["tree"], sort_keys=True), mode, x["order"]),
                          nontrivial=bool(sc["linkfiles"] or sc["caps"]))
                # oracle: the reference reading of the same files
                got = menu
                same = (sorted(chunks(want)) == sorted(chunks(got))) if ties else (want == got)
                if not same:
                    menu_diffs += 1
                    found = True
                    feats = set(sc["features"]) - {"no-linkfile"}     # (not a defect class of its own)
                    if "cap-hidden-relisted" in feats:
                        tag = "c08-cap-hidden-relisted"
                    elif "double-hide" in feats:
                        tag = "c08-double-hide-raises"
                    elif "hide-missing" in feats:
                        tag = "c08-hide-missing-entry"
                    elif "dash" in feats and "numb-reset" not in feats:
                        tag = "c08-linkfile-dash-not-hidden"
                    elif "numb-reset" in feats and "dash" not in feats:
                        tag = "c08-numb-reset"
                    elif feats:
                        tag = "c08-linkfile-dash-not-hidden+c08-numb-reset"
                    else:
                        tag = "c08-menu-differs"
                    if (tag, sc.get("label", id(sc)), mode) not in reported:
                        reported.add((tag, sc.get("label", id(sc)), mode))
                        chk.violation({"what": "the Gopher menu differs from the documented reading of the link / .cap / abstract files",
                                       "scenario": sc.get("label", "generated"), "dir": sc["dir"], "extstrip": mode,
                                       "tree": sc["tree"], "expected_menu": want, "real_menu": got,
                                       "features": sorted(sc["features"]), "enumeration": x["enum"]}, tag=tag)
            # with the directory cache on: HEAD / item-information first, then the menu, then the menu again
            ch = run_.get("cache_history")
            if ch:
                nat = run_["runs"][0]["menu"]
                for step in ch[2:]:
                    chk.count((json.dumps(sc["tree"], sort_keys=True), mode, "cache", step["request"]))
                    if step["out"] != nat and ("cache", sc.get("label", id(sc)), mode) not in reported:
                        reported.add(("cache", sc.get("label", id(sc)), mode))
                        found = True
                        chk.violation({"what": "with the directory cache enabled the menu of a directory differs from the menu without "
                                               "a cache, after a request that prepared the listing but never fetched it (HTTP HEAD, "
                                               "Gopher+ item information)", "scenario": sc.get("label", "generated"),
                                       "dir": sc["dir"], "extstrip": mode, "tree": sc["tree"],
                                       "requests_latin1": [x["request"] for x in ch],
                                       "menu_without_cache": nat, "menu_with_cache": step["out"]}, tag="c08-cache-changes-menu")
            # the menu must not depend on the order in which the OS enumerates the directory
            if not ties and len(set(menus.values())) > 1:
                found = True
                o1 = run_["runs"][0]
                o2 = [x for x in run_["runs"] if menus[x["order"]] != menus[o1["order"]]][0]
                chk.violation({"what": "the Gopher menu of a directory with link files depends on the enumeration order",
                               "scenario": sc.get("label", "generated"), "dir": sc["dir"], "extstrip": mode, "tree": sc["tree"],
                               "enumeration_a": o1["enum"], "menu_a": menus[o1["order"]],
                               "enumeration_b": o2["enum"], "menu_b": menus[o2["order"]]}, tag="c08-enum-order")
    # ---------------- histories: metadata edited within the same second, one process ----------------
    fresh = hres[len(hjobs):]
    k = 0
    nhist = 0
    for (label, t0, steps, _), r in zip(hs, hres[:len(hjobs)]):
        runs = r["res"]["runs"]["umn"]
        for i, st in enumerate(runs):
            menu = st["menu"].encode("latin-1").decode("utf-8", "surrogateescape")
            names = [c["name"] for c in st["world"]["children"]]
            mcases.append("(%s, (%s, %s), %s, (%s, %s), %s)" % (
                umnlib.cq_world(st["world"]), cq_alts(st["ignorepatt"]), umnlib.STRIP[st["extstrip"]],
                cq_natlist(list(range(len(names)))), coq_str(HOST), cq_z(PORT), coq_str(menu) if menu else "(@nil N)"))
            mcmeta.append(({"label": "history:" + label, "tree": t0}, "step %d" % i))
            nhist += 1
            chk.count(("history", label, i))
            if i == 0:
                continue
            fr = fresh[k]["res"]["nonencoded"]["runs"][0]
            k += 1
            fmenu = fr["menu"].encode("latin-1").decode("utf-8", "surrogateescape")
            if menu != fmenu:
                found = True
                chk.violation({"what": "after link / .cap / abstract files were edited within the same second (one process, no "
                                       "clock advance) the menu is not the one a fresh server sends for the same directory",
                               "history": label, "step": i, "tree_before": t0, "edit_steps": steps[:i],
                               "menu_in_running_server": menu, "menu_of_fresh_server": fmenu}, tag="c08-stale-metadata")
    cov.setdefault("histories", {})["menus"] = nhist
    mism_m, err_m, nsh_m = coq_eval("C08", "k_menu", "Lib.Str Lib.Regex Model.DirEntry Model.UMN Model.Dir Corr.K07 Corr.K08",
                                    "chk_menu the_fx", mcases, shard=6, pre=pre)
    mism_l, err_l, nsh_l = coq_eval("C08", "k_mlisting", "Lib.Str Lib.Regex Model.DirEntry Model.UMN Model.Dir Corr.K07",
                                    "chk_listing the_fx", lcases, shard=6, pre=pre)
    cov["correspondence"] = {
        "link_files_parsed": len(pcases), "well_formed": sum(1 for m in pmeta if m[1]["wf"]),
        "cap_mode": sum(1 for m in pmeta if m[1]["cap"]), "sidecars": len(scases),
        "menus": len(mcases), "directories": len(scenarios), "shards": nsh_p + nsh_m + nsh_l + 1,
        "mismatches": {"parse": len(mism_p), "sidecar": len(mism_s), "menu": len(mism_m), "listing": len(mism_l)},
        "errors": [e[-1500:] for e in (err_p, err_s, err_m, err_l) if e],
        "mismatch_samples": {
            "parse": [{"dir": pmeta[i][0], "cap": pmeta[i][1]["cap"], "text_latin1": pmeta[i][1]["text"],
                       "real": pmeta[i][2].get("exc") or pmeta[i][2]["entries"]} for i in mism_p[:4]],
            "menu": [{"scenario": m[0].get("label", "generated"), "mode": m[1], "tree": m[0]["tree"]}
                     for m in ([mcmeta[i] for i in mism_m[:3]] + [mmeta[i] for i in mism_l[:3]])]},
    }
    cov["oracle"] = {"menus_vs_reference_reading": len(mcases), "menu_differences": menu_diffs,
                     "well_formed_files_raising": bad_wf}
    chk.sample({"kind": "parse", "text": pmeta[0][1]["text"][:200], "real": pmeta[0][2].get("exc") or pmeta[0][2]["entries"][:1]})
    chk.sample({"kind": "menu", "scenario": scenarios[6].get("label"),
                "menu": mres[6]["res"]["nonencoded"]["runs"][0]["menu"][:300]})
    broken = any([mism_p, mism_s, mism_m, mism_l, err_p, err_s, err_m, err_l])
    if broken:
        chk.correspondence_broken("K08 (link-file parser / sidecar abstracts / menus)", cov["correspondence"], found)
    chk.finish_proofs(found)
    cov["rule"] = ("component: generated well-formed link files (0-4 blocks, any subset and order of the seven line kinds, "
                   "comments, continuation abstracts, LF and CRLF) and a malformed / near-miss stream (empty Type=, non-numeric "
                   "Port=/Numb=, underscores and signs, unknown keys, late comments, CR line ends, Unicode spaces, raw bytes, "
                   "odd Path= shapes), each also in .cap mode, read by the real processLinkFile in /d and in /: every field "
                   "of every LinkEntry (or the exception) compared with the model inside Coq; sidecar .abstract values from the "
                   "real handleeaext; end to end: directories with sidecar abstracts, .cap files, one or two link files, "
                   "three extstrip modes: entries of handler.prepare and the bytes of the Gopher menu vs the model; oracle: "
                   "menu vs the Python twin of UMNSpec (reference reading of the manual), ties compared as sets")
    chk.assumptions += [
        "int() is modelled for ASCII digits, sign, underscores and surrounding whitespace; other Unicode digits are not",
        "link files and sidecars small enough for one readlines(20480) batch",
        "the reference reading takes link files in name order and treats a hide block for a file that is not listed as a no-op "
        "(the manual is silent on both)",
        "Host=+ / Port=+ are read as 'no host / port of its own' (the protocol fills in this server's): an override block "
        "with Port=+ does not reset a port that an EARLIER block or the .cap file gave the entry — the manual's 'the server "
        "will insert the current hostname and the current port' could also be read as a reset; model, UMNSpec and twin follow "
        "the code here and the difference is only reachable when two blocks give one file conflicting ports/hosts",
        "display names under extstrip are taken from a hand-written table for the file names the generator uses",
    ]
    return chk.finish("proof")
