"""KServe — end-to-end correspondence between Model/Serve.v (evaluated inside Coq) and the
real server: generated requests in every protocol syntax are served by the REAL code from
the first byte (impl_driver World + serve_once, nothing patched but recorders) against a
scratch tree; the same tree is given to Coq as a `tree` literal.  Compared per request:
  (a) the protocol class that claimed the line (Model/Detect.v `detect`),
  (b) the decision: not-found vs WHICH handler class was chosen (read off the log line
      "[Proto/Handler]: ") and the selector the handler object was built on,
  (c) for not-found: the COMPLETE reply bytes; for the replies written without a handler
      (icons, Gemini 59/10/30, Spartan "too large"): the reply bytes as well.

    run_kserve(chk, tier) -> (mismatch_count, err, details)

Called from harness/c01.py and harness/c03.py.  Every case is generated from chk.rng.
Standalone:  [VERIF_REPO=<copy>] python3 harness/kserve.py [quick|thorough]"""
import concurrent.futures
import os
import re
import sys

sys.path.insert(0, os.path.dirname(os.path.abspath(__file__)))
from common import coq_eval, coq_bool, impl_run_parallel  # noqa: E402
import gen  # noqa: E402
import c01  # noqa: E402   (base_tree, tree_to_coq, HID, HMOD, PYG_TRUE, _zip_bytes)
from k05 import PROTO, cps, cstr, cbytes  # noqa: E402

IMPORTS = "Lib.Str Model.ProtoId Model.Handlers Model.Serve Corr.KServe"
CLIMBERS = ["./", "..", "//", ".\\", "\\\\", "\x00"]

# the handler lists of c01.k_chain
LISTS = {
    "default": ["HUrl", "HGophermap", "HMaildirFolder", "HMaildirMessage", "HUMNDir", "HHtmlTitle", "HMboxMessage", "HMboxFolder", "HFile"],
    "full": ["HUrl", "HGophermap", "HMaildirFolder", "HMaildirMessage", "HUMNDir", "HTal", "HHtmlTitle", "HMboxMessage", "HMboxFolder",
             "HPyg", "HExec", "HZip", "HFile", "HRewriter"],
    "buck": ["HGophermap", "HUrl", "HFile", "HDir"],
    "rewriter-first": ["HRewriter", "HUrl", "HZip", "HExec", "HFile", "HUMNDir"],
}

NAMES = ["a.txt", "b.html", "read me.txt", "dir1", "dir1/c.txt", "dir1/sub", "dir1/sub/d.txt", "notes", "notes/gophermap", "notes/n.txt",
         "mail.mbox", "md", "md/new", "md/new/1.msg", "script.sh", "script2.sh", "echo.pyg", "noexec.pyg", "arch.zip", "fake.zip",
         "dir1/inner.zip", "pipe", "t.html.tal", "x.gophermap", "page.htm", "\udcae.txt", "nonexistent", "a.txt.abstract", "dir1/.abstract"]
SUFFIXES = ["", "/", "|/MBOX-MESSAGE/1", "|/MBOX-MESSAGE/2", "|/MAILDIR-MESSAGE/1", "?a b", "|x", "|/MBOX-MESSAGE/0", "|/MBOX-MESSAGE/",
            "|/MBOX-MESSAGE/1x", "/.", "/inner.txt", "/d/x.txt", "/d", "/nonexistent", "/..", "?/MBOX-MESSAGE/1|y", "|a?b", "//"]
FIXED = ["/", "", "/1/", "/1//", "//", "/URL:http://x/", "URL:http://x/../y", "/URL:x", "/URL:http://a\"b", "/1/URL:http://x/",
         "/1/1/a.txt", "/1/a.txt", "/0/dir1/c.txt", "/x/a.txt", "/1/nonexistent", "/1/dir1/..", "/arch.zip/../a.txt", "/arch.zip?x",
         "/dir1/inner.zip/inner.txt", "/1/arch.zip/inner.txt", "/1/echo.pyg", "/./a.txt", "/dir1//c.txt", "/..", "/dir1/../..",
         "/dir1/sub/../../..", "/.", "/dir1/.\\", "/a.txt/..", "/..\\secret.txt", "/mail.mbox|/..", "/1/..", "/dir1/..?x",
         "/dir1/./", "/dir1//", "/a.txt\x00", "/a.txt\x00.html", "/GEMINI-QUERY/a.txt", "/GEMINI-QUERY.txt", "/wapfile.txt",
         "/PYGOPHERD-HTTPPROTO-ICONS/text.gif", "/PYGOPHERD-HTTPPROTO-ICONS/../a.txt", "/%2E%2E/a.txt", "/dir1/%2e%2e/a.txt"]
RAW = [  # (bytes, tls): lines no generator above produces
    (b"GET /PYGOPHERD-HTTPPROTO-ICONS/text.gif HTTP/1.0\r\n\r\n", False), (b"HEAD /PYGOPHERD-HTTPPROTO-ICONS/folder.gif HTTP/1.0\r\n\r\n", True),
    (b"GET /wap/PYGOPHERD-HTTPPROTO-ICONS/binary.gif HTTP/1.0\r\n\r\n", False), (b"GET /PYGOPHERD-HTTPPROTO-ICONS/nope.gif HTTP/1.0\r\n\r\n", False),
    (b"gemini://h/GEMINI-QUERY/a.txt\r\n", True), (b"gemini://h/GEMINI-QUERY/a.txt?two%20words\r\n", True), (b"gemini://h/GEMINI-QUERY\r\n", True),
    (b"gemini://h/GEMINI-QUERY/../x?q\r\n", True), (b"gemini://[::1/x\r\n", True), (b"gemini://h]/x\r\n", True), (b"gemini://h\r\n", True),
    (b"gemini://h/dir1/..%2f..%2fsecret.txt\r\n", True), (b"gemini://h/a.txt?%2e%2e\r\n", True), (b"gemini://h/dir1/%2E%2E/a.txt#frag\r\n", True),
    (b"h /a.txt 99999999999999999999\r\n", False), (b"h /a.txt 5\r\nabcde", False), (b"h /dir1/%2E%2E/secret.txt 3\r\nabc", False),
    (b"GET /wap HTTP/1.0\r\n\r\n", False), (b"GET /wap/ HTTP/1.0\r\n\r\n", False), (b"GET /wapx HTTP/1.0\r\n\r\n", False),
    (b"GET /wap../secret.txt HTTP/1.0\r\n\r\n", False), (b"GET /wap/../secret.txt HTTP/1.0\r\n\r\n", False), (b"GET /%77ap/a.txt HTTP/1.0\r\n\r\n", False),
    (b"GET /a.txt?searchrequest=x HTTP/1.0\r\n\r\n", False), (b"GET /dir1/..?searchrequest=x HTTP/1.0\r\n\r\n", True),
    (b"GET /dir1/ HTTP/1.0\r\nAccept: text/vnd.wap.wml, x\r\nx-wap-profile: 1\r\n\r\n", False),
    (b"GET /dir1/../x HTTP/1.0\r\nAccept: , text/vnd.wap.wml\r\nx-up-devcap-max-pdu: 1\r\n\r\n", False),
    (b"GET /a.txt HTTP/1.0", False), (b"GET /..%2F..%2Fetc%2Fpasswd HTTP/1.0\r\n", False), (b"GET /%2e%2e%5c%2e%2e%5csecret.txt HTTP/1.0\r\n\r\n", True),
    (b"/a.txt\tneedle\r\n", False), (b"/dir1/..\tneedle\t+\r\n", False), (b"/a.txt\t\t!\r\n", True), (b"/a.txt\t+application/x\r\n", False),
    (b"\r\n", False), (b"", False), (b"\t+\r\n", False), (b"/a.txt", True), (b" /a.txt \r\n", False), (b"/a.txt/\r\n", False), (b"a.txt\r\n", False),
    (b"/\xff\xfe\r\n", False), (b"/dir1/..\xff\r\n", True), (b"GET /\xff%fe/../x HTTP/1.0\r\n\r\n", False), (b"/mail.mbox|/MBOX-MESSAGE/9999\r\n", False),
]


def build_tree(rng):
    """the tree of c01.k_chain: base_tree plus one entry per handler class"""
    t = 1_700_000_000
    return c01.base_tree(rng) + [
        {"path": "echo.pyg", "data": c01.PYG_TRUE, "mode": 0o755, "mtime": t},
        {"path": "noexec.pyg", "data": c01.PYG_TRUE, "mtime": t},
        {"path": "arch.zip", "data": c01._zip_bytes(), "mtime": t},
        {"path": "fake.zip", "data": "not a zip", "mtime": t},
        {"path": "dir1/inner.zip", "data": c01._zip_bytes(), "mtime": t},
        {"path": "pipe", "kind": "fifo"},
        {"path": "t.html.tal", "data": "<html></html>", "mtime": t},
        {"path": "x.gophermap", "data": "iinfo\n", "mtime": t},
        {"path": "page.htm", "data": "<title>x</title>", "mtime": t},
        {"path": "script2.sh", "data": "#!/bin/sh\necho hi\n", "mode": 0o750, "mtime": t},
    ]


def gopher_expressible(s):
    return s == s.strip() and not any(c in s for c in "\t\n\r")


def gen_requests(rng, tier):
    """-> list of (proto, selector, layers, data, tls, hostile)"""
    n_host, n_lit, n_ben, n_fix = (10, 8, 26, 22) if tier == "quick" else (60, 40, 120, len(FIXED))
    out = []
    for proto in gen.PROTOCOLS:
        url = proto in ("http", "https", "wap", "gemini", "spartan")
        hostile = gen.climber_selectors(rng, [n for n in NAMES if "\udcae" not in n], n_host)
        hostile = rng.sample(hostile, min(len(hostile), n_host + 6))
        lit = []
        for s in rng.sample(hostile, min(len(hostile), n_lit)):
            lit.append(rng.choice(gen.literal_percent_forms(rng, s)))
        benign = ["/" + rng.choice(NAMES) + rng.choice(SUFFIXES) for _ in range(n_ben)]
        benign += ["/1/" + rng.choice(NAMES), "/" + rng.choice(NAMES)]
        fixed = rng.sample(FIXED, min(len(FIXED), n_fix))
        for s, host in [(x, True) for x in hostile + lit] + [(x, False) for x in benign] + [(x, None) for x in fixed]:
            if not url and not gopher_expressible(s):
                continue
            layers, force = 1, False
            if url and host is not False:
                layers = rng.choice([1, 1, 1, 2, 3])
                force = rng.random() < 0.35
            search = rng.choice([None, None, None, "needle", "a b"])
            data, tls = gen.request_bytes(proto, s, layers=layers, gplus=rng.choice("+!$"), search=search, force_encode=force and s != "")
            if proto in ("http", "https", "wap") and rng.random() < 0.1:
                data = b"HEAD" + data[3:]
            is_hostile = any(c in (s[:-1] if s.endswith("/") else s) for c in CLIMBERS)
            out.append((proto, s, layers, data, tls, is_hostile))
    for data, tls in RAW:
        out.append(("raw", gen.lat(data), 1, data, tls, b".." in data or b"%2E%2E" in data.upper()))
    return out


LOG_CHOSEN = re.compile(r"^\S+ \[(\w+)/(\w+)\]: ")
LOG_NOTFOUND = re.compile(r"^\S+ \[(\w+)/None\] EXCEPTION FileNotFound: .*\(no handler found\)$", re.S)


def classify(o):
    """what the server did, read off its log -> ('notfound' | 'chosen' | 'other', class name, handler selector code points, note)"""
    log = ["".join(map(chr, l)) for l in o["log"]]
    gh = o["gh"]
    for line in log:
        m = LOG_CHOSEN.match(line)
        if m and m.group(2) != "None":
            name = m.group(2)
            note = None
            if not (gh and gh["result"] == "handler" and gh["cls"] == name):
                note = "log line and getHandler recorder disagree"
            return "chosen", name, (gh or {}).get("hsel"), note
    for line in log:
        if LOG_NOTFOUND.match(line):
            note = None
            if not (gh and gh["result"] == "notfound"):
                note = "log line and getHandler recorder disagree"
            return "notfound", None, None, note
    note = None
    if gh is not None and gh["result"] in ("handler", "notfound") and gh.get("comments", "no handler found") == "no handler found":
        note = "getHandler answered but no log line"
    return "other", None, None, note


def case_literal(data, tls, o):
    kind, name, hsel, note = classify(o)
    if kind == "chosen":
        hid = c01.HID.get(name)
        if hid is None or hsel is None:
            return None, kind, name, "handler class outside the model: %s" % name
        idc = "(IChosen %s %s)" % (hid, cps(hsel))
    elif kind == "notfound":
        idc = "INotFound"
    else:
        idc = "IOther"
    mt = "(@nil (str * bool))" if not o["mime"] else "[" + "; ".join("(%s, %s)" % (cps(k), coq_bool(v)) for k, v in o["mime"]) + "]"
    ip = "(@None proto)" if o["cls"] is None else "(Some %s)" % PROTO[o["cls"]]
    lit = "((%s, %s), (%s, (%s, (%s, %s))))" % (coq_bool(tls), cbytes(data), mt, ip, idc, cbytes(o["out"].encode("latin-1")))
    return lit, kind, name, note


def run_kserve(chk, tier):
    """-> (mismatch_count, err, details)"""
    rng = chk.rng
    tree = build_tree(rng)
    tcoq = c01.tree_to_coq(tree)
    jobs, reqsets = [], []
    for lname, hl in LISTS.items():
        cfg = {"handlers.HandlerMultiplexer": {"handlers": "[" + ", ".join(c01.HMOD[h] for h in hl) + "]"},
               "handlers.ZIP.ZIPHandler": {"enabled": "true" if "HZip" in hl else "false"}}
        reqs = gen_requests(rng, tier)
        reqsets.append(reqs)
        jobs.append({"op": "serve_e2e", "tree": tree, "config": cfg, "requests": [{"data": gen.lat(r[3]), "tls": r[4]} for r in reqs]})
    res = impl_run_parallel(jobs, chunks=len(jobs))
    for r in res:
        if not r["ok"]:
            raise RuntimeError(r["err"] + "\n" + r.get("tb", ""))
    details = {"handler_lists": {}, "tree_entries": len(tree)}
    errs = []
    nmis = 0
    evals = []
    for (lname, hl), reqs, r in zip(LISTS.items(), reqsets, res):
        rr = r["res"]
        if rr["waptop"] != "/wap":
            errs.append("unexpected waptop %r" % rr["waptop"])
        cases, meta = [], []
        harness_notes = []
        dist = {}
        climber_reached = []
        for q, o in zip(reqs, rr["results"]):
            proto, s, layers, data, tls, hostile = q
            lit, kind, name, note = case_literal(data, tls, o)
            key = kind if kind != "chosen" else name
            dist[key] = dist.get(key, 0) + 1
            info = {"handlers": lname, "protocol": proto, "selector": s, "percent_layers": layers, "request_latin1": gen.lat(data), "tls": tls,
                    "impl": {"protocol_class": o["cls"], "decision": kind, "handler": name,
                             "handler_selector": None if not o["gh"] or o["gh"].get("hsel") is None else "".join(map(chr, o["gh"]["hsel"])),
                             "reply_latin1": o["out"][:300], "exception": o["exc"],
                             "log": ["".join(map(chr, l))[:200] for l in o["log"][:3]]}}
            if o.get("skipped") or o.get("timeout"):
                note = o["exc"]        # a request the implementation did not answer in time: reported, never waited for
            if note:
                harness_notes.append(dict(info, note=note))
            if o.get("skipped"):
                continue
            # model-independent: a climber in the percent-decoded selector must never reach a handler that touches files
            # (selectors that start with "/" only: without it a Gemini URL has no path at all; URL: selectors belong to the redirector)
            if hostile and proto != "raw" and layers == 1 and s.startswith("/") and "URL:" not in s and kind == "chosen":
                climber_reached.append(info)
            if lit is None:
                continue
            cases.append(lit)
            meta.append(info)
            chk.count(("kserve", lname, data, tls), nontrivial=hostile or kind != "notfound")
        pre = "Definition TREE : tree := %s.\nDefinition HS : list hid := [%s].\nDefinition ADMIN : str := %s." % (
            tcoq, "; ".join(hl), cstr(rr["admin"]))
        evals.append((lname, hl, cases, meta, pre, dist, harness_notes, climber_reached))

    def ev(item):
        lname, hl, cases, meta, pre, dist, notes, reached = item
        return coq_eval(chk.prop, "kserve_" + lname.replace("-", "_"), IMPORTS,
                        "chk_serve TREE HS %s ADMIN" % coq_bool("HZip" in hl), cases, shard=200, pre=pre)

    with concurrent.futures.ThreadPoolExecutor(max_workers=len(evals)) as ex:
        outs = list(ex.map(ev, evals))
    for (lname, hl, cases, meta, pre, dist, notes, reached), (mism, err, nsh) in zip(evals, outs):
        if err:
            errs.append(err)
        nmis += len(mism) + len(notes)
        details["handler_lists"][lname] = {
            "cases": len(cases), "shards": nsh, "mismatches": len(mism), "implementation_decisions": dist,
            "first_mismatches": [meta[i] for i in mism[:6]], "harness_inconsistencies": notes[:4],
            "climber_reached_a_handler": reached[:6]}
    details["cases"] = sum(v["cases"] for v in details["handler_lists"].values())
    details["mismatches"] = nmis
    details["climber_reached_a_handler"] = sum(len(e[7]) for e in evals)
    if evals and evals[0][3]:
        chk.sample({"kind": "kserve", **{k: evals[0][3][5][k] for k in ("handlers", "protocol", "selector", "request_latin1")},
                    "impl": evals[0][3][5]["impl"]["decision"]})
    return nmis, ("\n".join(errs) if errs else None), details


class _Chk:
    """just enough of common.Check for a standalone run (no replay files touched)"""

    def __init__(self, prop):
        import random
        from common import seed
        self.prop = prop
        self.rng = random.Random(seed())
        self.n = 0

    def count(self, key, nontrivial=True, n=1):
        self.n += n

    def sample(self, obj, limit=6):
        pass


if __name__ == "__main__":
    import json
    import time
    tier = sys.argv[1] if len(sys.argv) > 1 else "quick"
    t0 = time.time()
    chk = _Chk("KServe")
    n, err, det = run_kserve(chk, tier)
    print(json.dumps(det, indent=1, default=repr, ensure_ascii=True)[:12000])
    print("cases:", det["cases"], "mismatches:", n, "climber_reached_a_handler:", det["climber_reached_a_handler"],
          "err:", (err or "")[:3000], "secs: %.1f" % (time.time() - t0))
    sys.exit(1 if (n or err) else 0)
