#!/usr/bin/env python3
"""Writes /verif/MANIFEST.json from the table below (single source of truth)."""
import json
import os

HERE = os.path.dirname(os.path.dirname(os.path.abspath(__file__)))

CHECKS = {
    "C01": dict(
        technique="Coq proof (filter => confinement, for all roots/selectors) + AST translator for the filter patterns + correspondence (vm_compute in Coq vs real functions) + audit-hook / two-world differential search",
        text="Machine-checked theorems over the model of the selector filter, slashnormalize, getfspath and symlink-free path resolution: every selector the filter accepts (and every path handlers derive from it) resolves inside the root for every root spelling/working directory, and every documented climbing substring is rejected. The filter's pattern list is regenerated from handlers/base.py on every run, so the theorems are re-checked against the current source; the model functions are compared with the real ones exhaustively on short strings; an end-to-end search (audit hooks, three outside-worlds) looks for a concrete escaping request.",
        note="Trusts: Coq kernel + vm_compute; translator gen.py (pattern-list shape); in-process driver; kernel path resolution modelled as `resolve` for symlink-free trees; the handler chain above the filter (which handler appends which suffix) is covered by the end-to-end search and the derived-suffix theorem, not yet by a full handler-chain model.",
        ref="6/C01"),
    "C02": dict(
        technique="Coq proof (first-match, TLS strictness, totality and specific-before-catch-all for the shipped list regenerated from conf and class flags) + correspondence vs ProtocolMultiplexer.getProtocol + independent shape oracle + exhaustive live-socket sniff",
        text="Theorems over the model of every protocol's canhandlerequest and of getProtocol, for all request lines, header blocks, TLS flags and protocol lists: the answer is the first acceptor of the list; an acceptor's secure flag equals the connection's TLS-ness; the shipped list (regenerated from conf/pygopherd.conf, flags from the class definitions) claims every line and never by a catch-all when a specific protocol matches; any list is total iff it has a catch-all of each TLS-ness; the header block matters only to the WAP class, only for HTTP-shaped lines, only on plaintext connections; classes of the other TLS-ness, decliners and duplicates are invisible; each class's test is equivalent to a declarative description of its request line (HTTP, Gemini, Spartan, Gopher+). The model is compared with the real getProtocol on thousands of near-miss lines x lists x header blocks; the 0x16 sniff is exercised for all 256 first bytes on a live TLS-enabled server.",
        note="Trusts: Coq kernel; translator (protocol list literal, boolean `secure` attributes); str.lower modelled on ASCII; the socket sniff clause is runtime behaviour decided by the exhaustive live run (partial for that clause).",
        ref="6/C02"),
}


CHECKS.update({
    "C03": dict(
        technique="Coq proof (every protocol's reply writer is well-formed for ANY message bytes; error statuses carry no body) + correspondence vs real filenotfound/write_status/handle + Coq validators run on real traffic + malformed-stream / same-process history / long-run growth oracle + live-socket leg on the real server",
        text="Theorems over the model of each protocol's response writers (Model/Respond.v) and validators written from the protocol documents (Model/Wellformed.v): for every outcome of the handler chain (not-found, I/O error, document, directory) and every message/body byte string the reply is syntactically valid for its protocol, Gemini/Spartan error replies are exactly one status line. The model is compared with the real writers on thousands of messages and with real end-to-end replies; the Coq validators are run over every reply of the request stream. Totality of the handler chain, history independence and the time bound are decided by the oracle search (hand-written malformed stream per protocol, climbers, every path of generated trees, random bytes, 260+ histories), not by theorems.",
        note="Trusts: Coq kernel; in-process driver; the handler chain's totality is searched, not proved (partial for that clause); wall-clock bound is runtime (measured). Two genuine history dependences are recorded as known findings.",
        ref="6/C03, 12"),
    "C04": dict(
        technique="Coq proof (chunked copy = identity, decimal round trip, Gopher+ length, HEAD, WML invertibility, MIME precedence) + correspondence vs real code + byte-for-byte oracle over sizes around the copy block, look-alike documents and a live decompression leg on a real socket",
        text="Theorems for all file contents and sizes: concatenating the 4096-byte chunks gives the file; a reference client reading each protocol's response gets exactly the file's bytes; the Gopher+ length header parses to the number of body bytes (unknown-length marker for transforming handlers); HEAD is GET's header block with an empty body; the WML text conversion is decodable line by line; the advertised type is the table type of the name with the documented precedence. Compared with the real code on files of sizes 0,1,4095..12289,1 MiB, binary/CRLF/invalid UTF-8 contents, awkward names, all protocols, two handler lists; mimetypes.guess_type compared exhaustively over the loaded tables.",
        note="Trusts: Coq kernel; CPython UTF-8 codec for the WML model (code points); mimetypes tables as Section variables instantiated from the real module; decompression/TAL output taken as given; dates masked.",
        ref="6/C04, 12"),
    "C05": dict(
        technique="Coq proof (per-protocol request/link round trip for all byte strings, built on proved percent and UTF-8/surrogateescape codecs) + correspondence vs real handle() routing/urlparse/parse_qs + exhaustive crawl oracle",
        text="Theorems: for every byte string b (what the OS hands out as a name) and s = decode(b), the selector each protocol extracts from the request a client forms from the rendered link is slashnormalize s (Gopher family under the no-TAB/no-edge-blank condition the property states); likewise for search strings and for Gemini's prompt/redirect dance; listing selectors are fixed points of slashnormalize. Codec lemmas (unquote(quote b) = b, encode(decode b) = b) are proved for all inputs. The request model is compared with what the real protocol objects hand to getHandler on thousands of request lines; the semantic closure (every advertised local link is served) is decided by crawling generated trees with hostile names from / in all 9 protocol variants.",
        note="Trusts: Coq kernel; urlsplit's bracket/NFKC checks not modelled (flagged inputs accepted either way); the closure over the handler chain is searched (crawl exhaustive per generated tree), not proved.",
        ref="6/C05, 12"),
    "C07": dict(
        technique="Coq proof (entrycmp from the source = documented key order; stable sorts agree under a total preorder; listing = permutation of visible names, NoDup, order independent) + AST/conf translator + correspondence + permutation oracle",
        text="Theorems for all directory contents and enumeration orders: the comparison function translated from UMN.py is the documented key order, any stable sort gives the model's result, a DirHandler/UMN listing contains exactly the visible, servable, not-hidden names once each, is independent of the enumeration order (UMN: for the repaired sorted walk; the pinned walk is refuted), and hidden files stay retrievable. The ignore pattern is compiled from conf on every run. Compared with the real handlers under all permutations (<=6 names) or 200 random ones, on names on both sides of every alternative.",
        note="Trusts: Coq kernel; translator (entrycmp/sgn shape, regex subset); list.sort assumed to be a stable sort (cross-checked); child entries are inputs to the model.",
        ref="6/C07, 12"),
    "C08": dict(
        technique="Coq proof (link-file parser = reference reading of the manual on well-formed files; add/override/hide/plus/order/abstract laws) + correspondence vs getLinkItem/processLinkFile and rendered menus + Python twin of the reference reading",
        text="Theorems for all well-formed link files (any number of blocks, any subset and order of the seven line kinds, comments, continuation abstracts): the parser model equals the reference reading written from doc/pygopherd.txt; a non-./ block adds exactly one entry, a ./ block or .cap file overrides only the fields it sets, X and - hide, + means this server, the order is numbered/unnumbered/negative, sidecar abstracts become the abstract. Pinned deviations (Type=-, Numb reset, double hide) are refuted witnesses and were repaired in /repo. Compared with the real parser on 700 link files and with real menus in three extstrip modes.",
        note="Trusts: Coq kernel; int() via a digit table; equality of MergeLinkFiles with the reference reading is proved per block, for whole block lists only under the oracle (apply_blocks_partial).",
        ref="6/C08, 12"),
    "C09": dict(
        technique="Coq proof (one entry per line; classifier = independent reading of the gophermap docs on well-formed lines) + correspondence + Python twin of the spec through all protocols",
        text="Theorems for all gophermap files: one entry per line in file order, the first bad line raises; on well-formed lines the classifier equals the reading of the documentation field by field (info text, type/description split, selector default, relative resolution against the directory, host/port default); the entry list is computed before and independently of the protocol. Compared with the real handler on generated gophermaps at depths 0-3 and as *.gophermap files through 9 protocol variants.",
        note="Trusts: Coq kernel; int() model for ports (ASCII digits); padded fields outside the well-formedness predicate are covered by K only.",
        ref="6/C09, 12"),
    "C10": dict(
        technique="Coq proof (invariant by induction over all finite histories of the cache state machine) + correspondence on real histories (os.utime clock) + independent oracle",
        text="Theorems over every finite history of mutations, clock advances and listing requests (induction over fold_left step): a cached listing is the generated listing of the directory at the file's birth time; every hit returns exactly what an earlier request generated whatever the two protocols; every reply reflects the directory at most one lifetime ago; a hit never refreshes the age; lifetime 0 means always current. Compared with the real handler on histories of 5-40 operations with lifetimes 0, 2, 180 through 10 request syntaxes.",
        note="Trusts: Coq kernel; pickle round trip is the identity on entry lists (checked through rendered listings); file mtime = time of the write; gen is a Section variable.",
        ref="6/C10, 12"),
    "C11": dict(
        technique="Coq proof (repaired step: any undecodable cache content is a miss and is rewritten, a failing cache write never changes the reply, for all histories) + exhaustive fault enumeration on the real code (every prefix length, persistent write faults at every cut point)",
        text="Theorems: for the repaired loadcache, any strict prefix of a complete file and any undecodable content of any age is a cache miss that regenerates the listing and stores a fresh complete entry; the code never fails whatever the damage; the pinned code is refuted. The two codec facts needed (round trip, strict prefixes fail) are Section hypotheses discharged for a toy codec and checked exhaustively for real pickle on every prefix of every produced cache file. The real code is run on EVERY prefix length 0..size and zero/0xFF-filled files of each cache file (exhaustive), plus the ZIP index cache files.",
        note="Trusts: Coq kernel; real pickle's framing is checked exhaustively per file, not proved; only dbm.dumb exists here so the ZIP shelve cache is never re-read (recorded).",
        ref="6/C11, 12"),
    "C12": dict(
        technique="Coq proof (filter-map loop keeps every non-faulty child in order for all name lists and fault assignments, incl. children whose entry cannot be built) + fault injection on real trees (fault at the k-th file-system call made for a child, FIFOs as sidecars, hostile names, logger on)",
        text="Theorems for all name lists and all fault assignments: the repaired child loop returns Ok, the survivors are exactly the non-faulty names in their original order each with the entry its handler built (DirHandler and UMN child loop); a child can only fail with FileNotFound; the pinned mapM loop is refuted. Fault injection on the real code: every entry position x {dangling symlink, FIFO, socket, names with .. or ./, dot-named specials, stat failing with ENOENT/EACCES after enumeration} x singles and pairs x 9 protocols x both handlers.",
        note="Trusts: Coq kernel; the security filter comes from Gen/Secure.v; which stat failures exist is an input to the model.",
        ref="6/C12, 12"),
    "C14": dict(
        category="proof",
        technique="Coq proof on an interleaving model (every schedule, any number of threads) + translator listing all module-level state + deterministic gate schedules and stress bursts on real threading/forking servers (PARTIAL: real schedules are stress only)",
        text="Theorems over every schedule of N request threads broken into system-call-granularity actions: lazily initialised tables end up with the same values under any interleaving; each response equals the sequential one provided no request opens the cache for writing while another holds it open (C14_isolated_partial; the unconditional statement is kept visible with its codec hypothesis, which real pickle does not satisfy for holed files); the pinned reader racing a truncating writer is refuted. The shared-state hypothesis is checked against every global statement in pygopherd/ on each run. Real servers: 65 deterministic schedules at the cache-file gates, then bursts of 8/32 mixed plaintext+TLS requests against ThreadingTCPServer and ForkingTCPServer, liveness and reaping probes.",
        note="PARTIAL: the model cannot exhibit GIL/OS scheduling, fork copy-on-write, the accept loop, TLS library state; those are exercised by stress only. Trusts: Coq kernel; translator (Globals unit).",
        ref="6/C14, 12"),
    "C15": dict(
        technique="Coq proof (+INFO = plain menu line; block structure parsed by a reference parser; sidecar lines exact; length prefix) + correspondence + oracle vs files on disk",
        text="Theorems for all entries and sidecar contents: the +INFO payload is byte for byte the plain Gopher line; parsing the ! reply with a reference block parser gives INFO, ADMIN, VIEWS(type, size/1024) then one block per sidecar and nothing else; a sidecar of printable lines appears as exactly its right-stripped lines (repaired getblock; one-blank-line files excepted and stated); block body lines can never be taken for headers; the + prefix is the exact length or the unknown marker. Compared with the real code on files/directories/mailbox items x all 16 sidecar subsets x ! $ +.",
        note="Trusts: Coq kernel; dates masked; virtual items advertise no Gopher+ support and are checked for the three fixed blocks only.",
        ref="6/C15, 12"),
    "C16": dict(
        technique="Coq proof (index built from any archive = lexical tree; VFS queries on the archive = queries on the extracted tree incl. link chains; links resolve only inside the index; fixpoint terminates; real-file-only guard) + AST translator for the vfs-type tests + correspondence vs VFSZip + archive-vs-extracted-tree oracle",
        text="Theorems for all archives (induction; fuel lemma for the link fixpoint): lookup in the populated index is file iff a file member has that name, directory iff it is a prefix of a member, children exactly the next components; every canonical VFS query on the archive equals the same query on the extracted tree (class, bytes, children as sets) including link chains, absolute, dangling, cyclic and climbing links; links never consult anything but the index; a guarded real-file-only handler is never chosen inside an archive (the guard is read from mbox.py/pyg.py/scriptexec.py on every run). Compared with the real VFSZip structures and calls on hundreds of archives; responses for /T/<sel> vs /T.zip/<sel> compared through 9 protocols.",
        note="Trusts: Coq kernel; zipfile (archive -> member list done by the real library); byte equality of rendered responses (same_site) is oracle only; link targets with . or empty components are covered by K and the oracle only.",
        ref="6/C16, 12"),
    "C19": dict(
        technique="Coq proof by exhaustive kernel computation over the finite configuration x failure-position domain on an IR regenerated from initialization.py and the server constructor of server.py (translator) + exhaustive correspondence with the real start-up under substituted OS calls",
        text="The start-up code (initialize, init_security, get_server) is translated on every run into a small IR with a big-step semantics; over all 96 option combinations x every external call failing in turn (3 error classes) it is proved by computation in the kernel (lifted with forallb_forall, the bound is in the statement) that bind and key loading precede every privilege change, chroot < setgroups < setregid < setreuid, setgroups present iff uid or gid, chroot is followed by root:=/ and chdir(/) before any identity change, and a failure at any position aborts with exactly the calls made so far. The real functions are run under recording fakes for all 4682 (configuration, failure) pairs and compared with the IR semantics.",
        note="Trusts: Coq kernel (vm_compute casts); translator gen_init.py (IR shape, fail-closed); substituted os/pwd/grp/ssl entry points.",
        ref="6/C19, 12"),
    "C20": dict(
        technique="Coq proof (containment, logging under the failure's own class, with-brackets closed, for every response shape, fault index, error class, protocol) + translator (handler clauses, open() sites, write sites reachable from protocol classification) + exhaustive fault injection at every write index",
        text="Theorems by induction over any list of write/bracket actions, any fault index, any error class and any protocol class: nothing propagates past the connection handler; every record logged after the fault carries the client address and the failure's own class (pinned args[1] handlers refuted); every with-bracket is closed on every path; the non-with open sites in the source equal the listed reference-counted resources (translator). The real handler is driven with a wfile failing at EVERY write index of documents, menus, error pages, Gopher+ info, mailbox and ZIP replies x EPIPE/ECONNRESET/one-argument timeout x protocols; log records and /proc/self/fd are checked.",
        note="Trusts: Coq kernel; translator gen_conn.py; descriptor release of mailbox/ZIP objects happens at garbage collection (runtime, recorded separately; partial for that clause).",
        ref="6/C20, 12"),
})


CHECKS.update({
    "C17": dict(
        technique="Coq proof (well-formedness checker sound; priority order; TALES and repeat-variable laws; compiler = serialiser on TAL-free streams; C17_compiler_correct: compile+interpret = tree-walking specification of the source document for every METAL-free template) + translation validation (real compiled programs checked by the Coq wf_program on every run) + compile/VM/evaluate correspondence + independent reference evaluator (PARTIAL: METAL not in the proved specification)",
        text="Theorems: the boolean program checker wf_program is sound (balanced nested scopes, commands in TAL priority order, every jump symbol is the end of the owning element, macros/slots are single elements); the compiler's opcode sort is a sorted permutation; TALES alternation/not/exists/nocall laws; repeat-variable arithmetic incl. letter bijectivity for every position and roman numerals for n < 3999 (finite sweep, bound stated). Compiler => well-formed (C17_wf_program) is proved for every accepted event stream, TAL and METAL; compiler correctness (C17_compiler_correct: interpreter output, Context operations and restored stacks equal the tree-walking specification of the SOURCE document, for every environment and evaluator) is proved for every well-nested template without metal: statements; METAL stays _partial (full statements kept visible). Every compiled program of every generated template (600 quick / 10 000 thorough) is written as a Gallina literal and checked by wf_program inside Coq; the compile model reproduces the real compiler on recorded html.parser event streams; the abstract VM follows the real interpreter's recorded control flow; an independent tree-walking evaluator written from the TAL 1.4 order of operations is compared with real expand output.",
        note="PARTIAL: macro expansion (METAL), xmlns prefix re-declaration and not-well-nested documents are outside C17_compiler_correct and are checked per program (translation validation, trace and reference-evaluator correspondence). Trusts: Coq kernel; html.parser (event streams taken as given); Python eval as an oracle; value universe restricted to str/num/seq/map/None/callable.",
        ref="6/C17, 12"),
    "C18": dict(
        technique="Coq proof (scope/context discipline of the VM for every well-formed program, escaping, python gate, pass-through) + the same translation validation as C17 + skeleton / canary / snapshot / double-expansion oracles",
        text="Theorems for every well-formed program, any data state, all decision oracles and any fuel: the VM never gets stuck and every terminating run restores locals, localStack, repeatMap and repeatStack with an empty scope stack (including macro calls with slot filling); only explicit global defines can add names; dynamic text without `structure` is escape(false) of the value and dynamic attribute values are escape(true); with allowPythonPath off no python evaluation happens at any nesting depth; a TAL-free event stream compiles to one OUTPUT of its serialisation. The hypothesis `wf_program` is checked inside Coq for every real compiled program on every run. Oracles on the real engine: html.parser skeletons of expansions under contexts differing only in string contents, a canary for python: paths (also through handlers/tal.py), context snapshots before/after, TAL-free documents expanded twice.",
        note="Trusts: Coq kernel; html.parser; termination of the VM is not proved (the theorem covers every terminating run); no tokenizer model for the skeleton clause (oracle only).",
        ref="6/C18, 12"),
})


CHECKS.update({
    "C06": dict(
        technique="Coq proof (reference client readers applied to each protocol's rendering give the same view of every entry list; MIME adjustment equivalence; query round trips from C05) + byte-for-byte correspondence of all six renderers + cross-protocol oracle on crawled sites",
        text="Theorems for all entry lists: for each of Gopher, Gopher+, HTTP, WAP, Gemini, Spartan the reference client reader (Gopher line parser, gemtext reader, an HTML/WML tokenizer with row/item readers) applied to the rendered directory equals `view` of the entries, hence any two protocols show the same links in the same order with the same names (after the documented backslashreplace normalisation for names that are not UTF-8) and equivalent targets, info lines equal unless abstract_entries=unsupported separates protocols that carry abstracts natively; adjustmimetype variants differ only on None and the menu type. All renderers are compared byte for byte with the real ones on generated entries; on crawled trees every directory's view, every document's MIME type and body, trailing-slash variants and search strings through a PYG and a CGI echo handler are compared across all 9 protocol variants.",
        note="Trusts: Coq kernel; entry well-formedness (`entry_wf`, evaluated in Coq on real entries) excludes the divergences listed in DESIGN 12.7; resolution of a selector to the same object is by the shared getHandler (C01 chain model) and searched end to end.",
        ref="6/C06, 12"),
    "C13": dict(
        technique="Coq proof (escape output is inert for a tokenizer model; every page builder has a data-independent element/attribute skeleton; header lines carry no slot; Gopher+ body lines are never headers) + correspondence of page builders and of the tokenizer vs html.parser + hostile-vs-inert skeleton oracle",
        text="Theorems for all slot values (names, selectors, hosts, URLs, messages, titles): html.escape output contains no < > quote and every & starts an entity; such text keeps the tokenizer in character data or inside a double-quoted attribute value; therefore for each builder (HTTP row, directory start/end, 404, WAP row, deck, 404, text-to-WML, URL redirect page) the skeleton of the page is the same for any two data values; HTTP header lines are constants or table values; every line of a Gopher+ block body starts with a space and contains no line separator. The pinned unescaped HREF is refuted. Builders are compared byte for byte with the real ones; the tokenizer model agrees with html.parser on 558 real and mutated pages; an oracle places a payload grammar in every echo position and compares skeletons, header blocks and Gopher+ block headers with an identically shaped inert site.",
        note="Trusts: Coq kernel; browsers' tokenisation is represented by the model tokenizer cross-checked against Python's html.parser; WML `$` variable syntax is out of the property's letter.",
        ref="6/C13, 12"),
})

NOT_YET = {}


def main():
    props = [json.loads(l)["id"] for l in open(os.path.join(HERE, "properties.jsonl"))]
    checks = []
    for pid in props:
        if pid not in CHECKS:
            continue
        c = CHECKS[pid]
        checks.append({
            "property_id": pid,
            "quick_cmd": f"./check {pid} --tier quick",
            "thorough_cmd": f"./check {pid} --tier thorough",
            "evidence_file": f"/verif/evidence/{pid}.json",
            "replay_cmd_template": f"./check {pid} --replay {{path}}",
            "engine": "coq-proof+correspondence",
            "level_claimed": {"category": c.get("category", "proof"), "text": c["text"], "design_ref": "DESIGN.md section " + c["ref"]},
            "level_note": c["note"],
            "technique": c["technique"],
        })
    na = [{"property_id": pid, "reason": NOT_YET.get(pid, "check not built yet in this round (planned: see DESIGN.md section 6); no claim is made")}
          for pid in props if pid not in CHECKS]
    m = {
        "version": 1,
        "setup_cmd": "cd /verif && ./setup.sh",
        "hooks": {
            "guard": "PYGOPHERD_VERIF",
            "enable": "none needed: checks drive /repo in-process from outside (fake socket objects, sys.addaudithook, monkey-patched os entry points); PYGOPHERD_VERIF=1 is exported for uniformity",
            "baseline_off_cmd": "cd /repo && /venv/bin/python -m pytest -ra -q -p no:cacheprovider --timeout=900 --continue-on-collection-errors",
            "source_commits": [],
            "add_only": True,
        },
        "engines": [{"name": "coq-proof+correspondence", "path": "/verif/check",
                     "serves_properties": [c["property_id"] for c in checks],
                     "kind_free_text": "Coq 8.16 development under /verif/coq (models, theorems), AST translator under /verif/translate regenerating Gen/*.v from /repo on every run, Python harness under /verif/harness running the real code in-process and evaluating the model inside Coq (vm_compute) on the same inputs"}],
        "checks": checks,
        "not_applicable": na,
        "notes": "See DESIGN.md. known_findings.json lists genuine defects (fixed or recorded).",
    }
    with open(os.path.join(HERE, "MANIFEST.json"), "w") as f:
        json.dump(m, f, indent=1)


if __name__ == "__main__":
    main()
