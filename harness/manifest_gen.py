#!/usr/bin/env python3
"""Writes /verif/MANIFEST.json from the table below (single source of truth)."""
import json
import os

HERE = os.path.dirname(os.path.dirname(os.path.abspath(__file__)))

CHECKS = {
    "C01": dict(
        technique="Coq proof (filter => confinement, for all roots/selectors) + AST translator for the filter patterns + correspondence (vm_compute in Coq vs real functions) + audit-hook / two-world differential search",
        text="Machine-checked theorems over the model of the selector filter, slashnormalize, getfspath and symlink-free path resolution: every selector the filter accepts (and every path handlers derive from it) resolves inside the root for every root spelling/working directory, and every documented climbing substring is rejected. The filter's pattern list is regenerated from handlers/base.py on every run, so the theorems are re-checked against the current source; the model functions are compared with the real ones exhaustively on short strings; an end-to-end search (audit hooks, three outside-worlds) looks for a concrete escaping request.",
        note="Trusts: Coq kernel + vm_compute; translator gen.py (pattern-list shape); in-process driver; kernel path resolution modelled as `resolve` for symlink-free trees; the handler chain above the filter (which handler appends which suffix) is covered by the end-to-end search and the derived-suffix theorem, not yet by a full handler-chain model.",
        ref="6/C01"),
    "C02": dict(
        technique="Coq proof (first-match, TLS strictness, totality and specific-before-catch-all for the shipped list regenerated from conf and class flags) + correspondence vs ProtocolMultiplexer.getProtocol + independent shape oracle + exhaustive live-socket sniff",
        text="Theorems over the model of every protocol's canhandlerequest and of getProtocol, for all request lines, header blocks, TLS flags and protocol lists: the answer is the first acceptor of the list; an acceptor's secure flag equals the connection's TLS-ness; the shipped list (regenerated from conf/pygopherd.conf, flags from the class definitions) claims every line and never by a catch-all when a specific protocol matches. The model is compared with the real getProtocol on thousands of near-miss lines x lists x header blocks; the 0x16 sniff is exercised for all 256 first bytes on a live TLS-enabled server.",
        note="Trusts: Coq kernel; translator (protocol list literal, boolean `secure` attributes); str.lower modelled on ASCII; the socket sniff clause is runtime behaviour decided by the exhaustive live run (partial for that clause).",
        ref="6/C02"),
}

NOT_YET = {}


def main():
    props = [json.loads(l)["id"] for l in open(os.path.join(HERE, "properties.jsonl"))]
    checks = []
    for pid in props:
        if pid not in CHECKS:
            continue
        c = CHECKS[pid]
        checks.append({
            "property_id": pid,
            "quick_cmd": f"./check {pid} --tier quick",
            "thorough_cmd": f"./check {pid} --tier thorough",
            "evidence_file": f"/verif/evidence/{pid}.json",
            "replay_cmd_template": f"./check {pid} --replay {{path}}",
            "engine": "coq-proof+correspondence",
            "level_claimed": {"category": c.get("category", "proof"), "text": c["text"], "design_ref": "DESIGN.md section " + c["ref"]},
            "level_note": c["note"],
            "technique": c["technique"],
        })
    na = [{"property_id": pid, "reason": NOT_YET.get(pid, "check not built yet in this round (planned: see DESIGN.md section 6); no claim is made")}
          for pid in props if pid not in CHECKS]
    m = {
        "version": 1,
        "setup_cmd": "cd /verif && ./setup.sh",
        "hooks": {
            "guard": "PYGOPHERD_VERIF",
            "enable": "none needed: checks drive /repo in-process from outside (fake socket objects, sys.addaudithook, monkey-patched os entry points); PYGOPHERD_VERIF=1 is exported for uniformity",
            "baseline_off_cmd": "cd /repo && /venv/bin/python -m pytest -ra -q -p no:cacheprovider --timeout=900 --continue-on-collection-errors",
            "source_commits": [],
            "add_only": True,
        },
        "engines": [{"name": "coq-proof+correspondence", "path": "/verif/check",
                     "serves_properties": [c["property_id"] for c in checks],
                     "kind_free_text": "Coq 8.16 development under /verif/coq (models, theorems), AST translator under /verif/translate regenerating Gen/*.v from /repo on every run, Python harness under /verif/harness running the real code in-process and evaluating the model inside Coq (vm_compute) on the same inputs"}],
        "checks": checks,
        "not_applicable": na,
        "notes": "See DESIGN.md. known_findings.json lists genuine defects (fixed or recorded).",
    }
    with open(os.path.join(HERE, "MANIFEST.json"), "w") as f:
        json.dump(m, f, indent=1)


if __name__ == "__main__":
    main()
