"""Several `mismatches` evaluations in one coqc run, shared pre-compiled local
modules (e.g. big tables), bundles run in parallel.  Complements common.coq_eval
for checks whose cases carry large byte strings."""
import concurrent.futures
import os
import re
import subprocess

from common import BUILD, COQ, NPROC


def outdir(prop):
    d = os.path.join(BUILD, prop, "shards")
    os.makedirs(d, exist_ok=True)
    return d


def compile_module(prop, name, imports, text, timeout=600):
    """Write <name>.v (a local module the bundles `Require Import`) and compile it.
    Returns error text or None."""
    d = outdir(prop)
    fn = os.path.join(d, name + ".v")
    with open(fn, "w") as f:
        f.write(f"From PG Require Import {imports}.\nLocal Open Scope N_scope.\n{text}\n")
    p = subprocess.run(["timeout", str(timeout), "coqc", "-Q", COQ, "PG", "-w", "none", name + ".v"],
                       stdout=subprocess.PIPE, stderr=subprocess.STDOUT, text=True, cwd=d)
    if p.returncode != 0:
        return f"{fn}: coqc failed:\n{p.stdout[-3000:]}"
    return None


def bundle_text(imports, local_modules, pre, evals):
    t = ["From Coq Require Import ZArith.", f"From PG Require Import {imports}."]
    for m in local_modules:
        t.append(f"Require Import {m}.")
    t.append("Local Open Scope N_scope.")
    t.append(pre)
    for i, (chk, cases) in enumerate(evals):
        t.append(f"Definition cases{i} := [\n" + ";\n".join(cases) + "\n].")
        t.append(f"Eval vm_compute in (mismatches ({chk}) cases{i}).")
    return "\n".join(t) + "\n"


def run_bundle(prop, name, imports, local_modules, pre, evals, timeout=900):
    """evals: list of (checker expression, list of case literals).
    Returns (list of mismatch-index lists, one per eval; error text or None)."""
    d = outdir(prop)
    fn = os.path.join(d, name + ".v")
    with open(fn, "w") as f:
        f.write(bundle_text(imports, local_modules, pre, evals))
    try:
        p = subprocess.run(["timeout", str(timeout), "coqc", "-Q", COQ, "PG", "-w", "none", name + ".v"],
                           stdout=subprocess.PIPE, stderr=subprocess.STDOUT, text=True, cwd=d, timeout=timeout + 30)
    except subprocess.TimeoutExpired:
        return [list(range(len(c))) for _, c in evals], f"{fn}: TIMEOUT"
    if p.returncode != 0:
        return [list(range(len(c))) for _, c in evals], f"{fn}: coqc failed:\n{p.stdout[-3000:]}"
    found = re.findall(r"=\s*\[(.*?)\]\s*:\s*list N", p.stdout, re.S)
    if len(found) != len(evals):
        return [list(range(len(c))) for _, c in evals], f"{fn}: cannot parse output:\n{p.stdout[-2000:]}"
    res = []
    for body in found:
        body = body.strip()
        res.append([int(t.strip().replace("%N", "")) for t in body.split(";")] if body else [])
    return res, None


def run_bundles(prop, bundles, workers=None):
    """bundles: list of dict(name, imports, local_modules, pre, evals).  Parallel; order preserved."""
    def one(b):
        return run_bundle(prop, b["name"], b["imports"], b.get("local_modules", []), b.get("pre", ""), b["evals"],
                          timeout=b.get("timeout", 900))
    with concurrent.futures.ThreadPoolExecutor(max_workers=workers or NPROC) as ex:
        return list(ex.map(one, bundles))
