"""C07 — a listing is exactly the visible entries, once each, in a stable order."""
import itertools
import json
import re

from common import Check, coq_eval, coq_str, coq_bool, coq_opt, coq_list, impl_run, impl_run_parallel
import umnlib
from umnlib import tp, td, cq_z, cq_alts, cq_natlist

# names on the matching side of every alternative of the shipped pattern ...
MATCHING = [".cap", "xcap", "lost+found", "lib", "bin", "etc", "dev", "x~", "~", ".cache", ".cachefoo", ".forward",
            ".message", ".hushlogin", ".kermrc", ".notar", ".where", "veronica.ctl", "veronicaXctl", "robots.txt",
            "robots-txt", "nohup.out", "nohupZout", "gophermap", "a.abstract", ".abstract", "k.keyboards", "q.ask",
            "q.askme", "m.3d", "x~\n", "lib\n"]
# ... and near misses
MISSES = ["cap", "xxcap", "lost found", "lostfound", "libs", "mylib", "bins", "etcetera", "device", "x~y", "~x",
          "cache", "forward", ".forwards", ".messages", "veronica.ctlx", "robots.txt2", "nohup.outs", "gophermaps",
          "a.abstracts", "aabstract", "akeyboards", "k.keyboard", "qask", "3d", "m.3dx", "x~\n\n"]
PLAIN = ["a.txt", "b.txt", "c.html", "data.bin", "read me.txt", "Zebra", "apple", "café.txt", "\udcae.txt",
         "UP.TXT", "t.tar.gz", "img.gif", "z", "10", "9", "a.b.c", "sub", "sub2", "deep"]
# names a "smart" comparison might identify or reorder: leading zeros, letter case, trailing dot / blank,
# Unicode normalisation forms, embedded numbers.  The order of a listing is by code point, nothing else.
TIE_GROUPS = [["1.txt", "01.txt", "001.txt"], ["page7", "page07", "page10"], ["Readme", "README", "readme"],
              ["x", "x.", "x "], ["caf\u00e9", "cafe\u0301"], ["a1b", "a01b", "a10b", "a2b"], ["\uff11", "1"]]
DIRLIKE = {"lib", "bin", "etc", "dev", "lost+found", "sub", "sub2", "deep", ".cap", ".dotdir"}
DOTS = [".hidden", ".Links", ".names", ".dotdir", ".x"]

CONFIG = {"handlers.dir.DirHandler": {"cachetime": "0"}}
# The documented ignore pattern of the shipped configuration (conf/pygopherd.conf and conf/local.conf as pinned).
# The listings served with the UNMODIFIED shipped configuration are judged against it: the configuration files are
# part of the tree under test, and a shipped pattern that no longer hides what it is documented to hide is a defect
# of the tree even though the code follows its configuration faithfully.  Update when the documented pattern changes.
SHIPPED_PATTERN = (r"/.cap$|/lost\+found$|/lib$|/bin$|/etc$|/dev$|~$|/\.cache|/\.forward$|/\.message$|/\.hushlogin$|"
                   r"/\.kermrc$|/\.notar$|/\.where$|/veronica.ctl$|/robots.txt$|/nohup.out$|/gophermap$|\.abstract$|"
                   r"\.keyboards$|\.ask|\.3d$|~$")
REFERENCE_PATTERN = SHIPPED_PATTERN


def link_block(rng, i):
    return "Name=Link %d\nType=%s\nPath=/elsewhere/%d\nHost=%s\nPort=%s\n%s" % (
        i, rng.choice("01h"), i, rng.choice(["+", "other.example"]), rng.choice(["+", "70", "7070"]),
        rng.choice(["", "Numb=%d\n" % rng.choice([-2, -1, 1, 2, 10])]))


def gen_tree(rng, size, base, patt=None):
    """-> (tree spec, names in the directory, names hidden by metadata)"""
    patt = patt or SHIPPED_PATTERN
    names = set()
    names.add(rng.choice(MATCHING))
    names.add(rng.choice(MISSES))
    if size >= 4 and rng.random() < 0.6:
        names.update(rng.sample(rng.choice(TIE_GROUPS), 2))
    faulty = {}
    if size >= 4 and rng.random() < 0.5:
        fn = rng.choice(["!dangling", "0fifo", "M..M", "a-dangling", "k.\\k"])
        faulty[fn] = "fifo" if "fifo" in fn else "symlink" if "dangling" in fn else "file"
        names.add(fn)
    while len(names) < size:
        names.add(rng.choice(rng.choice([MATCHING, MISSES, PLAIN, PLAIN, DOTS])))
    names = sorted(names)
    rng.shuffle(names)
    pre = base.strip("/")
    pre = pre + "/" if pre else ""
    tree = []
    hidden = set()
    files = []
    for n in names:
        if n in faulty and faulty[n] != "file":
            tree.append({"path": tp(pre + n), "kind": faulty[n], "target": "nowhere-at-all"})
            continue
        if n in DIRLIKE:
            tree.append({"path": tp(pre + n), "kind": "dir"})
            if n not in (".cap",) and rng.random() < 0.5:
                tree.append({"path": tp(pre + n + "/inner.txt"), "data": "inner\n"})
        elif n in (".Links", ".names", ".x"):
            continue
        else:
            tree.append({"path": tp(pre + n), "data": "content of %s\n" % tp(n)})
            if not n.startswith("."):
                files.append(n)
    base_sel = "" if base == "/" else base
    # link and .cap files only refer to entries the listing would show (an override or hide block
    # for a file that is not listed ADDS an entry for it; that is C08's subject, not C07's)
    # ... and that a line of a link file can name at all (lines are stripped)
    listed = [n for n in names if not n.startswith(".") and not re.search(patt, base_sel + "/" + n)
              and "\n" not in n and n == n.strip() and not n.endswith("/") and n not in faulty]
    link_hidden = set()      # hidden by a link block: later blocks may name the same path again, it stays hidden
    real_hidden, real_link_hidden = hidden, link_hidden
    for n in names:
        if n in (".Links", ".names", ".x"):
            # a link file the configured pattern ignores is never read: its blocks hide nothing
            if re.search(patt, base_sel + "/" + n):
                hidden, link_hidden = set(), set()
            else:
                hidden, link_hidden = real_hidden, real_link_hidden
            blocks = []
            for i in range(rng.randrange(0, 3)):
                blocks.append(link_block(rng, rng.randrange(100)))
            for tgt in rng.sample(listed, min(len(listed), rng.randrange(0, 3))):
                if rng.random() < 0.35:
                    link_hidden.add(tgt)
                    blocks.append("Type=X\nPath=./%s%s\n" % (tgt, rng.choice(["", "", "/"])))
                    hidden.add(tgt)
                else:
                    blocks.append("Path=./%s\nName=%s\n%s" % (tgt, rng.choice(["Renamed " + tgt, "AAA", "zzz"]),
                                                               rng.choice(["", "Numb=%d\n" % rng.choice([-1, 1, 2, 3])])))
            if rng.random() < 0.2:
                blocks.append("Type=%s\nPath=./no-such-file-%d\n" % (rng.choice("X-"), rng.randrange(9)))  # nothing to hide
            rng.shuffle(blocks)
            text = "\n".join(blocks) if blocks else rng.choice(["", "# just a comment\n", "free text\n"])
            tree.append({"path": tp(pre + n), "data": td(text)})
    hidden, link_hidden = real_hidden, real_link_hidden
    if ".cap" in names:
        # a file hidden by its .cap file stays hidden even when link blocks (above) name it too
        for tgt in rng.sample(listed, min(len(listed), 2)):
            if rng.random() < 0.4:
                tree.append({"path": tp(pre + ".cap/" + tgt), "data": "Type=%s\n" % rng.choice("X-")})
                hidden.add(tgt)
            else:
                tree.append({"path": tp(pre + ".cap/" + tgt), "data": "Name=Capped\nNumb=%d\n" % rng.choice([1, 2, -1])})
    if not tree:
        tree.append({"path": tp(pre + "a.txt"), "data": "x\n"})
    return tree, names, hidden


def hide_sequence_tree(rng, base):
    """Several metadata blocks for the same ./path, at least one of them hiding it, spread over one or
    more link files in every order: once hidden by a link block an entry stays hidden, whatever other
    blocks (title, number, a second hide) come before or after, in the same or in another link file."""
    pre = base.strip("/")
    pre = pre + "/" if pre else ""
    files = rng.sample(["alpha.txt", "beta", "gamma.txt", "delta.bin", "sub"], rng.randrange(2, 5))
    links = rng.sample([".Links", ".names", ".x", ".zz"], rng.randrange(1, 4))
    tree = []
    for n in files:
        if n == "sub":
            tree.append({"path": pre + n, "kind": "dir"})
        else:
            tree.append({"path": pre + n, "data": "content of %s\n" % n})
    per_file = {l: [] for l in links}
    hidden = set()
    for tgt in rng.sample(files, rng.randrange(1, min(3, len(files)) + 1)):
        seq = [rng.choice(["hideX", "hide-", "title", "numb", "caphide"]) for _ in range(rng.randrange(2, 4))]
        if rng.random() < 0.8 and not any(k.startswith("hide") for k in seq):
            seq[rng.randrange(len(seq))] = rng.choice(["hideX", "hide-", "caphide"])
        for k in seq:
            if k == "caphide":
                if not any(t["path"] == pre + ".cap/" + tgt for t in tree):
                    tree.append({"path": pre + ".cap/" + tgt, "data": "Type=%s\n" % rng.choice("X-")})
                hidden.add(tgt)
                continue
            if k == "hideX":
                b = "Type=X\nPath=./%s\n" % tgt
            elif k == "hide-":
                b = "Path=./%s\nType=-\n" % tgt
            elif k == "title":
                b = "Path=./%s\nName=Title of %s\n" % (tgt, tgt)
            else:
                b = "Numb=%d\nPath=./%s\n" % (rng.choice([1, 2, -1]), tgt)
            per_file[rng.choice(links)].append(b)
            if k.startswith("hide"):
                hidden.add(tgt)
    for l in links:
        tree.append({"path": pre + l, "data": "\n".join(per_file[l])})
    names = files + links + ([".cap"] if any("/.cap/" in "/" + t["path"] for t in tree) else [])
    return tree, names, hidden


def hide_first_trees():
    """Deterministic family: for every pair (hide block, other block) about the same ./path the hide block is
    read BEFORE the other one — later in the same link file, or in a link file read later — for files and for
    a directory, with and without a trailing slash in Path=.  Once hidden, the entry stays hidden."""
    hides = ["Type=X\nPath=./%s\n", "Path=./%s\nType=-\n"]
    others = ["Path=./%s\nName=Title again\n", "Numb=1\nPath=./%s\n", "Type=X\nPath=./%s\n",
              "Name=Both\nPath=./%s\nNumb=-1\nType=1\n"]
    out = []
    for slash in ("", "/"):
        for layout in ("same-file", "two-files", "three-files"):
            targets = ["f%d.txt" % i for i in range(len(others))] + ["internal"]
            tree = [{"path": "d/" + t, "data": "content\n"} for t in targets[:-1]]
            tree += [{"path": "d/internal", "kind": "dir"}, {"path": "d/internal/x.txt", "data": "x\n"},
                     {"path": "d/keep.txt", "data": "kept\n"}]
            first, second = [], []
            for i, t in enumerate(targets):
                p = t + slash
                first.append(hides[i % 2] % p)
                second.append(others[i % len(others)] % p)
            if layout == "same-file":
                files = {".names": first + second}
            elif layout == "two-files":
                files = {".Links": first, ".names": second}
            else:
                files = {".Links": first[::2], ".mid": first[1::2] + second[:2], ".names": second[2:]}
            for k, blocks in files.items():
                tree.append({"path": "d/" + k, "data": "\n".join(blocks)})
            out.append((tree, targets + ["keep.txt"] + sorted(files), set(targets)))
    return out


def history_scenarios():
    """Same-second metadata edits: (label, tree before, [edit steps], [names hidden by metadata after each step]).
    All in the directory /d; every step is applied without the clock advancing."""
    def f(p, d="x\n"):
        return {"path": "d/" + p, "data": d}
    base = [f("f1.txt"), f("f2.txt"), f("f3.txt"), f("f4.txt"), {"path": "d/sub", "kind": "dir"}, f("sub/in.txt")]
    W = lambda p, d: {"op": "write", "path": "d/" + p, "data": d}      # noqa: E731
    R = lambda p: {"op": "remove", "path": "d/" + p}                    # noqa: E731
    out = []
    out.append(("cap-add-then-remove", base + [f(".cap/f2.txt", "Name=Two\n")],
                [[W(".cap/f1.txt", "Type=X\n")], [R(".cap/f1.txt")], [W(".cap/sub", "Type=-\n")]],
                [{"f1.txt"}, set(), {"sub"}]))
    out.append(("cap-directory-appears", base, [[W(".cap/f2.txt", "Type=-\n")], [W(".cap/f3.txt", "Type=X\n")]],
                [{"f2.txt"}, {"f2.txt", "f3.txt"}]))
    out.append(("cap-file-changes", base + [f(".cap/f1.txt", "Name=Old title\n")],
                [[W(".cap/f1.txt", "Type=X\n")], [W(".cap/f1.txt", "Name=New title\nNumb=1\n")]], [{"f1.txt"}, set()]))
    out.append(("cap-directory-removed", base + [f(".cap/f1.txt", "Type=X\n")], [[R(".cap")]], [set()]))
    out.append(("link-file-appears-changes-goes", base,
                [[W(".names", "Type=X\nPath=./f3.txt\n")], [W(".names", "Path=./f3.txt\nName=Three\n")], [R(".names")]],
                [{"f3.txt"}, set(), set()]))
    out.append(("second-link-file", base + [f(".Links", "Type=-\nPath=./f3.txt\n")],
                [[W(".names", "Type=X\nPath=./f4.txt\n\nPath=./f3.txt\nName=Still hidden\n")]], [{"f3.txt", "f4.txt"}]))
    out.append(("child-renamed", base + [f(".cap/f4.txt", "Type=X\n")],
                [[{"op": "rename", "path": "d/f4.txt", "to": "d/g4.txt"}], [{"op": "rename", "path": "d/g4.txt", "to": "d/f4.txt"}]],
                [set(), {"f4.txt"}]))
    out.append(("children-come-and-go", base, [[W("f5.txt", "new\n"), R("f1.txt")], [W("x~", "backup\n"), W(".hidden", "dot\n")]],
                [set(), set()]))
    out.append(("sidecar-abstract", base, [[W("f1.txt.abstract", "About one\n")], [W("f1.txt.abstract", "Changed\nabstract\n")],
                                           [R("f1.txt.abstract")]], [set(), set(), set()]))
    return out


def apply_edits(tree, edits):
    """the tree spec after an edit step (for a fresh process)"""
    t = [dict(e) for e in tree]
    for e in edits:
        if e["op"] == "write":
            t = [x for x in t if x["path"] != e["path"]] + [{"path": e["path"], "data": e.get("data", "")}]
        elif e["op"] == "remove":
            t = [x for x in t if x["path"] != e["path"] and not x["path"].startswith(e["path"] + "/")]
        elif e["op"] == "rename":
            t = [dict(x, path=e["to"] + x["path"][len(e["path"]):]) if (x["path"] == e["path"] or x["path"].startswith(e["path"] + "/"))
                 else x for x in t]
    return t


def byte_names_trees():
    """Link-file blocks (hide, title, number) that address files whose NAMES are not valid UTF-8 or not ASCII: a link
    file names a file byte for byte."""
    out = []
    for targets in (["\udcae.txt", "caf\udce9", "r\udce9sum\udce9.txt"], ["na\u00efve.txt", "\u00fcber", "\udcff\udcfe"]):
        tree = [{"path": tp("d/" + t), "data": "content\n"} for t in targets] + [{"path": "d/plain.txt", "data": "p\n"}]
        tree.append({"path": "d/.names", "data": td("Type=X\nPath=./%s\n\nPath=./%s\nName=Titled %s\nNumb=1\n\nNumb=2\nPath=./%s\n"
                                                    % (targets[0], targets[1], targets[1], targets[2]))})
        out.append((tree, targets + ["plain.txt", ".names"], {targets[0]}))
    return out


def faulty_mixed_trees():
    """Exactness with faults present: unservable entries (dangling link, FIFO, a name the selector filter rejects)
    sorting before, between and after visible entries, link blocks and a .cap file on the visible ones."""
    out = []
    for variant in range(3):
        good = ["b.txt", "m.txt", "t.txt", "zdir"]
        tree = [{"path": "d/" + g, "data": "good\n"} for g in good[:-1]] + [{"path": "d/zdir", "kind": "dir"}]
        bad = [("!first", "symlink"), ("c..c", "file"), ("n-fifo", "fifo"), ("zz-last", "symlink")]
        bad = bad[variant:] + bad[:variant]
        names = list(good)
        for n, kind in bad[:3]:
            if kind == "symlink":
                tree.append({"path": "d/" + n, "kind": "symlink", "target": "nowhere-at-all"})
            elif kind == "fifo":
                tree.append({"path": "d/" + n, "kind": "fifo"})
            else:
                tree.append({"path": "d/" + n, "data": "rejected name\n"})
            names.append(n)
        tree.append({"path": "d/.names", "data": "Path=./t.txt\nName=Tee\n\nType=X\nPath=./m.txt\n"})
        tree.append({"path": "d/.cap/b.txt", "data": "Numb=1\n"})
        out.append((tree, names + [".names", ".cap"], {"m.txt"}))
    return out


def matching_dirs(patt):
    """Directory selectors whose OWN path is matched by an unanchored alternative of the pattern
    (derived from the pattern, whatever it is): everything below them is ignored."""
    out = []
    for atoms, anchored in umnlib.gen_umn.compile_ignore(patt):
        if anchored or not atoms:
            continue
        text = "".join("x" if a is None else chr(a) for a in atoms)
        if "\n" in text or "\x00" in text:
            continue
        body = text.strip("/")
        if not body or ".." in text or "//" in text or "./" in text:
            continue
        if text.startswith("/"):
            d = "/" + body + ("" if text.endswith("/") else "zz")
        else:
            d = "/forms" + body + ("" if text.endswith("/") else "zz")
        out.append(d)
        out.append(d + "/below")
    return out


def plain_tree(rng, base):
    pre = base.strip("/") + "/"
    names = rng.sample(["a.txt", "b.txt", "c.html", "sub", "Zebra", "x~y", ".Links"], rng.randrange(2, 5))
    tree = []
    for n in names:
        if n == "sub":
            tree.append({"path": pre + n, "kind": "dir"})
        elif n == ".Links":
            tree.append({"path": pre + n, "data": link_block(rng, 7)})
        else:
            tree.append({"path": pre + n, "data": "content of %s\n" % n})
    return tree, names, set()


OTHER_PATTERNS = ["~$|/\\.|/gophermap$",              # the Bucktooth sample of conf/pygopherd.conf
                  "/staging/|\\.bak$|/CVS$|~$"]       # a path-scoped alternative


def names_for_pattern(patt):
    """For EVERY alternative of a pattern (derived from the pattern, not written by hand): a file name the
    alternative matches, and near misses of it (one character appended / prepended / dropped)."""
    match, miss = [], []
    for atoms, anchored in umnlib.gen_umn.compile_ignore(patt):
        text = "".join("x" if a is None else chr(a) for a in atoms)
        if not text or "\n" in text or "\x00" in text:
            continue
        body = text[1:] if text.startswith("/") else "a" + text
        if not body or "/" in body or body in (".", ".."):
            continue
        match.append(body)
        if not anchored:
            match.append(body + "tail")
        near = [body + "2" if anchored else None, ("x" + body) if text.startswith("/") else None,
                body[:-1] if len(body) > 1 else None]
        miss += [m for m in near if m and m not in (".", "..")]
    return sorted(set(match)), sorted(set(miss))


def full_tree(base, patt=None):
    """every matching and every near-miss name at once (both sides of every alternative), the hand-written
    ones and the ones derived from the documented pattern"""
    pre = base.strip("/")
    pre = pre + "/" if pre else ""
    dm, dmiss = names_for_pattern(patt or REFERENCE_PATTERN)
    names = sorted(set(MATCHING + MISSES + dm + dmiss + ["a.txt", "sub", ".hidden"]))
    tree = []
    for n in names:
        if n in DIRLIKE:
            tree.append({"path": tp(pre + n), "kind": "dir"})
        else:
            tree.append({"path": tp(pre + n), "data": "content of %s\n" % tp(n)})
    return tree, names, set()


# ---------------------------------------------------------------------------------------------------------------
# Names matched by the ignore pattern take NO part in a listing: they are not listed and — conf/pygopherd.conf,
# [handlers.dir.DirHandler] ignorepatt: "If you exclude these files explicitly in ignorepatt, then not only will they
# not show up, but the handler will also not scan them for links and the like" — nothing in them is read either.
# The trees below hold, next to visible files and live link files, names the configured pattern matches (dot-files
# such as the editor backup of a link file, a mail .forward, .cache*; plain names such as gophermap, x~, lib/) whose
# CONTENT is link-file syntax that would change the listing if it were read: hide blocks, stale titles, numbers,
# abstracts, stand-alone links.  The oracle is metamorphic and knows nothing of the model: the listing (every field
# of every entry, in order) must be the same with those names as they are, with their content emptied, and without
# them.
IGN_DOT = [".names~", ".Links~", ".x~", ".forward", ".message", ".cache", ".cachefoo", ".hushlogin", ".kermrc",
           ".notar", ".where", ".abstract", ".old.abstract", ".q.ask", ".q.askme", ".m.3d", ".k.keyboards",
           ".names.bak", ".names", ".Links", ".x"]
IGN_PLAIN = ["names~", "Links~", "notes.txt~", "gophermap", "robots.txt", "nohup.out", "veronica.ctl", "old.abstract",
             "q.ask", "m.3d", "k.keyboards", "links.bak", "lib", "etc", "CVS", "lost+found"]
IGN_DIRLIKE = {"lib", "etc", "CVS", "lost+found", "bin", "dev"}


def stale_blocks(rng, targets, k, serial):
    """k link-file blocks, each of which changes the listing of the directory when it is read"""
    out = []
    for j in range(k):
        t = rng.choice(targets)
        what = rng.choice(["hideX", "hide-", "title", "numb", "abstract", "link", "link", "rellink"])
        if what == "hideX":
            b = "Type=X\nPath=./%s%s\n" % (t, rng.choice(["", "/"]))
        elif what == "hide-":
            b = "Path=./%s\nType=-\n" % t
        elif what == "title":
            b = "Path=./%s\nName=%s\n" % (t, rng.choice(["Old title of %s (%d)" % (t, serial), "AAA stale %d" % serial,
                                                           "zzz stale %d" % serial]))
        elif what == "numb":
            b = "Numb=%d\nPath=./%s\n" % (rng.choice([-3, 1, 2, 7]), t)
        elif what == "abstract":
            b = "Path=./%s\nAbstract=stale abstract %d\n" % (t, serial)
        elif what == "link":
            b = "Name=Old mirror %d.%d\nType=%s\nPath=/pub/%d\nHost=%s\nPort=%s\n%s" % (
                serial, j, rng.choice("01h7"), serial, rng.choice(["gone.example.org", "+"]), rng.choice(["70", "+", "7070"]),
                rng.choice(["", "Numb=%d\n" % rng.choice([-1, 1, 5])]))
        else:
            b = "Name=Relative %d.%d\nType=0\nPath=elsewhere/%d.txt\n" % (serial, j, serial)
        out.append(b)
    return out


def top_name(path, pre):
    """first component below the listed directory of a tree-spec path (None when the path is not below it)"""
    if pre and not path.startswith(pre):
        return None
    return path[len(pre):].split("/", 1)[0]


def ignored_parts_tree(rng, base, patt):
    """-> (tree, names in the directory, names of the directory the pattern matches)"""
    pre = base.strip("/")
    pre = pre + "/" if pre else ""
    base_sel = "" if base == "/" else base
    dm, _ = names_for_pattern(patt)
    # (a file called <x>.gophermap is a menu source for the Bucktooth handler: served rendered, not as it is)
    derived = [m for m in dm if "\n" not in m and m == m.strip() and not ("." + m).endswith(".gophermap")]
    matched = lambda n: bool(re.search(patt, base_sel + "/" + n))     # noqa: E731
    dot_c = sorted({n for n in IGN_DOT + [m if m.startswith(".") else "." + m for m in derived] if matched(n)})
    plain_c = sorted({n for n in IGN_PLAIN + [m for m in derived if not m.startswith(".")] if matched(n)})
    visible = rng.sample(["a.txt", "b.txt", "c.html", "Zebra", "apple", "sub", "10", "9"], rng.randrange(2, 5))
    live = rng.sample([".names", ".Links", ".zz"], rng.randrange(0, 3))
    ign = rng.sample(dot_c, min(len(dot_c), rng.randrange(1, 4))) + rng.sample(plain_c, min(len(plain_c), rng.randrange(0, 3)))
    names = []
    for n in visible + live + ign:
        if n not in names:
            names.append(n)
    rng.shuffle(names)
    tree = [{"path": pre.rstrip("/"), "kind": "dir"}] if pre else []
    serial = 0
    for n in names:
        serial += 1
        if n == "sub" or n in IGN_DIRLIKE:
            tree.append({"path": tp(pre + n), "kind": "dir"})
            tree.append({"path": tp(pre + n + "/inner.txt"), "data": "inner\n"})
            if n in IGN_DIRLIKE:
                tree.append({"path": tp(pre + n + "/.names"), "data": td("\n".join(stale_blocks(rng, visible, 2, serial)))})
        elif n in visible:
            tree.append({"path": tp(pre + n), "data": "content of %s\n" % n})
        elif n in live:
            blocks = []
            for t in rng.sample(visible, rng.randrange(0, min(3, len(visible)) + 1)):
                blocks.append(rng.choice(["Path=./%s\nName=Current title of %s\n" % (t, t), "Numb=%d\nPath=./%s\n" % (rng.choice([1, 2, -1]), t),
                                          "Type=X\nPath=./%s\n" % t]))
            if rng.random() < 0.5:
                blocks.append(link_block(rng, serial))
            tree.append({"path": tp(pre + n), "data": td("\n".join(blocks))})
        else:
            blocks = stale_blocks(rng, visible, rng.randrange(1, 4), serial)
            text = "\n".join(blocks)
            if rng.random() < 0.25:
                text = "admin@example.org\n\n" + text          # a first paragraph that is no block at all
            tree.append({"path": tp(pre + n), "data": td(text)})
    if rng.random() < 0.3:
        tree.append({"path": tp(pre + ".cap/" + visible[0]), "data": "Name=Capped %s\nNumb=%d\n" % (visible[0], rng.choice([1, 2, -1]))})
        names.append(".cap")
    # `.cap` is the one matched name that takes part by design: .cap/<name> is read for the listed <name>
    ignored = [n for n in names if matched(n) and n != ".cap"]
    return tree, names, ignored


def ignored_variants(tree, base, ignored):
    """the same directory with the content of the ignored names emptied, and without them"""
    pre = base.strip("/")
    pre = pre + "/" if pre else ""
    ign = {tp(n) for n in ignored}
    emptied, removed = [], []
    for e in tree:
        top = top_name(e["path"], pre) if e["path"] != pre.rstrip("/") else None
        if top not in ign:
            emptied.append(e)
            removed.append(e)
        elif e["path"] == pre + top:
            emptied.append(dict(e, data="") if e.get("kind", "file") == "file" else e)
    return emptied, removed


# ---------------------------------------------------------------------------------------------------------------
# Names made of characters that are special to SOME layer of the server (virtual-selector separators, URL / HTTP
# syntax, shell and glob syntax, regex syntax of the ignore pattern, control characters, reserved words of handlers
# and protocols).  To the file system they are ordinary names: a visible regular file or directory with such a name
# is listed exactly once by both handlers in every enumeration order and is retrievable by its exact selector.
# (Names the request filter refuses by design -- '..', './', '//', backslash pairs, NUL -- are not in this pool.)
SPECIAL_GROUPS = {
    "virtual": ["Who am I?.txt", "FAQ - what is gopher?/", "cut|paste.txt", "a|b/", "?", "|", "q?x=1&y=2", "x?.html",
                "mail|2", "?/", "a?|b"],
    "url": ["#hash", "a#b.txt", "100%.txt", "%41.txt", "%2e%2e", "a&b", "a;b", "k=v", "a+b.txt", "c:d", "C:/", "@at",
            "a,b", "x%/"],
    "shell": ["star*.txt", "[x]", "{y}", "~tilde", "$HOME", "!bang", "it's", 'say "hi"', "-rf", "--help/", "a\\b",
              "`cmd`", "(paren)", "<lt>", "^caret", "a$", "x^|y$"],
    "edges": ["trail.", "trail ", " lead", "\x01ctl", "\x7fdel", "\x1b[0m", "dot./", "-"],
    "reserved": ["MBOX-MESSAGE", "URL:x", "GEMINI-QUERY", "PYGOPHERD-HTTPPROTO-ICONS/", "wap", "MBOX-MESSAGE/", "HTTP",
                 "GET", "1", "0/", "index.wml", "wap/"],
}


def special_names_tree(rng, base, pool, k):
    """k names of the pool (a trailing / marks a directory) between two plain names -> (tree, names, hidden, extra)"""
    pre = base.strip("/")
    pre = pre + "/" if pre else ""
    picked, seen = [], set()
    for n in rng.sample(pool, len(pool)):
        if n.rstrip("/") not in seen and len(picked) < k:
            seen.add(n.rstrip("/"))
            picked.append(n)
    tree = [{"path": tp(pre.rstrip("/")), "kind": "dir"}] if pre else []
    names, extra = [], []
    for n in picked + ["a.txt", "m"]:
        if n.rstrip("/") in names:
            continue
        if n.endswith("/"):
            n = n[:-1]
            tree.append({"path": tp(pre + n), "kind": "dir"})
            tree.append({"path": tp(pre + n + "/inner.txt"), "data": "inside %s\n" % tp(n)})
            extra.append(n + "/inner.txt")
        else:
            tree.append({"path": tp(pre + n), "data": "content of %s\n" % tp(n)})
        names.append(n)
    return tree, names, set(), extra


def special_names_trees(rng, thorough):
    out = []
    everything = [n for g in SPECIAL_GROUPS.values() for n in g]
    for gi, (label, pool) in enumerate(sorted(SPECIAL_GROUPS.items())):
        for rep in range(2 if thorough else 1):
            base = ["/d", "/", "/sub dir"][(gi + rep) % 3]
            t, names, hidden, extra = special_names_tree(rng, base, pool, 3)
            out.append({"tree": t, "dir": base, "names": names, "hidden": hidden, "perms": "all", "fetch_extra": extra})
    # every special name at once, directly below the root and below a directory
    for base in ("/", "/all"):
        t, names, hidden, extra = special_names_tree(rng, base, everything, len(everything))
        out.append({"tree": t, "dir": base, "names": names, "hidden": hidden, "perms": None, "nrand": 4, "fetch_extra": extra})
    # the LISTED directory carries such a name itself (every child selector then contains the character)
    more = {"virtual": ["what?", "pipe|d"], "url": ["100% #1"], "shell": ["it's [here]"], "edges": ["\x01"], "reserved": []}
    for label, pool in sorted(SPECIAL_GROUPS.items()):
        # (below a directory whose name ends in a dot every selector contains "./", which the request filter refuses
        # by design -- same policy as for the other climbers; such a directory is only used as an ENTRY above)
        dirs = [n[:-1] for n in pool if n.endswith("/") and not n.endswith("./")] + more[label]
        for d in (dirs if thorough else rng.sample(dirs, 1)):       # quick: one listed directory per layer
            t, names, hidden, extra = special_names_tree(rng, "/" + d, everything, 2)
            out.append({"tree": t, "dir": "/" + d, "names": names, "hidden": hidden, "perms": "all", "fetch_extra": extra})
    return out


def d11_tree():
    return [{"path": "d/a.txt", "data": "x\n"}, {"path": "d/b.txt", "data": "y\n"},
            {"path": "d/.one", "data": "Path=./a.txt\nName=First\n"},
            {"path": "d/.two", "data": "Path=./a.txt\nName=Second\n"}], ["a.txt", "b.txt", ".one", ".two"], set()


def tie_tree():
    # two link files adding entries that tie on (number, title): the stable sort keeps the order of processing
    blk = "Name=Same\nType=1\nPath=/elsewhere/%s\nHost=+\nPort=+\n"
    return [{"path": "d/m.txt", "data": "x\n"}, {"path": "d/.p", "data": blk % "p"},
            {"path": "d/.q", "data": blk % "q"}], ["m.txt", ".p", ".q"], set()


def tie_names_tree(rng, base):
    """names (and link-file names, and titles) that only a code-point comparison tells apart"""
    pre = base.strip("/")
    pre = pre + "/" if pre else ""
    g = rng.choice(TIE_GROUPS)
    files = rng.sample(g, min(len(g), rng.randrange(2, 4)))
    tree = [{"path": tp(pre + n), "data": "content of %s\n" % tp(n)} for n in files]
    links = rng.choice([[".1", ".01"], [".Links", ".LINKS"], [".n7", ".n07"], []])
    tgt = files[0]
    for i, l in enumerate(links):
        # both link files give the same file a title (the later file name wins) and add a link with tying titles
        tree.append({"path": tp(pre + l), "data": td("Path=./%s\nName=Title %d\n\nName=Page %s\nType=1\nPath=/elsewhere/%d\nHost=+\nPort=+\n"
                                                      % (tgt, i, ["7", "07"][i], i))})
    return tree, files + links, set()


def entry_pool(rng):
    nums = [-2, -1, 0, 1, 2, 10]
    names = ["a", "b", "B", "ab", "", "é", "z\udcae", None, "1", "01", "x2", "x10", "x02"]
    pool = [(n, k) for n in names for k in nums]
    rng.shuffle(pool)
    return pool


def expected_names(kind, patt, base, world, hidden):
    """Independent statement of which directory entries a listing must contain."""
    out = []
    for c in world["children"]:
        n = c["name"]
        sel = base + "/" + n
        if re.search(patt, sel):
            continue
        if kind == "umn" and n.startswith("."):
            continue
        if kind == "umn" and n in hidden:
            continue
        if c["kind"] not in ("file", "dir") or any(x in sel for x in umnlib.CLIMBERS):
            continue
        out.append(n)
    return sorted(out)


def run(tier):
    chk = Check("C07", tier)
    chk.proofs(extra_files=["Corr/K07.v"])
    cov = chk.coverage
    rng = chk.rng
    found = False
    thorough = tier == "thorough"

    # ---------------- which variant of the code is under test ----------------
    pres = impl_run(umnlib.probe_jobs())
    umnlib.check_ok(pres)
    fx = umnlib.probe_fixes(pres)
    ZI = "From Coq Require Import ZArith."
    pre = ZI + "\nDefinition the_fx := %s." % umnlib.cq_fixes(fx)
    chk.notes["code_variant"] = fx

    # ---------------- K: entrycmp, list.sort, re.search ----------------
    pool = entry_pool(rng)
    arrangements = []
    for _ in range(60 if thorough else 25):
        k = rng.randrange(2, 14)
        arrangements.append([rng.randrange(len(pool)) for _ in range(k)])
    name_pool = PLAIN + MISSES[:8] + ["A", "a", "B", "b", "é", "é", "\U0001f600", "\udc80", "\udcff", ""]
    name_arr = [rng.sample(name_pool, rng.randrange(2, 12)) for _ in range(40)]
    alt_patterns = [None, "~$|/\\.|/gophermap$", "a.c|b$|", "/x\\$y|\\|z", "$", ".", "\\.\\.txt$|end"]
    search_strings = []
    for b in ["", "/d", "/.cachedir", "/a b"]:
        for n in MATCHING + MISSES + PLAIN + DOTS:
            search_strings.append(b + "/" + n)
    search_strings += ["", "\n", "~\n", "a\nb~", "/x$y", "|z", "a\nc", "abc", "..txt", "x.txt\n", "end\n\n"]
    res = impl_run([
        {"op": "c07_entrycmp", "pool": [list(p) for p in pool], "arrangements": arrangements,
         "name_arrangements": name_arr},
        {"op": "c07_search", "groups": [[p, search_strings] for p in alt_patterns]},
    ])
    umnlib.check_ok(res)
    cmp_res, search_res = res[0]["res"], res[1]["res"]
    shipped = search_res["shipped"]

    def pe(p):
        return "(%s, %s)" % (coq_opt(p[0], coq_str), cq_z(p[1]))
    ecases = []
    raised = []
    for i, a in enumerate(pool):
        for j, b in enumerate(pool):
            r = cmp_res["pairs"][i][j]
            if isinstance(r, str):
                raised.append((a, b, r))
                continue
            ecases.append("(%s, %s, %s)" % (pe(a), pe(b), cq_z(r)))
            chk.count(("entrycmp", a, b), nontrivial=a[0] is not None and b[0] is not None)
    mism_e, err_e, _ = coq_eval("C07", "k_entrycmp", "Lib.Str Corr.K07", "chk_entrycmp", ecases, shard=1200, pre=ZI)
    scase = "(%s, %s)" % (coq_list(pe(p) for p in pool),
                          coq_list("(%s, %s)" % (cq_natlist(a), "[" + ";".join(str(x) for x in s) + "]")
                                   for a, s in zip(arrangements, cmp_res["sorts"])))
    mism_s, err_s, _ = coq_eval("C07", "k_sort", "Lib.Str Corr.K07", "chk_sort", [scase], pre=ZI)
    ncases = ["(%s, %s)" % (coq_list(coq_str(x) for x in a), coq_list(coq_str(x) for x in s))
              for a, s in zip(name_arr, cmp_res["namesorts"])]
    mism_n, err_n, _ = coq_eval("C07", "k_namesort", "Lib.Str Corr.K07", "chk_namesort", ncases)
    gcases = []
    for p, rs in zip(alt_patterns, search_res["results"]):
        patt = shipped if p is None else p
        pairs_ = [(s_, r_) for s_, r_ in zip(search_strings, rs) if r_ is not None]
        if not pairs_:
            continue
        gcases.append("(%s, %s)" % (cq_alts(patt), coq_list("(%s, %s)" % (coq_str(s_), coq_bool(r_))
                                                              for s_, r_ in pairs_)))
        for s, r in zip(search_strings, rs):
            chk.count(("search", patt, s), nontrivial=r)
    chk.notes["prep_initfiles_canaddfile_called_with"] = search_res.get("how")
    if gcases:
        mism_g, err_g, _ = coq_eval("C07", "k_search", "Lib.Str Lib.Regex Corr.K07", "chk_search", gcases)
    else:
        mism_g, err_g = [], None
    mism_h, err_h, _ = coq_eval("C07", "k_shipped", "Lib.Str Lib.Regex Corr.K07", "chk_shipped", [cq_alts(shipped)])
    for a, s in zip(arrangements, cmp_res["sorts"]):
        chk.count(("sort", tuple(a)))
    # oracle for the order, independent of the model: documented key order on the real sort results
    def dockey(p):
        name, num = p
        if name is None:
            return (3, 0, "")
        return (0 if num > 0 else 1 if num == 0 else 2, num, name)
    for a, s in zip(arrangements, cmp_res["sorts"]):
        keys = [dockey(pool[i]) for i in s]
        if keys != sorted(keys) or sorted(s) != sorted(a):
            found = True
            chk.violation({"what": "list.sort with entrycmp does not produce the documented order (numbered ascending, "
                                   "unnumbered by title, negative)", "pool": pool, "arrangement": a, "sorted": s},
                          tag="c07-entrycmp-order")
    if raised:
        found = True
        chk.violation({"what": "entrycmp raised on a pair of entries", "pairs": raised[:5]}, tag="c07-entrycmp-raises")

    # ---------------- K + oracle: listings under permuted enumeration ----------------
    trees = []
    sizes_all = [3, 4, 4, 5, 5, 5, 6] if not thorough else [3, 4, 4, 5, 5, 5, 5, 5, 6, 6, 6, 6]
    for k, sz in enumerate(sizes_all):
        base = ["/", "/d", "/sub dir"][k % 3]
        t, names, hidden = gen_tree(rng, sz, base)
        trees.append({"tree": t, "dir": base, "names": names, "hidden": hidden, "perms": "all"})
    t, names, hidden = d11_tree()
    trees.append({"tree": t, "dir": "/d", "names": names, "hidden": hidden, "perms": "all"})
    t, names, hidden = tie_tree()
    trees.append({"tree": t, "dir": "/d", "names": names, "hidden": hidden, "perms": "all"})
    for k in range(8 if thorough else 3):
        sz = rng.randrange(9, 15)
        base = ["/big", "/"][k % 2]
        t, names, hidden = gen_tree(rng, sz, base)
        trees.append({"tree": t, "dir": base, "names": names, "hidden": hidden, "perms": None, "nrand": 200})
    for base in ("/all", "/"):
        t, names, hidden = full_tree(base)
        trees.append({"tree": t, "dir": base, "names": names, "hidden": hidden, "perms": None, "nrand": 3})
    if search_res.get("local") is not None:
        # the other shipped configuration file, its pattern exactly as ConfigParser reads it
        t, names, hidden = full_tree("/all")
        trees.append({"tree": t, "dir": "/all", "names": names, "hidden": hidden, "perms": None, "nrand": 1,
                      "cfgpatt": search_res["local"], "conf": "conf/local.conf"})
    for k in range(10 if thorough else 5):
        base = ["/d", "/"][k % 2]
        t, names, hidden = tie_names_tree(rng, base)
        trees.append({"tree": t, "dir": base, "names": names, "hidden": hidden, "perms": "all"})
    # several blocks for the same path, one of them hiding it
    for k in range(16 if thorough else 8):
        base = ["/d", "/", "/deep/er"][k % 3]
        t, names, hidden = hide_sequence_tree(rng, base)
        trees.append({"tree": t, "dir": base, "names": names, "hidden": hidden, "perms": "all" if len(names) <= 5 else None,
                      "nrand": 40})
    for t, names, hidden in hide_first_trees():
        trees.append({"tree": t, "dir": "/d", "names": names, "hidden": hidden, "perms": None, "nrand": 6})
    for t, names, hidden in byte_names_trees():
        trees.append({"tree": t, "dir": "/d", "names": names, "hidden": hidden, "perms": "all"})
    for t, names, hidden in faulty_mixed_trees():
        trees.append({"tree": t, "dir": "/d", "names": names, "hidden": hidden, "perms": None, "nrand": 10, "faulty": True})
    trees.extend(special_names_trees(rng, thorough))
    # directories whose own path is matched by an unanchored alternative; other configured patterns
    for patt in [None] + OTHER_PATTERNS:
        live = patt or shipped
        dirs = matching_dirs(live)
        for d in (dirs if thorough else dirs[:6]):
            t, names, hidden = plain_tree(rng, d)
            trees.append({"tree": t, "dir": d, "names": names, "hidden": hidden, "perms": "all", "patt": patt})
        if patt:
            for k in range(3 if thorough else 2):
                base = ["/d", "/"][k % 2]
                t, names, hidden = gen_tree(rng, 5, base, patt)
                trees.append({"tree": t, "dir": base, "names": names, "hidden": hidden, "perms": "all", "patt": patt})
    jobs = []
    for tr in trees:
        # the number of names actually in the directory (the tree may add .cap etc.)
        perms = tr["perms"]
        if perms is None:
            n = len(tr["names"])
            perms = []
            for _ in range(tr["nrand"]):
                p = list(range(n))
                rng.shuffle(p)
                perms.append(p)
            perms.append(list(range(n)))
            perms.append(list(reversed(range(n))))
        fetch = [n for n in tr["names"] if n not in DIRLIKE] + tr.get("fetch_extra", [])
        cfg = CONFIG
        if tr.get("patt") or tr.get("cfgpatt"):
            cfg = {"handlers.dir.DirHandler": {"cachetime": "0", "ignorepatt": tr.get("patt") or tr["cfgpatt"]}}
        jobs.append({"op": "c07_listing", "tree": tr["tree"], "dir": tr["dir"], "kinds": ["dir", "umn"],
                     "perms": perms, "config": cfg, "fetch": fetch})
    lres = impl_run_parallel(jobs, chunks=min(len(jobs), 12))
    umnlib.check_ok(lres)
    lcases = []
    lmeta = []
    nperm = 0
    for tr, job, r in zip(trees, jobs, lres):
        base = "" if tr["dir"] == "/" else tr["dir"]
        for kind in ("dir", "umn"):
            run_ = r["res"]["runs"][kind]
            world = run_["world"]
            got_names = sorted(c["name"] for c in world["children"])
            if got_names != sorted(tr["names"]):
                raise RuntimeError("tree generator and listdir disagree: %r vs %r" % (got_names, sorted(tr["names"])))
            lcases.append(umnlib.listing_case(run_, kind))
            lmeta.append((tr, kind))
            # configured on purpose (tr["patt"]): judged by what is configured; shipped configuration: by what is documented
            exp = expected_names(kind, tr["patt"] if tr.get("patt") else REFERENCE_PATTERN, base, world, tr["hidden"])
            exp_live = expected_names(kind, run_["ignorepatt"], base, world, tr["hidden"])
            dirsels = {base + "/" + c["name"]: c["name"] for c in world["children"]}
            for g in run_["groups"]:
                nperm += len(g["perms"])
                chk.count((json.dumps(tr["tree"], sort_keys=True), kind, json.dumps(g["perms"][:50])), n=len(g["perms"]))
                res_ = g["result"]
                if "exc" in res_:
                    found = True
                    chk.violation({"what": "listing of a directory with only servable entries failed", "handler": kind,
                                   "exception": res_["exc"], "tree": tr["tree"], "dir": tr["dir"],
                                   "enumeration": [world["children"][i]["name"] for i in g["perms"][0]]},
                                  tag="c07-listing-raises")
                    continue
                got = sorted(dirsels[e["selector"]] for e in res_["entries"] if e["selector"] in dirsels)
                markers = [e["selector"] for e in res_["entries"] if e["type"] in ("X", "-")]
                if kind == "umn" and markers:
                    found = True
                    chk.violation({"what": "a hide block (Type=X / Type=-) is itself listed as an entry", "handler": kind,
                                   "selectors": markers, "tree": tr["tree"], "dir": tr["dir"],
                                   "enumeration": [world["children"][i]["name"] for i in g["perms"][0]]},
                                  tag="c07-hide-marker-listed")
                pre_c = tr["dir"].strip("/")
                pre_c = pre_c + "/.cap/" if pre_c else ".cap/"
                cap_hidden = {t["path"][len(tp(pre_c)):] for t in tr["tree"]
                              if t["path"].startswith(tp(pre_c)) and t.get("data", "").startswith(("Type=X", "Type=-"))}
                extra = [n for n in got if n not in exp]
                if got != exp and kind == "umn" and extra and all(tp(n) in cap_hidden for n in extra) \
                        and sorted(n for n in got if n in exp) == exp:
                    found = True
                    chk.violation({"what": "an entry hidden by its .cap file (Type=X / Type=-) is listed all the same, through a "
                                           "./ block of a link file", "handler": kind, "relisted": extra,
                                   "expected_directory_entries": exp, "listed_directory_entries": got,
                                   "tree": tr["tree"], "dir": tr["dir"],
                                   "enumeration": [world["children"][i]["name"] for i in g["perms"][0]]},
                                  tag="c07-cap-hidden-relisted")
                elif got != exp and got == exp_live:
                    found = True
                    chk.violation({"what": "the shipped configuration no longer hides what its ignore pattern is documented to "
                                           "hide: the listing follows the pattern as ConfigParser reads it from the conf file, "
                                           "and that is not the documented pattern", "handler": kind,
                                   "conf_file": tr.get("conf", "conf/pygopherd.conf"),
                                   "ignorepatt_as_read": run_["ignorepatt"], "documented": REFERENCE_PATTERN,
                                   "should_be_hidden_but_listed": [n for n in got if n not in exp],
                                   "should_be_listed_but_hidden": [n for n in exp if n not in got],
                                   "tree": tr["tree"], "dir": tr["dir"]}, tag="c07-shipped-ignorepatt:" + kind)
                elif got != exp:
                    found = True
                    chk.violation({"what": "listing is not exactly the visible entries, once each", "handler": kind,
                                   "expected_directory_entries": exp, "listed_directory_entries": got,
                                   "tree": tr["tree"], "dir": tr["dir"], "ignorepatt": run_["ignorepatt"],
                                   "enumeration": [world["children"][i]["name"] for i in g["perms"][0]]},
                                  tag="c07-not-exact:" + kind)
            if len(run_["groups"]) > 1:
                found = True
                g0, g1 = run_["groups"][0], run_["groups"][1]
                chk.violation({"what": "the listing depends on the order in which the OS enumerates the directory",
                               "handler": kind, "tree": tr["tree"], "dir": tr["dir"],
                               "enumeration_a": [world["children"][i]["name"] for i in g0["perms"][0]],
                               "enumeration_b": [world["children"][i]["name"] for i in g1["perms"][0]],
                               "listing_a": [(e["name"], e["selector"]) for e in g0["result"].get("entries", [])],
                               "listing_b": [(e["name"], e["selector"]) for e in g1["result"].get("entries", [])],
                               "distinct_results": len(run_["groups"])},
                              tag="c07-enum-order:" + kind)
        # entries kept out of listings remain retrievable by exact selector
        datas = {e["path"]: e.get("data", "") for e in tr["tree"] if e.get("kind", "file") == "file"}
        pre_ = tr["dir"].strip("/")
        pre_ = pre_ + "/" if pre_ else ""
        for n, fr in r["res"]["fetch"].items():
            want = datas.get(tp(pre_ + n))
            if want is None:
                continue
            chk.count(("fetch", tp(pre_ + n)))
            if n.startswith("URL:") or "\n" in n or n != n.strip() or "\t" in n or any(x in n for x in umnlib.CLIMBERS):
                continue   # not addressable in the plain Gopher request syntax
            if fr["out"] != want or fr["exc"]:
                found = True
                chk.violation({"what": "a directory entry (listed or kept out of the listing) is not retrievable by exact selector",
                               "selector": (("" if tr["dir"] == "/" else tr["dir"]) + "/" + n), "tree": tr["tree"],
                               "response_latin1": fr["out"][:300], "exception": fr["exc"]}, tag="c07-not-retrievable")
    # ---------------- histories: metadata edited within the same second, one process ----------------
    hs = history_scenarios()
    hjobs = [{"op": "c07_history", "tree": t, "dir": "/d", "kinds": ["umn", "dir"], "edits": steps, "config": CONFIG}
             for _, t, steps, _ in hs]
    hres = impl_run_parallel(hjobs, chunks=min(len(hjobs), 9))
    umnlib.check_ok(hres)
    nhist = 0
    for (label, t0, steps, hiddens), r in zip(hs, hres):
        for kind in ("umn", "dir"):
            for i, st in enumerate(r["res"]["runs"][kind]):
                hidden_i = set() if i == 0 else hiddens[i - 1]
                if i == 0:
                    # what the tree says before any edit
                    hidden_i = {x["path"][len("d/.cap/"):] for x in t0 if x["path"].startswith("d/.cap/")
                                and x.get("data", "").startswith(("Type=X", "Type=-"))}
                    hidden_i |= {"f3.txt"} if any(x["path"] == "d/.Links" for x in t0) else set()
                lcases.append(umnlib.listing_case(st, kind))
                lmeta.append(({"tree": t0, "dir": "/d", "history": label, "step": i}, kind))
                nhist += 1
                chk.count(("history", label, kind, i))
                res_ = st["groups"][0]["result"]
                exp = expected_names(kind, REFERENCE_PATTERN, "/d", st["world"], hidden_i)
                got = None if "exc" in res_ else sorted(e["selector"][3:] for e in res_["entries"]
                                                        if e["selector"].startswith("/d/") and "/" not in e["selector"][3:]
                                                        and e["selector"][3:] in [c["name"] for c in st["world"]["children"]])
                if got != exp:
                    found = True
                    chk.violation({"what": "after metadata was edited within the same second (one process, no clock advance) the "
                                           "listing is not exactly the visible entries of the directory as it is now",
                                   "history": label, "step": i, "handler": kind, "tree_before": t0, "edit_steps": steps[:i],
                                   "expected_directory_entries": exp, "listed_directory_entries": got,
                                   "outcome": res_.get("exc")}, tag="c07-stale-metadata:" + kind)
    # ---------------- names the pattern matches take no part: present / emptied / absent ----------------
    itrees = []
    ibases = ["/d", "/", "/sub dir", "/deep/er"]
    for patt in [None] + OTHER_PATTERNS:
        live = patt or shipped
        for k in range((10 if thorough else 6) if patt is None else (4 if thorough else 2)):
            base = ibases[k % len(ibases)]
            t, names, ignored = ignored_parts_tree(rng, base, live)
            itrees.append({"tree": t, "dir": base, "names": names, "ignored": ignored, "patt": patt, "live": live})
        # a directory whose own path an unanchored alternative matches: everything in it is ignored
        mdirs = [d for d in matching_dirs(live) if not d.endswith("/below")]
        for d in rng.sample(mdirs, min(len(mdirs), 2 if thorough else 1)):
            t, names, ignored = ignored_parts_tree(rng, d, live)
            itrees.append({"tree": t, "dir": d, "names": names, "ignored": ignored, "patt": patt, "live": live})
    ijobs = []
    for it in itrees:
        emptied, removed = ignored_variants(it["tree"], it["dir"], it["ignored"])
        it["variants"] = [("as they are", it["tree"], it["names"]), ("content emptied", emptied, it["names"]),
                          ("removed", removed, [n for n in it["names"] if n not in it["ignored"]])]
        cfg = CONFIG
        if it["patt"]:
            cfg = {"handlers.dir.DirHandler": {"cachetime": "0", "ignorepatt": it["patt"]}}
        for vi, (_, vt, vnames) in enumerate(it["variants"]):
            n = len(vnames)
            perms = [list(range(n)), list(reversed(range(n)))]
            for _ in range(2):
                p = list(range(n))
                rng.shuffle(p)
                perms.append(p)
            fetch = [x for x in it["ignored"] if x not in IGN_DIRLIKE] if vi == 0 else []
            ijobs.append({"op": "c07_listing", "tree": vt, "dir": it["dir"], "kinds": ["dir", "umn"], "perms": perms,
                          "config": cfg, "fetch": fetch})
    ires = impl_run_parallel(ijobs, chunks=min(len(ijobs), 12))
    umnlib.check_ok(ires)
    nign = 0
    for ti, it in enumerate(itrees):
        rs = ires[3 * ti:3 * ti + 3]
        base = "" if it["dir"] == "/" else it["dir"]
        for vi, (label, vt, vnames) in enumerate(it["variants"]):
            got_names = sorted(c["name"] for c in rs[vi]["res"]["runs"]["umn"]["world"]["children"])
            if got_names != sorted(vnames):
                raise RuntimeError("tree generator and listdir disagree: %r vs %r" % (got_names, sorted(vnames)))
        for kind in ("dir", "umn"):
            runs = [r["res"]["runs"][kind] for r in rs]
            if runs[0]["ignorepatt"] != it["live"]:
                raise RuntimeError("configured pattern is not the one the generator used: %r" % (runs[0]["ignorepatt"],))
            # every enumeration order of every variant must give one and the same outcome
            outcomes = []
            for vi, run_ in enumerate(runs):
                for g in run_["groups"]:
                    nign += len(g["perms"])
                    outcomes.append((vi, g["result"]))
            chk.count(("ignored-parts", json.dumps(it["tree"], sort_keys=True), kind), n=len(outcomes),
                      nontrivial=any(n.startswith(".") for n in it["ignored"]))
            ref = [o for o in outcomes if o[0] == 2][0][1]          # the directory without the matched names
            bad = [o for o in outcomes if o[1] != ref]
            if bad:
                found = True
                vi, res_ = bad[0]
                show = lambda r: r.get("exc") or [(e["selector"], e["name"], e["type"], e["host"], e["port"], e["num"], e["ea"])  # noqa: E731
                                                  for e in r["entries"]]
                chk.violation({"what": "names matched by the configured ignore pattern take part in the listing: the listing of "
                                       "the directory differs from the listing of the same directory without them (they are "
                                       "listed, or their content is read as link-file blocks)", "handler": kind,
                               "dir": it["dir"], "ignorepatt": it["live"], "matched_names": it["ignored"],
                               "tree": it["tree"], "differing_variant": "matched names " + it["variants"][vi][0],
                               "listing_with_matched_names": show(res_), "listing_without_them": show(ref),
                               "tree_without_them": it["variants"][2][1]},
                              tag="c07-ignored-takes-part:" + kind)
            if ti % 2 == 0 or thorough:
                lcases.append(umnlib.listing_case(runs[0], kind))
                lmeta.append(({"tree": it["tree"], "dir": it["dir"]}, kind))
        datas = {e["path"]: e.get("data", "") for e in it["tree"] if e.get("kind", "file") == "file"}
        pre_ = it["dir"].strip("/")
        pre_ = pre_ + "/" if pre_ else ""
        for n, fr in rs[0]["res"]["fetch"].items():
            want = datas.get(tp(pre_ + n))
            if want is None:
                continue
            chk.count(("fetch", tp(pre_ + n)))
            if fr["out"] != want or fr["exc"]:
                found = True
                chk.violation({"what": "a name kept out of the listing by the ignore pattern is not retrievable by exact selector",
                               "selector": base + "/" + n, "tree": it["tree"], "response_latin1": fr["out"][:300],
                               "exception": fr["exc"]}, tag="c07-not-retrievable")
    cov["ignored_take_no_part"] = {"trees": len(itrees), "listings": nign,
                                   "patterns": 1 + len(OTHER_PATTERNS),
                                   "matched_dot_files": sum(1 for it in itrees for n in it["ignored"] if n.startswith("."))}
    mism_l, err_l, nsh = coq_eval("C07", "k_listing", "Lib.Str Lib.Regex Model.DirEntry Model.UMN Model.Dir Corr.K07",
                                  "chk_listing the_fx", lcases, shard=1, pre=pre, timeout=900)
    cov["correspondence"] = {
        "entrycmp_pairs": len(ecases), "sort_arrangements": len(arrangements), "name_sorts": len(ncases),
        "search_strings": len(search_strings) * len(alt_patterns), "listing_worlds": len(lcases), "history_listings": nhist,
        "enumeration_orders": nperm, "shards": nsh,
        "mismatches": {"entrycmp": len(mism_e), "sort": len(mism_s), "namesort": len(mism_n), "search": len(mism_g),
                       "shipped_pattern": len(mism_h), "listing": len(mism_l)},
        "errors": [e for e in (err_e, err_s, err_n, err_g, err_h, err_l) if e],
    }
    chk.sample({"kind": "listing", "dir": trees[0]["dir"], "names": trees[0]["names"],
                "umn_result": lres[0]["res"]["runs"]["umn"]["groups"][0]["result"]})
    chk.sample({"kind": "entrycmp", "a": pool[0], "b": pool[1], "real": cmp_res["pairs"][0][1]})
    broken = any([mism_e, mism_s, mism_n, mism_g, mism_h, mism_l, err_e, err_s, err_n, err_g, err_h, err_l])
    if broken:
        detail = {"entrycmp": [ecases[i] for i in mism_e[:5]], "sort": mism_s, "namesort": [ncases[i] for i in mism_n[:5]],
                  "search": mism_g, "shipped": mism_h,
                  "listing": [{"handler": lmeta[i][1], "tree": lmeta[i][0]["tree"], "dir": lmeta[i][0]["dir"]} for i in mism_l[:5]],
                  "errors": [e[-1500:] for e in (err_e, err_s, err_n, err_g, err_h, err_l) if e], "code_variant": fx}
        chk.correspondence_broken("K07 (entrycmp / sort / ignore pattern / listings)", detail, found)
    chk.finish_proofs(found)
    cov["rule"] = ("component: real entrycmp on all ordered pairs of a 48-entry pool (nums {-2,-1,0,1,2,10} x names incl. "
                   "empty, non-ASCII, lone surrogate, None), real list.sort on random arrangements, real re.search of the "
                   "shipped and 6 other patterns on names on both sides of every alternative; end to end: generated "
                   "directories (matching + near-miss names for every alternative, dot files, link files, .cap files, "
                   "sub-directories) listed by the real DirHandler and UMNDirHandler under ALL permutations of the "
                   "enumeration order (<= 6 names) or 200 random ones (9-14 names); every outcome compared with the model "
                   "inside Coq; oracle: independent statement of 'visible' (Python re on the configured pattern, dot rule, "
                   "generator's record of hidden entries), permutation differential, retrieval by exact selector; "
                   "names the pattern matches take no part: directories holding matched dot-files and plain names whose "
                   "content is link-file syntax (hide / title / number / abstract / link blocks), under the shipped and two "
                   "other patterns and in a directory that is matched itself, listed as they are, with that content emptied "
                   "and without those names: every field of every entry must agree; names special to some layer (virtual-"
                   "selector separators ? |, URL/HTTP, shell/glob/regex syntax, control characters, trailing dot/blank, "
                   "reserved words of handlers and protocols) as files, as sub-directories and as the listed directory "
                   "itself: exactness under all permutations, retrieval by exact selector (also of a file inside)")
    chk.assumptions += [
        "list.sort is a stable sort (Props/C07.v stable_sort_unique then fixes its result); cross-checked on real sorts",
        "the handler list is one in which directories and regular files are always taken by some handler and nothing "
        "takes a path without stat result or a special file (true of every list shipped in conf/pygopherd.conf)",
        "for plain dir.DirHandler dot files are governed by the ignore pattern only (the Bucktooth sample pattern adds "
        "`/\\.`); the dot rule of the property is UMNDirHandler's",
        "'hidden by metadata' = dropped by .cap/<name> (Type=X or -) or removed by a ./name hide block of a link file; it "
        "stays hidden whatever other blocks name the same path (D21, D25).  A TITLE block Path=./x for a file that is not "
        "listed for another reason (matched by the ignore pattern, a dot-file, missing) still adds a link entry: that is "
        "the administrator's explicit link, not the directory entry, and is not counted as 'something else from the "
        "directory'; the generators therefore only aim ./ blocks at visible or metadata-hidden files",
        "regex subset of the ignore pattern: literal, escaped punctuation, `.`, `|`, trailing `$`; anything else makes "
        "the translator unit Ignore unavailable and K decides",
    ]
    return chk.finish("proof")
