"""C02 — protocol autodetection is deterministic, ordered and strict about TLS."""
import re

from common import Check, coq_eval, coq_str, coq_bool, coq_list, coq_opt, impl_run
import gen

PROTO_COQ = {
    "wap.WAPProtocol": "PWap", "gemini.GeminiProtocol": "PGemini", "http.HTTPProtocol": "PHttp",
    "http.HTTPSProtocol": "PHttps", "spartan.SpartanProtocol": "PSpartan",
    "gopherp.GopherPlusProtocol": "PGopherPlus", "gopherp.SecureGopherPlusProtocol": "PSGopherPlus",
    "rfc1436.GopherProtocol": "PGopher", "rfc1436.SecureGopherProtocol": "PSGopher",
    "gopherp.URLGopherPlus": "PUrlGopherPlus",
}
CLS_COQ = {k.split(".")[1]: v for k, v in PROTO_COQ.items()}
SHIPPED = ["wap.WAPProtocol", "gemini.GeminiProtocol", "http.HTTPProtocol", "http.HTTPSProtocol",
           "spartan.SpartanProtocol", "gopherp.GopherPlusProtocol", "gopherp.SecureGopherPlusProtocol",
           "rfc1436.GopherProtocol", "rfc1436.SecureGopherProtocol"]
# documented TLS-ness of each protocol class (README / conf comments), independent of the code
DOC_TLS = {"WAPProtocol": False, "GeminiProtocol": True, "HTTPProtocol": False, "HTTPSProtocol": True,
           "SpartanProtocol": False, "GopherPlusProtocol": False, "SecureGopherPlusProtocol": True,
           "GopherProtocol": False, "SecureGopherProtocol": True, "URLGopherPlus": False}


# ---- independent restatement of the documented request shapes (oracle) ----
def doc_http(line):
    parts = line.split(" ")
    if len(parts) != 3:
        return False
    m, v = parts[0].strip(), parts[2].strip()
    return m in ("GET", "HEAD") and v.startswith("HTTP/")


def doc_headers(hdr_lines):
    h = {}
    for l in hdr_lines:
        if l == "" or l.strip() == "":
            break
        s = l.strip()
        if ":" in s:
            k, v = s.split(":", 1)
            h[k.lower()] = v
    return h


def doc_wap(line, hdr_lines, waptop):
    if not doc_http(line):
        return False
    uri = line.split(" ")[1].strip()
    if uri == waptop or uri.startswith((waptop + "/", waptop + "?")):
        return True
    h = doc_headers(hdr_lines)
    acc = h.get("accept")
    if acc is None or not re.search(r"[, ]text/vnd[^\n]wap[^\n]wml", acc):
        return False
    return "x-wap-profile" in h or "x-up-devcap-max-pdu" in h


def doc_gemini(line):
    return line.startswith("gemini://")


def doc_spartan(line):
    if any(ord(c) > 127 for c in line):
        return False
    parts = line.strip().split(" ")
    return len(parts) == 3 and all(parts) and all(c in "0123456789" for c in parts[2])


def doc_gplus(line):
    f = [x.strip() for x in line.split("\t")]
    if len(f) == 2:
        g = f[1]
    elif len(f) == 3:
        g = f[2]
    else:
        return False
    return g.startswith("+") or g == "!" or g.startswith("$")


def doc_first_match(plist, line, hdrs, tls, waptop):
    for p in plist:
        cls = p.split(".")[1]
        if DOC_TLS[cls] != tls:
            continue
        ok = {"WAPProtocol": lambda: doc_wap(line, hdrs, waptop), "GeminiProtocol": lambda: doc_gemini(line),
              "HTTPProtocol": lambda: doc_http(line), "HTTPSProtocol": lambda: doc_http(line),
              "SpartanProtocol": lambda: doc_spartan(line), "GopherPlusProtocol": lambda: doc_gplus(line),
              "SecureGopherPlusProtocol": lambda: doc_gplus(line), "URLGopherPlus": lambda: doc_gplus(line),
              "GopherProtocol": lambda: True, "SecureGopherProtocol": lambda: True}[cls]()
        if ok:
            return cls
    return None


# ---- generators ----
WS = [" ", "  ", "\t", " \t", "\xa0", " ", "\x1c", ""]


def gen_lines(rng, n):
    out = []
    paths = ["/", "/a.txt", "/wap/a", "/wap", "/wapx", "/a b", "/%41", "x", "", "/é", "/\udcae", "//", "/a?b=c"]
    for _ in range(n):
        k = rng.randrange(9)
        if k == 0:    # HTTP and near misses
            m = rng.choice(["GET", "HEAD", "get", "POST", "GET\t", " GET", "GET\xa0", "HEAD "])
            v = rng.choice(["HTTP/1.0", "HTTP/", "http/1.0", "HTTP", "HTTP/1.1", " HTTP/1.0", "HTTP/1.0 ", " HTTP/9"])
            sep1, sep2 = rng.choice([" ", " ", " ", "  ", "\t"]), rng.choice([" ", " ", " ", "  ", "\t"])
            line = m + sep1 + rng.choice(paths) + sep2 + v
        elif k == 1:  # Spartan and near misses
            host = rng.choice(["example.com", "h", "", "hôst", "h\t"])
            ln = rng.choice(["0", "12", "007", "", "x", "1 ", "٣", "-1", "1.0", "12\t", "+5", "-0", "+0", "1_000", "0_0", "\t7", "\x0c7",
                             "1e3", "٣٤", "１２", "0x10", "0b1", "00", "9" * 5000, "1" + "0" * 4300, "²", "①"])
            line = host + rng.choice([" ", "  "]) + rng.choice(paths) + " " + ln
        elif k == 2:  # Gemini
            line = rng.choice(["gemini://h/p", "GEMINI://h/", " gemini://h/", "gemini:/h", "gemini://", "gemini://h/a b HTTP/1.0",
                               "gemini://h/x\t+"])
        elif k == 3:  # Gopher+
            sel = rng.choice(paths)
            tail = rng.choice(["\t+", "\t!", "\t$", "\tq\t+", "\t", "\t\t+", "\t!x", "\t+x\ty\tz", "\t +", "\t\xa0$", "\t ",
                               "\t+\t", "\tq\t", "\t\t", "\t$x", "\tq\t!", "\t\x1f"])
            line = sel + tail
        elif k == 4:  # plain gopher
            line = rng.choice(paths) + rng.choice(["", "\tsearch words", " "])
        elif k == 5:  # HTTP-looking gopher+ / mixtures
            line = rng.choice(["GET / HTTP/1.0\t+", "GET /\t+ HTTP/1.0", "a b 1\t+", "a b 1\t$", "GET /x HTTP/1.0\tq\t!"])
        elif k == 6:  # random printable-ish
            line = "".join(rng.choice("GETHAD /\t+!$:abc01 ") for _ in range(rng.randrange(0, 18)))
        elif k == 7:  # random bytes decoded like the server does
            raw = bytes(rng.randrange(256) for _ in range(rng.randrange(0, 12))).replace(b"\n", b" ")
            line = raw.decode("utf-8", "surrogateescape")
        else:
            line = rng.choice(["", " ", "\t", "\t\t\t", "+", "!", "$"])
        line += rng.choice(["\r\n", "\r\n", "\r\n", "\n", "", "\r", " \r\n"])
        out.append(line)
    return out


PERT_CHARS = ["\x00", "\x01", "\x02", "\x07", "\x08", "\x0b", "\x0c", "\x0e", "\x1b", "\x1c", "\x1f", "\x7f", "\x85", "\xa0", "\xad",
              "\u200b", "\u2028", "\ufeff", "\udc80", "\udcff"]
PERT_BASES = ["GET /x HTTP/1.0", "HEAD / HTTP/1.1", "GET /wap/a HTTP/1.0", "localhost /x 0", "h /a.txt 12", "gemini://h/p",
              "/a.txt\t+", "/a.txt\t!", "/d\t$", "/a.txt\tq\t+", "/a.txt"]


def perturbed_lines(rng, tier):
    out = []
    for base in PERT_BASES:
        cut = max(base.rfind(" "), base.rfind("\t")) + 1          # start of the last word
        places = [0, 1, cut, max(cut - 1, 0), len(base), len(base) - 1]
        for ch in PERT_CHARS:
            chosen = places if tier == "thorough" else rng.sample(places, 2)
            for at in chosen:
                out.append(base[:at] + ch + base[at:] + "\r\n")
    return out


def gen_headers(rng):
    k = rng.randrange(6)
    acc = rng.choice(["Accept", "accept", "ACCEPT", "Accept ", "AcceKpt"])
    val = rng.choice([" text/vnd.wap.wml", "text/vnd.wap.wml", " text/html, text/vnd.wap.wml", " text/html,text/vndXwapYwml",
                      " text/vnd\nwap.wml", " image/gif", ",text/vnd.wap.wml;q=1"])
    prof = rng.choice(["X-Wap-Profile: http://x", "x-up-devcap-max-pdu: 1", "X-WAP-PROFILE:", "X-Other: 1", "x-wap-profile"])
    lines = [f"{acc}:{val}", prof, "Host: h"]
    rng.shuffle(lines)
    if k == 0:
        return []
    if k == 1:
        return ["\r\n"] + [l + "\r\n" for l in lines]
    if k == 2:
        lines.insert(rng.randrange(len(lines) + 1), "   ")
    if k == 3:
        lines.append(f"{acc}: image/gif")      # later duplicate wins
    return [l + rng.choice(["\r\n", "\n"]) for l in lines] + ["\r\n"]


def run(tier):
    chk = Check("C02", tier)
    chk.proofs(extra_files=["Corr/K02.v"])
    found = False
    rng = chk.rng
    n = 12000 if tier == "thorough" else 3000
    lines = gen_lines(rng, n)
    # corpus of earlier findings first
    lines[:6] = ["foo\t\r\n", "\t\r\n", "foo\t\t\r\n", "foo\tq\t\r\n", "/\t \r\n", "x\t\xa0\r\n"]
    # very long first lines: the whole line decides, however long it is
    for k, (n_, shape) in enumerate([(5000, "GET /%s HTTP/1.0\r\n"), (12000, "GET /%s HTTP/1.0\r\n"), (5000, "h /%s 0\r\n"), (9000, "/%s\t+\r\n"),
                                     (4090, "GET /%s HTTP/1.0\r\n"), (4097, "/%s\t$\r\n"), (11000, "gemini://h/%s\r\n"), (8190, "HEAD /%s HTTP/1.1\r\n")]):
        lines[6 + k] = shape % ("a" * n_)
    # upper-case methods other than GET/HEAD and other HTTP look-alikes must still be claimed by somebody
    lines[14:20] = ["POST / HTTP/1.1\r\n", "OPTIONS * HTTP/1.0\r\n", "CONNECT h:1 HTTP/1.1\r\n", "PUT /x HTTP/2\r\n", "DELETE /a HTTP/1.0\r\n",
                    "TRACE / HTTP/1.1\r\n"]
    # every documented shape with ONE foreign character put in at several places (start, inside the first word,
    # before the last word, end): control characters, DEL, C1 / no-break / zero-width / BOM / soft hyphen, undecodable
    # bytes.  A line that has a shape only after such a character is taken out does not have it.
    lines += perturbed_lines(rng, tier)
    cases = []
    for i, line in enumerate(lines):
        tls = rng.random() < 0.4
        hdrs = gen_headers(rng)
        if not line.endswith("\n"):
            hdrs = []          # without a line feed the "first line" runs to EOF
        r = rng.random()
        if r < 0.6:
            plist = list(SHIPPED)
        elif r < 0.8:
            plist = list(SHIPPED)
            rng.shuffle(plist)
        else:
            pool = list(PROTO_COQ)
            plist = rng.sample(pool, rng.randrange(1, len(pool)))
        waptop = "/wap" if rng.random() < 0.8 else rng.choice(["/w", "", "/wap/"])
        if i < 6:
            tls, plist, waptop = False, list(SHIPPED), "/wap"
        elif i < 20:
            plist, waptop = list(SHIPPED), "/wap"
            tls = line.startswith("gemini") or (i % 2 == 1 and not line.startswith("h /"))
        data = (line + "".join(hdrs)).encode("utf-8", "surrogateescape")
        cases.append({"line": line, "hdrs": hdrs, "tls": tls, "plist": plist, "waptop": waptop,
                      "data": gen.lat(data)})
    # every documented shape in its plain form, on the shipped list (random generation reaches some of them rarely)
    WAPH = ["Accept: text/html, text/vnd.wap.wml\r\n", "X-Wap-Profile: \"http://wap.example/ua.xml\"\r\n", "\r\n"]
    for line, tls_, hdrs_ in (
            [("%s %s %s\r\n" % (m, p_, v), t, ["\r\n"]) for m in ("GET", "HEAD") for v in ("HTTP/1.0", "HTTP/1.1")
             for p_ in ("/wap/a", "/wap", "/wap/", "/wap/README", "/wap?x=1", "/wapx", "/a.txt", "/") for t in (False, True)]
            + [("GET %s HTTP/1.0\r\n" % p_, False, WAPH) for p_ in ("/", "/a.txt", "/wap/a", "/wapx")]
            + [("GET %s HTTP/1.0\r\n" % p_, False, [acc, dev, "\r\n"]) for p_ in ("/", "/a.txt")
               for acc in ("Accept: text/vnd.wap.wml, text/html\r\n", "Accept: text/vnd.wap.wml\r\n", "Accept:text/vnd.wap.wml\r\n",
                           "Accept:  text/vnd.wap.wml \r\n", "Accept: text/html,text/vnd.wap.wml\r\n", "accept: image/gif, text/vnd.wap.wml;q=0.9\r\n",
                           "Accept: xtext/vnd.wap.wml\r\n", "Accept: text/html\r\n")
               for dev in ("X-Wap-Profile: \"http://wap.example/ua.xml\"\r\n", "X-Up-Devcap-Max-Pdu: 1400\r\n", "x-wap-profile:p\r\n", "User-Agent: x\r\n")]
            + [(l, t, []) for l in ("h / 0\r\n", "example.com /a 12\r\n", "gemini://h/p\r\n", "/a.txt\t+\r\n", "/a.txt\t$\r\n",
                                    "/a.txt\tq\t+\r\n", "/a.txt\r\n", "/a.txt\tq\r\n", "\r\n") for t in (False, True)]):
        data = (line + "".join(hdrs_)).encode("utf-8", "surrogateescape")
        cases.append({"line": line, "hdrs": hdrs_, "tls": tls_, "plist": list(SHIPPED), "waptop": "/wap", "data": gen.lat(data)})
    # the same connection again later in the same process, and twice in a row: the answer is a function of
    # (line, headers, TLS, configured list), not of what the process has classified before
    again = [dict(c) for c in cases[-190:]] + [dict(c) for c in cases if "/wap" in c["line"] or "HTTP/" in c["line"]][:200] + \
        [dict(c) for c in rng.sample(cases, 250)]
    doubled = []
    for c in again:
        doubled += [c, dict(c)]
    cases = cases + doubled
    res = impl_run([{"op": "detect", "cases": [{"data": c["data"], "tls": c["tls"],
                                                 "protocols": "[" + ", ".join(c["plist"]) + "]",
                                                 "waptop": c["waptop"]} for c in cases]}])[0]
    if not res["ok"]:
        raise RuntimeError(res["err"] + res.get("tb", ""))
    outs = res["res"]
    coq_cases, idx = [], []
    dist = {"claimed_by": {}, "exceptions": 0, "unclaimed": 0}
    for i, (c, o) in enumerate(zip(cases, outs)):
        shipped = c["plist"] == SHIPPED
        dist["claimed_by"][o["cls"] or "-"] = dist["claimed_by"].get(o["cls"] or "-", 0) + 1
        chk.count((c["line"], c["tls"], tuple(c["plist"]), tuple(c["hdrs"])),
                  nontrivial=o["cls"] not in ("GopherProtocol", "SecureGopherProtocol", None))
        # ---- oracle on the implementation ----
        if o.get("line") is not None and o["line"] != c["line"]:
            found = True
            chk.violation({"what": "the connection handler classified something other than the whole first request line",
                           "first_line_head": c["line"][:80], "first_line_length": len(c["line"]), "classified_length": len(o["line"]),
                           "tls": c["tls"]}, tag="first-line-not-whole")
        if o["exc"]:
            dist["exceptions"] += 1
            found = True
            chk.violation({"what": "an exception escapes ProtocolMultiplexer.getProtocol (no response at all)",
                           "first_line": c["line"], "headers": c["hdrs"], "tls": c["tls"], "protocols": c["plist"],
                           "exception": o["exc"]}, tag="detect-exception:" + o["exc"])
            continue
        if o["cls"] is None:
            dist["unclaimed"] += 1
            if shipped:
                found = True
                chk.violation({"what": "a line is claimed by no protocol of the shipped list", "first_line": c["line"],
                               "tls": c["tls"]}, tag="unclaimed-shipped")
        else:
            if DOC_TLS[o["cls"]] != c["tls"]:
                found = True
                chk.violation({"what": "a protocol answered a connection of the wrong TLS-ness", "first_line": c["line"],
                               "tls": c["tls"], "claimed_by": o["cls"], "protocols": c["plist"]},
                              tag="tls-mismatch:" + o["cls"])
        want = doc_first_match(c["plist"], c["line"], c["hdrs"], c["tls"], c["waptop"])
        if want != o["cls"]:
            found = True
            chk.violation({"what": "the line is not claimed by the first protocol of the configured order whose documented shape it matches",
                           "first_line": c["line"], "headers": c["hdrs"], "tls": c["tls"], "protocols": c["plist"],
                           "waptop": c["waptop"], "claimed_by": o["cls"], "expected": want},
                          tag=f"first-match:{want}->{o['cls']}")
        ps = coq_list([PROTO_COQ[p] for p in c["plist"]])
        r = coq_opt(CLS_COQ[o["cls"]] if o["cls"] else None)
        coq_cases.append("(((%s, %s), ((%s, %s), %s)), %s)" % (
            coq_str(c["waptop"]), ps, coq_bool(c["tls"]), coq_str(c["line"]),
            coq_list([coq_str(h) for h in c["hdrs"]]), r))
        idx.append(i)
    mism, err, nsh = coq_eval("C02", "k_detect", "Lib.Str Model.ProtoId Corr.K02", "chk_detect", coq_cases, shard=500)
    chk.coverage["correspondence"] = {"cases": len(coq_cases), "shards": nsh, "mismatches": len(mism), "errors": err}
    chk.coverage["distribution"] = dist
    chk.sample({"first_line": cases[10]["line"], "tls": cases[10]["tls"], "headers": cases[10]["hdrs"],
                "protocols": cases[10]["plist"], "claimed_by": outs[10]["cls"]})
    chk.sample({"first_line": cases[0]["line"], "tls": False, "claimed_by": outs[0]["cls"], "exception": outs[0]["exc"]})

    # ---- live socket: all 256 first bytes ----
    sn = impl_run([{"op": "sniff", "servers": ["ThreadingTCPServer"]}], timeout=300)[0]
    if not sn["ok"]:
        raise RuntimeError(sn["err"] + sn.get("tb", ""))
    sniff_bad = 0
    for clsname, r in sn["res"].items():
        for e in r["bytes"]:
            b = e["byte"]
            payload = bytes([b]) + b"rest-of-request \x16\x00\xff\r\n"
            first_line = payload.split(b"\n")[0] + b"\n"
            got = e["plain_reply"].encode("latin-1")
            chk.count(("sniff", clsname, b))
            if b != 0x16:
                if got != b"PLAIN:" + first_line:
                    sniff_bad += 1
                    found = True
                    chk.violation({"what": "plaintext connection not passed through unchanged (sniff consumed or misclassified)",
                                   "first_byte": b, "server": clsname, "sent": payload.decode("latin-1"),
                                   "received": e["plain_reply"]}, tag="sniff-plain")
            else:
                if got.startswith(b"PLAIN:"):
                    sniff_bad += 1
                    found = True
                    chk.violation({"what": "first byte 0x16 was not treated as TLS", "server": clsname,
                                   "received": e["plain_reply"]}, tag="sniff-0x16")
        if r["tls_reply"] != "TLS:hello over tls\r\n":
            sniff_bad += 1
            found = True
            chk.violation({"what": "a genuine TLS client is not served over TLS with its request intact", "server": clsname,
                           "received": r["tls_reply"]}, tag="sniff-tls-client")
    chk.coverage["sniff"] = {"first_bytes": 256, "exhaustive": True, "bad": sniff_bad}
    if mism or err:
        det = {"mismatching_cases": [{k: cases[idx[i]][k] for k in ("line", "hdrs", "tls", "plist", "waptop")} |
                                     {"impl": outs[idx[i]]} for i in mism[:10]], "errors": err}
        chk.correspondence_broken("K02 (detect vs ProtocolMultiplexer.getProtocol)", det, found)
    chk.finish_proofs(found)
    chk.coverage["rule"] = ("first lines from a near-miss grammar (HTTP/Spartan/Gemini/Gopher+/plain/mixed/random bytes, Unicode whitespace, "
                            "line endings) x TLS flag x header blocks (WAP markers, duplicates, blank placement) x protocol lists (shipped, "
                            "shuffled, random sub-lists); non-trivial = claimed by a protocol other than the catch-alls; plus all 256 first bytes on a live socket")
    chk.assumptions += ["str.lower() modelled on ASCII only (sufficient for membership of the three ASCII header names)",
                        "socket sniff (MSG_PEEK) is runtime behaviour: covered by the exhaustive live-socket run, the Coq statement about `peek` is about the model"]
    return chk.finish("proof")
