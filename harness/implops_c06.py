"""Implementation-side operations for the correspondence checks K06 / K13: the REAL
renderobjinfo / getrenderstr / renderdirstart / renderdirend / writedir /
filenotfound of every protocol class, GopherEntry.geturl, HTMLURLHandler.write and
GopherPlusProtocol.getblock, called on entries whose attributes are set directly.
Runs inside the implementation's interpreter.

Transport: a Python str that may hold arbitrary surrogates crosses JSON as a list
of code points (JSON would merge an adjacent high+low surrogate pair); None stays
None; an exception is reported by its class name."""
import io


def register(OPS, drv):
    from pygopherd.gopherentry import GopherEntry
    from pygopherd.protocols.rfc1436 import GopherProtocol
    from pygopherd.protocols.gopherp import GopherPlusProtocol
    from pygopherd.protocols.http import HTTPProtocol
    from pygopherd.protocols.wap import WAPProtocol
    from pygopherd.protocols.gemini import GeminiProtocol
    from pygopherd.protocols.spartan import SpartanProtocol
    from pygopherd.handlers.url import HTMLURLHandler

    CLASSES = {"gopher": GopherProtocol, "gopherplus": GopherPlusProtocol, "http": HTTPProtocol,
               "wap": WAPProtocol, "gemini": GeminiProtocol, "spartan": SpartanProtocol}

    def S(cps):
        return None if cps is None else "".join(map(chr, cps))

    def L(s):
        return None if s is None else [ord(c) for c in s]

    def mk_entry(f, config):
        e = GopherEntry(S(f["selector"]), config)
        e.type = S(f.get("type"))
        e.name = S(f.get("name"))
        e.host = S(f.get("host"))
        e.port = f.get("port")
        e.mimetype = S(f.get("mimetype"))
        e.gopherpsupport = 1 if f.get("gplus") else 0
        for k, v in f.get("ea", []):
            e.ea[S(k)] = S(v)
        return e

    def mk_config(job):
        ov = {}
        for sec, opts in (job.get("config") or {}).items():
            ov[sec] = dict(opts)
        return drv.make_config("/nonexistent-root", ov)

    def mk_proto(kind, config, job, wfile=None):
        server = drv.FakeServer(config, S(job.get("srvname")) if job.get("srvname") is not None else "gopher.example",
                                job.get("srvport", 70))
        p = CLASSES[kind]("", server, None, io.BytesIO(), wfile if wfile is not None else io.BytesIO(), config)
        if kind in ("http", "wap"):
            p.iconmapping = eval(config.get("protocols.http.HTTPProtocol", "iconmapping"))
        if kind == "wap":
            p.waptop = config.get("protocols.wap.WAPProtocol", "waptop")
            p.accesskeyidx = 0
            p.postfieldidx = 0
        if kind == "gopherplus":
            p.handlemethod = "documentonly"
        return p

    def op_c06_rows(job):
        """cases: [{proto, entry, key, post}] -> [{out: code points | None, exc, key, post}]"""
        config = mk_config(job)
        protos = {}
        out = []
        for c in job["cases"]:
            kind = c["proto"]
            if kind not in protos:
                protos[kind] = mk_proto(kind, config, job)
            p = protos[kind]
            if kind == "wap":
                p.accesskeyidx = c.get("key", 0)
                p.postfieldidx = c.get("post", 0)
            e = mk_entry(c["entry"], config)
            try:
                if kind == "geturl":
                    s = e.geturl(S(c["dhost"]), c["dport"])
                else:
                    s = p.renderobjinfo(e)
                r = {"out": L(s), "exc": None}
            except Exception as ex:  # noqa
                r = {"out": None, "exc": type(ex).__name__}
            if kind == "wap":
                r["key"], r["post"] = p.accesskeyidx, p.postfieldidx
            out.append(r)
        return out

    def op_c06_geturl(job):
        config = mk_config(job)
        out = []
        for c in job["cases"]:
            e = mk_entry(c["entry"], config)
            try:
                out.append({"out": L(e.geturl(S(c["dhost"]), c["dport"])), "exc": None})
            except Exception as ex:  # noqa
                out.append({"out": None, "exc": type(ex).__name__})
        return out

    def op_c06_dirs(job):
        """cases: [{proto, dir, entries}] with one config -> bytes writedir wrote (latin-1) | None"""
        config = mk_config(job)
        out = []
        for c in job["cases"]:
            wfile = io.BytesIO()
            p = mk_proto(c["proto"], config, job, wfile)
            d = mk_entry(c["dir"], config)
            p.entry = d
            es = [mk_entry(f, config) for f in c["entries"]]
            # the handler contract leaves the container open ("list, iterator, tuple, generator, etc")
            wrap = [list, tuple, iter, lambda xs: (x for x in xs), lambda xs: map(lambda x: x, xs)][len(out) % 5]
            try:
                p.writedir(d, wrap(es))
                out.append({"out": drv.b2s(wfile.getvalue()), "exc": None})
            except Exception as ex:  # noqa
                out.append({"out": None, "exc": type(ex).__name__, "partial": drv.b2s(wfile.getvalue())})
        return out

    def op_c13_pages(job):
        """cases: [{what, ...}] -> text (code points) the builder produced"""
        config = mk_config(job)
        out = []
        for c in job["cases"]:
            what = c["what"]
            try:
                if what in ("http_dirstart", "http_dirend", "wap_dirstart", "wap_dirend"):
                    kind = what.split("_")[0]
                    p = mk_proto(kind, config, job)
                    d = mk_entry(c["dir"], config)
                    p.entry = d
                    s = getattr(p, "render" + what.split("_")[1])(d)
                elif what in ("http_404", "wap_404"):
                    wfile = io.BytesIO()
                    p = mk_proto(what.split("_")[0], config, job, wfile)
                    p.filenotfound(S(c["msg"]))
                    s = wfile.getvalue().decode("utf-8", "surrogateescape")
                elif what == "url_page":
                    wfile = io.BytesIO()
                    h = HTMLURLHandler(S(c["selector"]), "", None, config, None)
                    h.write(wfile)
                    s = wfile.getvalue().decode("utf-8", "surrogateescape")
                elif what == "wap_deck":
                    wfile = io.BytesIO()
                    p = mk_proto("wap", config, job, wfile)
                    p.needsconversion = 1
                    data = S(c["text"]).encode("utf-8", "surrogateescape")

                    class H:
                        def write(self, f):
                            f.write(data)

                    p.handler = H()
                    p.handlerwrite(wfile)
                    s = wfile.getvalue().decode("utf-8", "surrogateescape")
                elif what == "gplus_block":
                    p = mk_proto("gopherplus", config, job)
                    e = mk_entry({"selector": L("/x"), "ea": [[c["name"], c["value"]]]}, config)
                    s = p.getblock("+" + S(c["name"]), e)
                else:
                    raise ValueError(what)
                out.append({"out": L(s), "exc": None})
            except Exception as ex:  # noqa
                out.append({"out": None, "exc": type(ex).__name__ + ": " + str(ex)[:200]})
        return out

    def op_c06_mime(job):
        config = mk_config(job)
        ps = [mk_proto(k, config, job) for k in ("http", "wap", "gemini", "spartan")]
        out = []
        for m in job["inputs"]:
            m = S(m)
            out.append([L(ps[0].adjustmimetype(m)), L(ps[1].adjustmimetype(m)),
                        L(ps[2].adjust_mimetype(m)), L(ps[3].adjust_mimetype(m))])
        return out

    class LiveServer:
        """The real ThreadingTCPServer + GopherRequestHandler on an ephemeral port (demo certificate for the
        TLS protocols), serving world `w` from a thread of this process."""

        def __init__(self, w):
            import os
            import ssl
            import threading
            import pygopherd.server as pserver
            crt = os.path.join(drv.REPO, "testdata", "demo.crt")
            key = os.path.join(drv.REPO, "testdata", "demo.key")
            ctx = ssl.create_default_context(ssl.Purpose.CLIENT_AUTH)
            ctx.load_cert_chain(crt, key)
            self.cctx = ssl.SSLContext(ssl.PROTOCOL_TLS_CLIENT)
            self.cctx.check_hostname = False
            self.cctx.verify_mode = ssl.CERT_NONE
            self.srv = pserver.ThreadingTCPServer(w.config, ("127.0.0.1", 0), pserver.GopherRequestHandler, context=ctx)
            self.srv.daemon_threads = True
            self.th = threading.Thread(target=self.srv.serve_forever, kwargs={"poll_interval": 0.05}, daemon=True)
            self.th.start()

        def request(self, r):
            """r: {pieces | data, tls, pause_ms}: the pieces are written one after the other with a pause in
            between (TCP_NODELAY, so every piece travels on its own); the reply is read until the server closes."""
            import socket
            import time
            got, err = [], None
            t0 = time.time()
            s = socket.create_connection(self.srv.server_address[:2], timeout=15)
            try:
                s.setsockopt(socket.IPPROTO_TCP, socket.TCP_NODELAY, 1)
                if r.get("tls"):
                    s = self.cctx.wrap_socket(s)
                pieces = r["pieces"] if "pieces" in r else [r["data"]]
                for i, pc in enumerate(pieces):
                    s.sendall(drv.s2b(pc))
                    if i + 1 < len(pieces):
                        time.sleep(r.get("pause_ms", 30) / 1000.0)
                while True:
                    d = s.recv(1 << 16)
                    if not d:
                        break
                    got.append(d)
            except Exception as e:  # what a client would see
                err = type(e).__name__ + ": " + str(e)
            finally:
                try:
                    s.close()
                except Exception:
                    pass
            return {"out": drv.b2s(b"".join(got)), "exc": err, "secs": round(time.time() - t0, 3)}

        def close(self):
            self.srv.shutdown()
            self.srv.server_close()
            self.th.join(timeout=5)

    def live_spec(job):
        spec = dict(job)
        cfg = dict(spec.get("config") or {})
        pg = dict(cfg.get("pygopherd", {}))
        pg.update({"servername": "gopher.example", "advertisedport": "70", "timeout": "20"})
        cfg["pygopherd"] = pg
        spec["config"] = cfg
        return spec

    def op_c06_live(job):
        """Requests (each a list of `pieces`) to the real server over real sockets, see LiveServer."""
        w = drv.World(live_spec(job))
        live = LiveServer(w)
        res = []
        try:
            for r in job["requests"]:
                res.append(live.request(r))
        finally:
            live.close()
            w.close()
        return {"results": res}

    def op_c06_transports(job):
        """One world, one daemon working directory, every request served the way it says:
          "mem"  - in process, the reply collected in memory (no descriptor behind the output file);
          "fd"   - in process, the output file is an unbuffered socket file (a real descriptor, as the
                   real StreamRequestHandler has); a TLS connection is one as far as the protocol can tell;
          "live" - the real ThreadingTCPServer on an ephemeral port, real TCP and real TLS.
        All three run in THIS process: same environment, same working directory (job["cwd"]: "parent" = the
        directory above the root, "root", "slash", or a path relative to the root)."""
        import os
        import implops_site
        w = drv.World(live_spec(job))
        cwd0 = os.getcwd()
        live = None
        res = []
        try:
            where = job.get("cwd", "parent")
            os.chdir({"parent": w.parent, "root": w.root, "slash": "/"}.get(where) or os.path.join(w.root, where.lstrip("/")))
            for r in job["requests"]:
                tr = r.get("transport", "mem")
                data = drv.s2b(r["data"])
                if tr == "mem":
                    o = drv.serve_once(w.config, data, tls=r.get("tls", False))
                elif tr == "fd":
                    o = implops_site._serve_socket(drv, w.config, data, tls=r.get("tls", False))
                else:
                    if live is None:
                        live = LiveServer(w)
                    o = live.request(r)
                res.append({"out": o["out"], "exc": o["exc"], "secs": o["secs"]})
        finally:
            os.chdir(cwd0)
            if live is not None:
                live.close()
            w.close()
        return {"cwd": where, "results": res}

    OPS["c06_live"] = op_c06_live
    OPS["c06_transports"] = op_c06_transports
    OPS["c06_rows"] = op_c06_rows
    OPS["c06_geturl"] = op_c06_geturl
    OPS["c06_dirs"] = op_c06_dirs
    OPS["c13_pages"] = op_c13_pages
    OPS["c06_mime"] = op_c06_mime
