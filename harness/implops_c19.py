"""C19, implementation side: run the REAL pygopherd.initialization.initialize /
init_security with every privileged entry point substituted by a recorder that
can be told to fail at the k-th call.  Nothing of initialization.py is
re-implemented here; only the names it looks up (os, ssl, sighandlers, open,
pygopherd.server.<class>, pwd, grp, its own preparation helpers) are replaced
for the duration of one call and restored afterwards."""
import configparser
import errno
import io
import os
import shutil
import sys
import tempfile
import types

ROOT = "/srv/gopher"
UIDNAME = "alice"
GIDNAME = "staff"
CERT = "/etc/pg/cert.pem"
KEY = "/etc/pg/key.pem"
PIDFILE = "/run/pg.pid"
CONFNAME = "pygopherd.conf"
OPAQUE = ("init_config", "init_logger", "init_exceptions", "init_mimetypes")
# attributes of `os` that the preparation helpers need for real
OS_PASS = {"path", "access", "R_OK", "W_OK", "X_OK", "F_OK", "sep", "fspath", "getcwd", "environ", "name",
           "stat", "listdir", "curdir", "pardir", "linesep", "error", "PathLike", "fsencode", "fsdecode"}


class Sym(str):
    """A symbolic value: renders as its own text."""

    def __getitem__(self, i):
        if isinstance(i, int):
            return Sym("%s[%d]" % (str(self), i))
        return str.__getitem__(self, i)


# field names of pwd.struct_passwd / grp.struct_group, by tuple index
PW_FIELDS = ("pw_name", "pw_passwd", "pw_uid", "pw_gid", "pw_gecos", "pw_dir", "pw_shell")
GR_FIELDS = ("gr_name", "gr_passwd", "gr_gid", "gr_mem")


UID0NAME = "toor"
GID0NAME = "wheel"
# accounts whose numeric id is 0
ZERO_FIELDS = {"pwd.getpwnam(%s)" % UID0NAME: (2,), "grp.getgrnam(%s)" % GID0NAME: (2,)}


class Record(Sym):
    """Result of pwd.getpwnam / grp.getgrnam: indexable like the real struct
    sequence and with its named fields; field i renders as <call>[i]."""
    _fields = ()

    def __getitem__(self, i):
        if isinstance(i, int) and i in ZERO_FIELDS.get(str(self), ()):
            return 0
        return Sym.__getitem__(self, i)

    def __getattr__(self, name):
        if name in type(self)._fields:
            return self[type(self)._fields.index(name)]
        raise AttributeError(name)

    def __iter__(self):
        return iter([self[i] for i in range(len(type(self)._fields))])

    def __len__(self):
        return len(type(self)._fields)


class PwRecord(Record):
    _fields = PW_FIELDS


class GrRecord(Record):
    _fields = GR_FIELDS


class Injected:
    pass


UIDV = "pwd.getpwnam(%s)[2]" % UIDNAME
GIDV = "grp.getgrnam(%s)[2]" % GIDNAME


def start_creds(start, opts):
    """[ruid, euid, suid, rgid, egid, sgid, groups] the process starts with"""
    u = "0" if opts.get("uid0") else UIDV
    g = "0" if opts.get("gid0") else GIDV
    return {"root": ["0", "0", "0", "0", "0", "0", "(0)"],
            "launcher": [u, "0", "0", g, "0", "0", "(0)"],     # started through a set-uid-root launcher
            "dropped": [u, u, u, g, g, g, "()"]}[start]        # started as the account itself


class Creds:
    """The simulated credentials of the process (symbolic ids).  The set* calls
    change them with Linux semantics for a process allowed to make the change;
    refusal (EPERM) is not simulated — every call also fails in turn by injection."""

    def __init__(self, start, opts):
        self.start = start_creds(start, opts)
        (self.ruid, self.euid, self.suid, self.rgid, self.egid, self.sgid, self.groups) = self.start

    def as_list(self):
        return [self.ruid, self.euid, self.suid, self.rgid, self.egid, self.sgid, self.groups]

    @staticmethod
    def val(s):
        return 0 if s == "0" else Sym(s)

    def apply(self, name, a):
        keep = lambda new, old: old if new == "-1" else new   # noqa
        if name == "os.setgroups" and len(a) == 1:
            self.groups = a[0]
        elif name == "os.setuid" and len(a) == 1:
            if self.euid == "0":
                self.ruid = self.euid = self.suid = a[0]
            else:
                self.euid = a[0]
        elif name == "os.setgid" and len(a) == 1:
            if self.euid == "0":
                self.rgid = self.egid = self.sgid = a[0]
            else:
                self.egid = a[0]
        elif name == "os.seteuid" and len(a) == 1:
            self.euid = a[0]
        elif name == "os.setegid" and len(a) == 1:
            self.egid = a[0]
        elif name == "os.setreuid" and len(a) == 2:
            r, e = a
            new_e = keep(e, self.euid)
            if not (r == "-1" and (e == "-1" or e == self.ruid)):
                self.suid = new_e
            self.ruid, self.euid = keep(r, self.ruid), new_e
        elif name == "os.setregid" and len(a) == 2:
            r, e = a
            new_e = keep(e, self.egid)
            if not (r == "-1" and (e == "-1" or e == self.rgid)):
                self.sgid = new_e
            self.rgid, self.egid = keep(r, self.rgid), new_e
        elif name == "os.initgroups" and len(a) == 2:
            self.groups = "initgroups(%s,%s)" % (a[0], a[1])
        elif name == "os.setresuid" and len(a) == 3:
            self.ruid, self.euid, self.suid = keep(a[0], self.ruid), keep(a[1], self.euid), keep(a[2], self.suid)
        elif name == "os.setresgid" and len(a) == 3:
            self.rgid, self.egid, self.sgid = keep(a[0], self.rgid), keep(a[1], self.egid), keep(a[2], self.sgid)


def make_exc(cls):
    if cls == "XAgain":
        return OSError(errno.EAGAIN, os.strerror(errno.EAGAIN) + " (injected)")      # BlockingIOError
    if cls == "XIntr":
        return OSError(errno.EINTR, os.strerror(errno.EINTR) + " (injected)")        # InterruptedError
    if cls == "XNoMem":
        return OSError(errno.ENOMEM, os.strerror(errno.ENOMEM) + " (injected)")
    if cls == "XInUse":
        return OSError(errno.EADDRINUSE, os.strerror(errno.EADDRINUSE) + " (injected)")
    if cls == "XNotAvail":
        return OSError(errno.EADDRNOTAVAIL, os.strerror(errno.EADDRNOTAVAIL) + " (injected)")
    if cls == "XAccess":
        return OSError(errno.EACCES, os.strerror(errno.EACCES) + " (injected)")
    if cls == "XOS":
        return PermissionError(errno.EPERM, "Operation not permitted (injected)")
    if cls == "XKey":
        return KeyError("injected")
    return RuntimeError("injected")


class Recorder:
    def __init__(self, fail, cfgpath, fork_parent, start="root", opts=None):
        self.creds = Creds(start, opts or {})
        self.trace = []
        self.attempts = []
        self.n = 0
        self.fail = fail          # None or (k, cls)
        self.injected = None
        self.injected_at = {}
        self.cfgpath = cfgpath
        self.docroot = None       # real scratch directory standing for ROOT (the runs that go on to answer requests)
        self.fork_parent = fork_parent
        self.named = {}

    def render(self, x):
        import ssl
        from pygopherd.server import GopherRequestHandler
        if isinstance(x, Sym):
            return str(x)
        if x is None:
            return "None"
        if isinstance(x, tuple) and len(x) == 0:
            return "()"
        if isinstance(x, bool):
            return "True" if x else "False"
        if isinstance(x, int):
            return str(x)
        if isinstance(x, (tuple, list)) and all(isinstance(y, (int, Sym)) for y in x):
            return "(" + ",".join(self.render(y) for y in x) + ")"
        if isinstance(x, str):
            if self.docroot is not None and x == self.docroot:
                return ROOT
            return CONFNAME if x == self.cfgpath else x
        if x is ssl.Purpose.CLIENT_AUTH:
            return "ssl.Purpose.CLIENT_AUTH"
        if x is GopherRequestHandler:
            return "GopherRequestHandler"
        s = getattr(x, "_sym", None)
        if isinstance(s, str):
            return s
        return "_"

    def call(self, name, args, result=None):
        k = self.n
        self.n += 1
        rargs = [self.render(a) for a in args]
        self.attempts.append(name)
        span = 1 if self.fail is None or len(self.fail) < 3 else self.fail[2]
        if self.fail is not None and self.fail[0] <= k and (span is None or k < self.fail[0] + span):
            # fail = (k, class[, span]): calls k .. k+span-1 fail; span None: every call from k on
            exc = make_exc(self.fail[1])
            self.injected_at[id(exc)] = (exc, k)
            self.injected = exc
            raise exc
        self.trace.append([name, rargs])
        self.creds.apply(name, rargs)
        if result is None:
            return Sym("%s(%s)" % (name, ",".join(rargs)))
        return result() if callable(result) else result

    def note(self, name, args):
        self.trace.append([name, [self.render(a) for a in args]])


class FakeObj:
    """Result of a substituted constructor; every method call is recorded as <var>.<method>."""

    def __init__(self, rec, sym, var, results=None, opaque=False):
        self._rec = rec
        self._sym = sym
        self._var = var
        self._results = results or {}
        self._opaque = opaque

    def __getattr__(self, name):
        if name.startswith("__"):
            raise AttributeError(name)
        rec, var, results, opaque = self._rec, self._var, self._results, self._opaque

        def method(*a, **k):
            args = list(a) + list(k.values())
            if opaque:
                args = [Sym("_") for _ in args]
            return rec.call("%s.%s" % (var, name), args, (lambda: results[name]) if name in results else None)
        return method

    def __enter__(self):
        return self

    def __exit__(self, *a):
        return False


class ModProxy:
    """Stands for a module inside initialization.py: listed attributes pass
    through, every other callable is recorded (and NOT executed)."""

    def __init__(self, rec, real, prefix, passthrough, results=None, ctor_vars=None):
        self.__dict__.update(_rec=rec, _real=real, _prefix=prefix, _pass=passthrough,
                             _results=results or {}, _ctor=ctor_vars or {})

    def __getattr__(self, name):
        d = self.__dict__
        real = getattr(d["_real"], name)      # AttributeError propagates like on the real module
        if name in d["_pass"] or not callable(real) or isinstance(real, type) and issubclass(real, BaseException):
            return real
        rec, full = d["_rec"], d["_prefix"] + "." + name

        def fn(*a, **k):
            args = list(a) + list(k.values())
            if name in d["_ctor"]:
                var = d["_ctor"][name]
                if isinstance(var, tuple):        # (variable name, method results): arguments not compared
                    oargs = [Sym("_") for _ in args]
                    return rec.call(full, oargs, lambda: FakeObj(rec, full + "()", var[0], var[1], True))
                sym = "%s(%s)" % (full, ",".join(rec.render(x) for x in args))
                return rec.call(full, args, lambda: FakeObj(rec, sym, var))
            if name in d["_results"]:
                return rec.call(full, args, d["_results"][name])
            return rec.call(full, args)
        return fn


def write_config(repo, path, opts, root=None):
    cp = configparser.ConfigParser()
    cp.read(os.path.join(repo, "conf", "pygopherd.conf"))
    S = "pygopherd"
    alt = opts.get("alt") or [None, None, None]

    def spelled(option, canon):
        return alt[1] if alt[0] == option else canon
    cp.set(S, "usechroot", spelled("usechroot", "yes" if opts["chroot"] else "no"))
    cp.set(S, "timeout", "60")
    cp.set(S, "servername", "gopher.example")
    cp.remove_option(S, "advertisedport")
    cp.set(S, "root", root or ROOT)
    cp.set(S, "servertype", opts["stype"] if opts.get("stype") is not None else "ForkingTCPServer")
    cp.set(S, "port", "70")
    cp.set(S, "detach", spelled("detach", "yes" if opts["detach"] else "no"))
    cp.set(S, "mimetypes", os.path.join(repo, "conf", "mime.types"))
    cp.set("logger", "logmethod", "none")
    for opt in ("setuid", "setgid", "enable_tls", "tls_certfile", "tls_keyfile", "pidfile", "interface"):
        cp.remove_option(S, opt)
    if opts["uid"]:
        cp.set(S, "setuid", UID0NAME if opts.get("uid0") else UIDNAME)
    if opts["gid"]:
        cp.set(S, "setgid", GID0NAME if opts.get("gid0") else GIDNAME)
    if opts["tls"] == "off":
        cp.set(S, "enable_tls", spelled("enable_tls", "no"))
    elif opts["tls"] == "on":
        cp.set(S, "enable_tls", spelled("enable_tls", "yes"))
        cp.set(S, "tls_certfile", CERT)
        cp.set(S, "tls_keyfile", KEY)
    if opts["pid"]:
        cp.set(S, "pidfile", PIDFILE)
    with open(path, "w") as f:
        cp.write(f)


_MIME_DONE = {}


class FakeConn:
    """An accepted connection as the returned server's per-request code sees it: the request bytes
    are there to read, everything written is kept."""

    def __init__(self, drv, data):
        self._drv = drv
        self._data = data
        self.rfile = io.BytesIO(data)
        self.out = bytearray()
        self.files = []

    def makefile(self, mode="r", *a, **k):
        if "r" in mode:
            return self.rfile
        w = self._drv.KeepBytesIO()
        self.files.append(w)
        return w

    def send(self, b, *a):
        self.out += bytes(b)
        return len(bytes(b))

    def sendall(self, b, *a):
        self.out += bytes(b)

    def recv(self, n, flags=0):
        import socket
        if flags & socket.MSG_PEEK:
            return self._data[:n]
        return self.rfile.read(n)

    def fileno(self):
        return -1

    def getpeername(self):
        return ("10.77.77.77", 7777)

    def getsockname(self):
        return ("0.0.0.0", 70)

    def settimeout(self, *a):
        pass

    def setsockopt(self, *a):
        pass

    def shutdown(self, *a):
        pass

    def close(self):
        pass

    def written(self):
        out = bytes(self.out)
        for w in self.files:
            v = getattr(w, "final", None)
            if v is None:
                try:
                    v = w.getvalue()
                except Exception:
                    v = b""
            out += v
        return out


def answer(drv, server, selector):
    """One gopher request through the per-request code of the server object that initialize()
    returned (its own handler class, its own configuration), in this process."""
    conn = FakeConn(drv, selector.encode("utf-8", "surrogateescape") + b"\r\n")
    client = ("10.77.77.77", 7777)
    exc = None
    try:
        with drv.time_limit():
            threaded = getattr(server, "process_request_thread", None)
            if callable(threaded):
                threaded(conn, client)            # what the handler thread runs
            else:
                server.finish_request(server.wrap_socket(conn), client)   # what the forked child runs
                server.shutdown_request(conn)
    except BaseException as e:  # noqa
        exc = type(e).__name__ + ": " + str(e)
    return {"selector": selector, "out": drv.b2s(conn.written()), "exc": exc}


def shipped_servertypes():
    """Names of the server classes pygopherd.server ships (what `servertype` can name)."""
    import pygopherd.server as srv
    base = srv.BaseServer
    return sorted(n for n, c in vars(srv).items()
                  if isinstance(c, type) and c is not base and issubclass(c, base) and c.__module__ == srv.__name__)


def run_case(drv, tmp, entry, opts, fail, fork_parent, start="root", docroot=None, selectors=None):
    """One real start-up under substitution.  Returns the canonical outcome.
    docroot: a real scratch directory configured as the document root (rendered as ROOT in the
    record); selectors: requests put to the server object that initialize() returned."""
    import mimetypes
    import ssl as real_ssl
    import pygopherd as real_pkg
    import pygopherd.server as real_server
    from pygopherd import GopherExceptions, logger, sighandlers as real_sig, initialization as ini

    cfgpath = os.path.join(tmp, CONFNAME)
    write_config(drv.REPO, cfgpath, opts, docroot)
    rec = Recorder(tuple(fail) if fail else None, cfgpath, fork_parent, start, opts)
    rec.docroot = docroot
    cr = rec.creds
    server = None

    def patch_config(cfg):
        orig_set = cfg.set

        def rset(sec, opt, val=None):
            rec.note("config.set", [sec, opt, val])
            return orig_set(sec, opt, val)
        cfg.set = rset
        return cfg

    # the REAL pygopherd.server classes are constructed; what is substituted is the socket layer
    # underneath them (the name `socket` inside socketserver and inside pygopherd.server)
    import socket as real_socket
    import socketserver
    sock_proxy = ModProxy(rec, real_socket, "socket", set(),
                          results={"getfqdn": lambda: "gopher.example"},
                          ctor_vars={"socket": ("socket", {"getsockname": ("0.0.0.0", 70), "fileno": 99})})

    def fake_open(*a, **k):
        args = list(a) + list(k.values())
        return rec.call("open", args, lambda: FakeObj(rec, "open(%s)" % ",".join(rec.render(x) for x in args), "fd"))

    def lookup(fn, cls_):
        def f(*a, **k):
            args = list(a) + list(k.values())
            return rec.call(fn, args, lambda: cls_("%s(%s)" % (fn, ",".join(rec.render(x) for x in args))))
        return f
    fake_pwd = types.SimpleNamespace(getpwnam=lookup("pwd.getpwnam", PwRecord), getpwuid=lookup("pwd.getpwuid", PwRecord))
    fake_grp = types.SimpleNamespace(getgrnam=lookup("grp.getgrnam", GrRecord), getgrgid=lookup("grp.getgrgid", GrRecord))

    os_proxy = ModProxy(rec, os, "os", OS_PASS,
                        results={"fork": (lambda: 4242 if fork_parent else 0), "getpid": lambda: 12345,
                                 "getpgrp": lambda: 12345,
                                 "getuid": lambda: Creds.val(cr.ruid), "geteuid": lambda: Creds.val(cr.euid),
                                 "getgid": lambda: Creds.val(cr.rgid), "getegid": lambda: Creds.val(cr.egid),
                                 "getresuid": lambda: (Creds.val(cr.ruid), Creds.val(cr.euid), Creds.val(cr.suid)),
                                 "getresgid": lambda: (Creds.val(cr.rgid), Creds.val(cr.egid), Creds.val(cr.sgid)),
                                 "getgroups": lambda: [] if cr.groups == "()" else [Sym(cr.groups)]})
    ssl_proxy = ModProxy(rec, real_ssl, "ssl", {"Purpose", "SSLContext", "SSLError", "PROTOCOL_TLS_SERVER"},
                         ctor_vars={"create_default_context": "context"})
    sig_proxy = ModProxy(rec, real_sig, "sighandlers", set())

    originals = {f: getattr(ini, f) for f in OPAQUE if hasattr(ini, f)}

    def wrap(name, orig):
        def w(*a, **k):
            def doit():
                if name == "init_mimetypes":
                    # preparation step outside the subject of C19, identical for every run of this
                    # process (same mime.types, same encoding option): run the real thing once
                    if _MIME_DONE.get("done"):
                        return None
                    real_pkg.fileext.typemap.clear()
                    _MIME_DONE["done"] = True
                r = orig(*a, **k)
                if name == "init_config":
                    patch_config(r)
                return r
            return rec.call("local:" + name, list(a) + list(k.values()), doit)
        return w

    saved_globals = {k: ini.__dict__.get(k, Injected) for k in ("os", "ssl", "sighandlers", "open")}
    saved_sock = (socketserver.socket, real_server.socket)
    saved_mods = {k: sys.modules.get(k, Injected) for k in ("pwd", "grp")}
    saved_logger = {k: getattr(logger, k, Injected) for k in ("log", "priority", "facility", "syslogfunc")}
    saved_tb = GopherExceptions.tracebacks
    saved_enc = dict(mimetypes.encodings_map)
    kind, origin, excname = None, None, None
    if selectors:
        # a freshly started process: whatever pygopherd keeps at module level (cached root path,
        # handler list ...) is in its initial state BEFORE start-up and is not touched between
        # start-up and the requests — what start-up leaves there is what the requests meet
        drv.reset_lazies()
    try:
        ini.os, ini.ssl, ini.sighandlers, ini.open = os_proxy, ssl_proxy, sig_proxy, fake_open
        socketserver.socket = real_server.socket = sock_proxy
        sys.modules["pwd"], sys.modules["grp"] = fake_pwd, fake_grp
        for f, o in originals.items():
            setattr(ini, f, wrap(f, o))
        try:
            if entry == "initialize":
                server = ini.initialize(cfgpath)
            else:
                cfg = patch_config(originals["init_config"](cfgpath))
                logger.init(cfg)          # precondition of init_security in real life: the logger is set up
                ini.init_security(cfg)
            kind = "running"
        except SystemExit:
            kind = "exited"
        except BaseException as e:  # noqa
            kind = "abort"
            excname = type(e).__name__
            if id(e) in rec.injected_at and rec.injected_at[id(e)][0] is e:
                origin = rec.injected_at[id(e)][1]
    finally:
        socketserver.socket, real_server.socket = saved_sock
        for f, o in originals.items():
            setattr(ini, f, o)
        for k, v in saved_globals.items():
            if v is Injected:
                ini.__dict__.pop(k, None)
            else:
                ini.__dict__[k] = v
        for k, v in saved_mods.items():
            if v is Injected:
                sys.modules.pop(k, None)
            else:
                sys.modules[k] = v
        for k, v in saved_logger.items():
            if v is not Injected:
                setattr(logger, k, v)
        GopherExceptions.tracebacks = saved_tb
    failed_call = None
    if fail and fail[0] < len(rec.attempts):
        failed_call = rec.attempts[fail[0]]
    # the end state that matters to whoever connects afterwards: the configuration the RETURNED
    # server object hands to its request handlers, and what that server answers
    served_root, served_err, replies = None, None, None
    if kind == "running" and entry == "initialize":
        try:
            served_root = rec.render(str(server.config.get("pygopherd", "root")))
        except Exception as e:  # noqa
            served_err = type(e).__name__ + ": " + str(e)
        if selectors:
            replies = [answer(drv, server, sel) for sel in selectors]
    if selectors:
        drv.reset_lazies()
    return {"served_root": served_root, "served_err": served_err, "replies": replies, "kind": kind, "origin": origin, "exc": excname, "trace": rec.trace, "attempts": rec.n,
            "failed_call": failed_call, "start": start, "start_creds": cr.start, "final_creds": cr.as_list(), "attempted": rec.attempts}


def op_c19_sweep(job, drv):
    """For each configuration: the unfailed start-up, then every call failing in
    turn with each class; for detaching configurations also the parent side."""
    tmp = tempfile.mkdtemp(prefix="pgverif-c19-")
    out = []
    try:
        for cfgjob in job["configs"]:
            entry, opts = cfgjob["entry"], cfgjob["opts"]
            for start in cfgjob.get("starts", ["root"]):
                base = run_case(drv, tmp, entry, opts, None, False, start)
                out.append({"entry": entry, "opts": opts, "fail": None, "fork_parent": False, "start": start, "res": base})
                if entry == "initialize" and opts["detach"]:
                    out.append({"entry": entry, "opts": opts, "fail": None, "fork_parent": True, "start": start,
                                "res": run_case(drv, tmp, entry, opts, None, True, start)})
                for k in range(base["attempts"]):
                    extra = job.get("socket_classes", []) if base["attempted"][k].startswith("socket.") else []
                    for cls in list(job["classes"]) + list(extra):
                        out.append({"entry": entry, "opts": opts, "fail": [k, cls], "fork_parent": False, "start": start,
                                    "res": run_case(drv, tmp, entry, opts, [k, cls], False, start)})
                    # a resource that stays unavailable: the call at k and the following ones keep failing
                    for span in (cfgjob.get("persistent_spans") or []):
                        for cls in job.get("persistent_classes", []):
                            out.append({"entry": entry, "opts": opts, "fail": [k, cls, span], "fork_parent": False,
                                        "start": start, "res": run_case(drv, tmp, entry, opts, [k, cls, span], False, start)})
    finally:
        shutil.rmtree(tmp, ignore_errors=True)
    return out


def op_c19_one(job, drv):
    tmp = tempfile.mkdtemp(prefix="pgverif-c19-")
    try:
        return run_case(drv, tmp, job["entry"], job["opts"], job.get("fail"), job.get("fork_parent", False),
                        job.get("start", "root"))
    finally:
        shutil.rmtree(tmp, ignore_errors=True)


def op_c19_serve(job, drv):
    """For each configuration: the real start-up (no failure injected) with a real scratch tree as
    the configured document root — os.chroot / os.chdir are recorded, not executed, so the process
    keeps seeing the whole file system: "/" is still the real "/" — and then the given requests
    through the server object that initialize() returned.  {ROOT} in a selector stands for the
    absolute path of the scratch document root."""
    out = []
    for cfgjob in job["configs"]:
        w = drv.World({"tree": job["tree"]})
        tmp = tempfile.mkdtemp(prefix="pgverif-c19-")
        try:
            root = os.path.realpath(w.root)
            sels = [x.replace("{ROOT}", root) for x in job["selectors"]]
            res = run_case(drv, tmp, "initialize", cfgjob["opts"], None, False, cfgjob.get("start", "root"),
                           docroot=root, selectors=sels)
            for r in res["replies"] or []:
                r["selector"] = r["selector"].replace(root, "{ROOT}")
                r["out"] = r["out"].replace(root, "{ROOT}")
            out.append({"entry": "initialize", "opts": cfgjob["opts"], "fail": None, "fork_parent": False,
                        "start": cfgjob.get("start", "root"), "res": res})
        finally:
            w.close()
            shutil.rmtree(tmp, ignore_errors=True)
    return out


def register(OPS, drv):
    OPS["c19_sweep"] = lambda job: op_c19_sweep(job, drv)
    OPS["c19_one"] = lambda job: op_c19_one(job, drv)
    OPS["c19_serve"] = lambda job: op_c19_serve(job, drv)
    OPS["c19_servertypes"] = lambda job: shipped_servertypes()
