"""C18 — simpleTAL never lets data become markup, code or leftover state."""
import json

from common import Check, impl_run
import talgen
import talref
import talcommon as tc

PY_SNIPPETS = ["canary.append(1)", "canary.append('x') or 'PY<>'", "len(canary.append(2) or 'ab')",
               "__import__('builtins')._verif_canary.append(3)", "[canary.append(i) for i in (4, 5)]",
               "canary.append(6) or [1, 2]"]
HANDLER_PY = "__import__('builtins').__dict__.setdefault('_verif_canary', []).append('H') or 'RAN'"
HANDLER_TEMPLATES = {
    "t1.html.tal": '<html><body><p tal:content="python:%s">x</p></body></html>' % HANDLER_PY.replace('"', "&quot;"),
    "t2.html.tal": '<html><body tal:define="x python:%s"><p tal:condition="x">c</p><i tal:attributes="id python:%s">y</i>'
                   '<b tal:repeat="r python:%s" tal:omit-tag="python:%s">z</b><u tal:replace="string:${python:%s}">u</u>'
                   '</body></html>' % ((HANDLER_PY.replace('"', "&quot;"),) * 5),
    "plain.html.tal": '<html><body><p tal:content="selector">x</p></body></html>',
}
HANDLERS = "[tal.TALFileHandler, file.FileHandler, dir.DirHandler]"


def snapshot_diff(s0, s1, explicit):
    """what an expansion left behind in the caller's context (None when nothing)"""
    diffs = []
    for k in ("locals", "localStack", "repeatStack", "repeatMap", "other"):
        if s0.get(k) != s1.get(k):
            diffs.append({"field": k, "before": s0.get(k), "after": s1.get(k)})
    g0, g1 = s0["globals"], s1["globals"]
    for k in sorted(set(g1) - set(g0)):
        if k not in explicit:
            diffs.append({"field": "globals", "added": k, "value": g1[k]})
    for k in sorted(set(g0) - set(g1)):
        diffs.append({"field": "globals", "removed": k})
    for k in sorted(set(g0) & set(g1)):
        if g0[k] != g1[k] and k not in explicit:
            diffs.append({"field": "globals", "changed": k, "before": g0[k], "after": g1[k]})
    return diffs or None


def run(tier):
    chk = Check("C18", tier)
    chk.proofs(extra_files=["Corr/K17.v"])
    cov = chk.coverage
    rng = chk.rng
    found = False
    fnd = tc.Findings(chk)
    thorough = tier == "thorough"
    n_templates = 10000 if thorough else 600
    maxdepth = 7 if thorough else 4
    n_esc = n_templates * 5 // 12
    n_snap = n_templates * 4 // 12
    n_py = n_templates - n_esc - n_snap
    n_docs = 3000 if thorough else 400

    # ================= (b) escaping: skeleton differential =================
    esc_cases, esc_meta = [], []
    for i in range(n_esc):
        d = maxdepth if rng.random() < 0.6 else rng.choice(range(1, maxdepth + 1))
        case, nodes, lib_nodes = tc.make_case(rng, i, d, structure=False, want=["prog"] if i % 3 == 0 else [])
        shape = case["ctx"]
        a = dict(case, ctx={k: (v if k in ("k1", "k2") else talgen.benign_strings(v)) for k, v in shape.items()}, id=2 * i)
        b = dict(case, ctx={k: (v if k in ("k1", "k2") else talgen.vary_strings(rng, v, True)) for k, v in shape.items()},
                 id=2 * i + 1, want=[])
        esc_cases += [a, b]
        esc_meta.append((nodes, lib_nodes))
    # every element kind x every way data is written x breakout payloads: a hostile value against a benign value of
    # the same length, one statement per template
    E, T = talgen.Elem, talgen.Text
    payloads = ['"; </script><img onerror=x>', "</style><b>x</b>", "</textarea><i>x</i>", "</title><u>x</u>", "<b>bold</b>",
                '" onmouseover="x', "'><i>x</i>", "Fish &amp; Chips<b>x</b>", "--><b>x</b>", "]]><b>x</b>", "</pre><hr>", "</option><p>"]
    kinds = ["script", "style", "textarea", "title", "pre", "option", "p", "a", "td", "button", "select", "h1", "noscript", "iframe", "xmp"]
    att_names = ["onclick", "onmouseover", "href", "src", "style", "title", "value", "class", "data-x", "action", "srcdoc"]
    sweep = []
    for tag in kinds:
        for st in ("content", "content-text", "replace", "replace-text"):
            sweep.append((tag, {st.split("-")[0]: ("text v" if st.endswith("text") else "v")}))
        sweep.append((tag, {"attributes": "; ".join("%s v" % a for a in rng.sample(att_names, 3))}))
        sweep.append((tag, {"content": "string:a ${v} b", "attributes": "%s string:x${v}" % rng.choice(att_names)}))
    if not thorough:
        sweep = [x for x in sweep if x[0] in ("script", "style", "textarea", "title")] + rng.sample(sweep, 20)
    base = len(esc_cases)
    for j, (tag, tal) in enumerate(sweep):
        for pl in (payloads if thorough else rng.sample(payloads, 4) + [p_ for p_ in payloads if tag in p_]):
            nodes = [E("div", children=[E(tag, attrs=[("id", "k")], tal=dict(tal), children=[T("x = 1;")]), T(" after")])]
            case = {"main": talgen.serialize(nodes), "lib": None, "options": tc.OPTIONS_SPEC, "want": [], "allow_python": 0}
            a = dict(case, ctx={"v": ["s", "".join("abcdefgh"[i % 8] for i in range(len(pl)))]}, id=len(esc_cases))
            b = dict(case, ctx={"v": ["s", pl]}, id=len(esc_cases) + 1)
            esc_cases += [a, b]
            esc_meta.append((nodes, None))
    esc_res = tc.run_cases(esc_cases)
    esc_stats = {"pairs": 0, "skeleton_equal": 0, "both_raise": 0, "dynamic_insertions": 0}
    progs, prog_src = [], []
    worst = None
    for i, (nodes, lib_nodes) in enumerate(esc_meta):
        a, b = esc_cases[2 * i], esc_cases[2 * i + 1]
        ra, rb = esc_res[2 * i], esc_res[2 * i + 1]
        for which in ("main", "lib"):
            p = (ra.get("prog") or {}).get(which)
            if p is not None:
                progs.append(p)
                prog_src.append(a[which])
        if "compile_exc" in ra or "compile_exc" in rb:
            continue
        esc_stats["pairs"] += 1
        if ra["exc"] or rb["exc"]:
            if bool(ra["exc"]) == bool(rb["exc"]):
                esc_stats["both_raise"] += 1
                kind = ra["exc"].split(":")[0] + ":" + ra["exc"].split(":", 1)[1][:12]
                esc_stats.setdefault("raise_kinds", {})
                esc_stats["raise_kinds"][kind] = esc_stats["raise_kinds"].get(kind, 0) + 1
                continue
        dynamic = talgen.uses(nodes, lambda e: any(k in e.tal for k in ("content", "replace", "attributes")))
        esc_stats["dynamic_insertions"] += 1 if dynamic else 0
        chk.count(("esc", a["main"], json.dumps(b["ctx"], sort_keys=True)), nontrivial=dynamic)
        ska, skb = talref.skeleton(ra["out"]), talref.skeleton(rb["out"])
        if ska == skb and not ra["exc"] and not rb["exc"]:
            esc_stats["skeleton_equal"] += 1
            if dynamic:
                chk.sample({"kind": "escaping", "template": tc.short(a["main"], 240), "hostile_context": b["ctx"],
                            "output": tc.short(rb["out"], 240)}, limit=2)
            continue
        found = True
        rep = {"what": "context strings that differ only in content change the element/attribute skeleton of the output "
                       "(no `structure` in the template): data became markup",
               "case": tc.replay_doc(b, nodes, lib_nodes), "benign_context": a["ctx"],
               "output_benign": tc.short(ra["out"], 1500), "output_hostile": tc.short(rb["out"], 1500),
               "exception_benign": ra["exc"], "exception_hostile": rb["exc"]}
        if worst is None or len(a["main"]) < len(worst["case"]["template"]):
            worst = rep
    if worst is not None:
        chk.violation(worst, tag="escape-skeleton")

    # ================= (e) context snapshots + reference comparison =================
    snap_cases, snap_meta = [], []
    for i in range(n_snap):
        d = maxdepth if rng.random() < 0.6 else rng.choice(range(1, maxdepth + 1))
        case, nodes, lib_nodes = tc.make_case(rng, i, d, want=["snap", "prog"])
        if lib_nodes is None:
            case["want"].append("trace")
        if rng.random() < 0.015:
            # a statement given twice must be rejected by the compiler; where it is accepted, two tal:define
            # push the locals twice and pop them once
            case["main"] += '<p tal:define="x s1" tal:define="y s2">dup</p>'
            case["duplicate"] = True
            case["want"] = ["snap"]
        snap_cases.append(case)
        snap_meta.append((nodes, lib_nodes))
    snap_res = tc.run_cases(snap_cases)
    snap_stats = {"expansions": 0, "restored": 0, "raised": 0, "with_missing_paths_or_empty_repeats": 0,
                  "with_global_defines": 0}
    titems, tsrc = [], []
    worst = None
    for case, (nodes, lib_nodes), r in zip(snap_cases, snap_meta, snap_res):
        for which in ("main", "lib"):
            p = (r.get("prog") or {}).get(which)
            if p is not None:
                progs.append(p)
                prog_src.append(case[which])
        if "compile_exc" in r:
            if case.get("duplicate"):
                snap_stats["duplicate_statements_rejected"] = snap_stats.get("duplicate_statements_rejected", 0) + 1
            continue
        if r["exc"]:
            snap_stats["raised"] += 1       # an aborted expansion is not an expansion (what raises is C17's business)
            kind = r["exc"].split(":")[0] + ":" + r["exc"].split(":", 1)[1][:12]
            snap_stats.setdefault("raise_kinds", {})
            snap_stats["raise_kinds"][kind] = snap_stats["raise_kinds"].get(kind, 0) + 1
            continue
        snap_stats["expansions"] += 1
        explicit = talgen.explicit_globals(nodes) | (talgen.explicit_globals(lib_nodes) if lib_nodes else set())
        if explicit:
            snap_stats["with_global_defines"] += 1
        hard = ("nope" in case["main"] or "e1" in case["main"] or "nothing" in case["main"])
        snap_stats["with_missing_paths_or_empty_repeats"] += 1 if hard else 0
        chk.count(("snap", case["main"], json.dumps(case["ctx"], sort_keys=True)),
                  nontrivial=talgen.uses(nodes, lambda e: "define" in e.tal or "repeat" in e.tal))
        diff = snapshot_diff(r["snap0"], r["snap1"], explicit)
        tr = r.get("trace")
        if tr and "entries" in tr and not any(e is None for e in tr["entries"]) and tr["same_output"] and \
                not any(isinstance(e[1][-1], str) and e[1][-1] == "foreign" for e in tr["entries"]):
            titems.append((r["prog"]["main"], tr))
            tsrc.append(case)
        if diff is None:
            snap_stats["restored"] += 1
            continue
        found = True
        rep = {"what": "after the expansion the caller's context is not what it was (apart from explicit global defines)",
               "case": tc.replay_doc(case, nodes, lib_nodes), "differences": diff, "explicit_globals": sorted(explicit)}
        if case.get("duplicate"):
            rep["what"] += " — the template gives tal:define twice on one element and the compiler accepts it"
            fnd.add("duplicate-statement", rep, len(case["main"]))
            continue
        if worst is None or len(case["main"]) < len(worst["case"]["template"]):
            worst = rep
    if worst is not None:
        chk.violation(worst, tag="context-not-restored")

    # ================= (c) python: gate =================
    py_cases, py_meta = [], []
    for i in range(n_py):
        d = min(maxdepth, 4)
        case, nodes, lib_nodes = tc.make_case(rng, i, d, py=PY_SNIPPETS, lib_prob=0.0, want=["snap"])
        case["canary"] = True
        if not talgen.uses(nodes, lambda e: any("python:" in v for v in e.tal.values())):
            continue
        off = dict(case, allow_python=0)
        on = dict(case, allow_python=1, want=[])
        py_cases += [off, on]
        py_meta.append((nodes, lib_nodes))
    py_res = tc.run_cases(py_cases)
    py_stats = {"templates_with_python_paths": len(py_meta), "ran_while_disabled": 0, "ran_while_enabled": 0,
                "disabled_output_matches_reference": 0, "disabled_reference_compared": 0}
    worst = None
    for i, (nodes, lib_nodes) in enumerate(py_meta):
        off, on = py_cases[2 * i], py_cases[2 * i + 1]
        roff, ron = py_res[2 * i], py_res[2 * i + 1]
        if "compile_exc" in roff:
            continue
        chk.count(("py", off["main"]), nontrivial=bool(ron.get("canary")))
        if ron.get("canary"):
            py_stats["ran_while_enabled"] += 1
        if roff.get("canary"):
            py_stats["ran_while_disabled"] += 1
            found = True
            rep = {"what": "a python: expression was evaluated although allowPythonPath is off",
                   "case": tc.replay_doc(off, nodes, lib_nodes), "canary": roff["canary"], "output": tc.short(roff.get("out"), 1000)}
            if worst is None or len(off["main"]) < len(worst["case"]["template"]):
                worst = rep
            continue
        if roff["exc"] is None:
            try:
                exp = tc.reference(off, nodes, lib_nodes)
            except talref.OutOfScope:
                exp = None
            if exp is not None:
                py_stats["disabled_reference_compared"] += 1
                ok = exp == roff["out"] or talref.canon(exp) == talref.canon(roff["out"])
                if not ok:
                    try:
                        e13 = tc.reference(off, nodes, lib_nodes, pinned=("text_keyword",))
                    except talref.OutOfScope:
                        e13 = None
                    ok = e13 is not None and talref.canon(e13) == talref.canon(roff["out"])   # D13 is C17's finding
                if ok:
                    py_stats["disabled_output_matches_reference"] += 1
                else:
                    found = True
                    fnd.add("python-off-value",
                            {"what": "with allowPythonPath off a python: path must evaluate to false and nothing else changes",
                             "case": tc.replay_doc(off, nodes, lib_nodes), "expected": tc.short(exp, 1500),
                             "actual": tc.short(roff["out"], 1500)}, len(off["main"]))
    if worst is not None:
        chk.violation(worst, tag="python-gate")
    if py_meta and py_stats["ran_while_enabled"] == 0:
        chk.notes["python_canary"] = "canary never fired with allowPythonPath on: the gate check would be vacuous"
        found = True
        chk.violation({"what": "canary never fired with allowPythonPath on (harness problem)"}, tag=None, no_input=True)

    # through handlers/tal.py and its configuration option
    tree = [{"path": name, "data": text, "mtime": 1700000000} for name, text in HANDLER_TEMPLATES.items()]
    worlds = []
    import configparser

    def expected_gate(val):
        """what ConfigParser.getboolean says: True / False / 'invalid'; absent = the handler's default (on)"""
        if val is None:
            return True
        cp = configparser.ConfigParser()
        cp.read_dict({"s": {"o": val}})
        try:
            return cp.getboolean("s", "o")
        except ValueError:
            return "invalid"
    spellings = [None]
    for base in ("1", "yes", "true", "on", "0", "no", "false", "off"):
        for v in (base, base.upper(), base.capitalize(), "".join(c.upper() if i % 2 else c for i, c in enumerate(base))):
            if v not in spellings:
                spellings.append(v)
    spellings += ["maybe", "2", "nope", "enabled", "disabled", "-1"]
    if not thorough:
        spellings = [None] + rng.sample(spellings[1:-6], 12) + ["False", "OFF", "No", "maybe", "2"]
        spellings = list(dict.fromkeys(spellings))
    for val in spellings:
        cfg = {"handlers.HandlerMultiplexer": {"handlers": HANDLERS}}
        if val is not None:
            cfg["handlers.tal.TALFileHandler"] = {"allowpythonpath": val}
        worlds.append({"tree": tree, "config": cfg, "selectors": ["/" + n for n in HANDLER_TEMPLATES],
                       "label": "absent" if val is None else val})
    hres = impl_run([{"op": "tal_handler", "worlds": worlds}])[0]
    if not hres["ok"]:
        raise RuntimeError(hres["err"] + hres.get("tb", ""))
    hstats = {"requests": 0, "spellings": len(spellings), "ran_while_disabled": 0, "ran_while_enabled": 0, "not_run_while_enabled": 0,
              "served": 0, "invalid_value_requests": 0, "ran_with_invalid_value": 0}
    for h in hres["res"]:
        hstats["requests"] += 1
        want = expected_gate(None if h["label"] == "absent" else h["label"])
        uses_py = h["selector"] != "/plain.html.tal"
        tpl = HANDLER_TEMPLATES[h["selector"][1:]]
        conf = {"handlers.tal.TALFileHandler": ({} if h["label"] == "absent" else {"allowpythonpath": h["label"]})}
        if "<html>" in h["out"]:
            hstats["served"] += 1
        chk.count(("handler", h["label"], h["selector"]), nontrivial=uses_py)
        if want == "invalid":
            hstats["invalid_value_requests"] += 1
            if h["canary"] or "RAN" in h["out"]:
                hstats["ran_with_invalid_value"] += 1
                found = True
                fnd.add("python-gate-handler",
                        {"what": "TALFileHandler evaluated a python: expression although allowpythonpath has a value that "
                                 "ConfigParser.getboolean rejects", "config": conf, "file": h["selector"], "template": tpl,
                         "response_latin1": h["out"][:600], "canary": h["canary"]}, len(tpl))
            continue
        if want is False and (h["canary"] or (uses_py and "RAN" in h["out"])):
            hstats["ran_while_disabled"] += 1
            found = True
            fnd.add("python-gate-handler",
                    {"what": "TALFileHandler evaluated a python: expression although allowpythonpath is off in the configuration "
                             "(ConfigParser.getboolean reads this spelling as false)",
                     "config": conf, "file": h["selector"], "template": tpl,
                     "response_latin1": h["out"][:600], "canary": h["canary"]}, len(tpl))
        if want is True and uses_py:
            if h["canary"] and "RAN" in h["out"]:
                hstats["ran_while_enabled"] += 1
            else:
                hstats["not_run_while_enabled"] += 1
                found = True
                fnd.add("python-gate-handler",
                        {"what": "allowpythonpath is on (or absent: the documented default) but the python: expressions of the "
                                 "served template were not evaluated", "config": conf, "file": h["selector"], "template": tpl,
                         "response_latin1": h["out"][:600], "exception": h["exc"]}, 10 ** 6)
    valid_requests = hstats["requests"] - hstats["invalid_value_requests"]
    if hstats["served"] < valid_requests or hstats["ran_while_enabled"] == 0:
        found = True
        chk.violation({"what": "handler-level python gate check did not exercise the handler (harness problem)",
                       "stats": hstats, "first": hres["res"][:2]}, tag=None, no_input=True)

    # ================= (d0) TAL-free documents SERVED by the real TALFileHandler =================
    # request -> GopherRequestHandler -> HandlerMultiplexer -> TALFileHandler.canhandlerequest / getentry / write:
    # the bytes on the wire are the UTF-8 encoding of what the engine alone writes for the file's text, and that is
    # equivalent to the file itself (script / style / comment content byte for byte)
    sdocs = []
    for i in range(200 if thorough else 40):
        src = talgen.gen_document(rng, maxdepth=min(maxdepth, 4), cdata=True)
        if i % 2 == 0:
            src += rng.choice(["<script>s = 'Gr\u00fc\u00df';</script>", "<style>a:after { content: '\u00e9\u2713' }</style>",
                               "<!-- \u00fc\u00df -->", "<p title=\"\u00e9\">\u00fc \U0001F600</p>"])
        sdocs.append(src)
    stree = [{"path": "d%d.html.tal" % i, "data": src.encode("utf-8").decode("latin-1"), "mtime": 1700000000}
             for i, src in enumerate(sdocs)]
    sres = impl_run([{"op": "tal_handler", "worlds": [{"tree": stree, "config": {"handlers.HandlerMultiplexer": {"handlers": HANDLERS}},
                                                        "selectors": ["/d%d.html.tal" % i for i in range(len(sdocs))],
                                                        "label": "served", "direct": True}]}])[0]
    if not sres["ok"]:
        raise RuntimeError(sres["err"] + sres.get("tb", ""))
    served_stats = {"documents": 0, "with_non_ascii": 0, "equal_to_engine_output": 0, "equivalent_to_file": 0, "engine_rejects": 0}
    for src, h in zip(sdocs, sres["res"]):
        if "direct" not in h:
            served_stats["engine_rejects"] += 1
            continue
        served_stats["documents"] += 1
        served_stats["with_non_ascii"] += 1 if any(ord(c) > 127 for c in src) else 0
        chk.count(("served", src), nontrivial=any(ord(c) > 127 for c in src))
        same = h["exc"] is None and h["out"] == h["direct"]
        try:
            text = h["out"].encode("latin-1").decode("utf-8")
            equiv = talref.canon(text) == talref.canon(src)
        except UnicodeDecodeError:
            equiv = False
        served_stats["equal_to_engine_output"] += 1 if same else 0
        served_stats["equivalent_to_file"] += 1 if equiv else 0
        if not (same and equiv):
            found = True
            fnd.add("passthrough-served",
                    {"what": "a TAL-free .html.tal file served through TALFileHandler is not the file: " +
                             ("the response differs from the UTF-8 encoding of the engine's own expansion of the file"
                              if not same else "the response is not equivalent to the file"),
                     "file_utf8": src, "response_latin1": h["out"], "engine_expansion_latin1": h["direct"], "exception": h["exc"],
                     "handlers": HANDLERS}, len(src))
    # same-process histories: a served template (or a template it includes through dir/…) is rewritten between two
    # requests; the second response must follow the file as it is NOW, whatever its mtime says
    hist_worlds, hist_meta = [], []
    T0 = 1700000000
    for i in range(24 if thorough else 8):
        one, two = "version-ONE-%d" % i, "version-TWO-%d" % i
        if rng.random() < 0.5:
            two = two + " and more text"            # another size
        keep = rng.choice(["same-second", "same-second", "same-mtime-exact", "new-mtime"])
        mt2 = {"same-second": T0 + rng.choice([0.0, 0.25, 0.9]), "same-mtime-exact": T0, "new-mtime": T0 + 5}[keep]
        include = (i % 2 == 1)
        if include:
            page = '<html><body><div metal:use-macro="dir/footer/macros/f">x</div><p tal:content="selector">s</p></body></html>'
            tree = [{"path": "page.html.tal", "data": page, "mtime": T0},
                    {"path": "footer.html.tal", "data": '<p metal:define-macro="f">%s</p>' % one, "mtime": T0}]
            steps = [{"serve": "/page.html.tal", "id": "first"},
                     {"write": "footer.html.tal", "data": '<p metal:define-macro="f">%s</p>' % two, "mtime": mt2},
                     {"serve": "/page.html.tal", "id": "second"}]
        else:
            tree = [{"path": "page.html.tal", "data": "<html><body><p>%s</p><script>v = '%s';</script></body></html>" % (one, one), "mtime": T0}]
            steps = [{"serve": "/page.html.tal", "id": "first"},
                     {"write": "page.html.tal", "data": "<html><body><p>%s</p><script>v = '%s';</script></body></html>" % (two, two), "mtime": mt2},
                     {"serve": "/page.html.tal", "id": "second"}]
        hist_worlds.append({"tree": tree, "config": {"handlers.HandlerMultiplexer": {"handlers": HANDLERS}}, "selectors": [],
                            "steps": steps, "label": "history-%d" % i})
        hist_meta.append({"one": one, "two": two, "rewritten": "included footer" if include else "the served file", "mtime": keep,
                          "tree": tree, "steps": steps})
    hres2 = impl_run([{"op": "tal_handler", "worlds": hist_worlds}])[0]
    if not hres2["ok"]:
        raise RuntimeError(hres2["err"] + hres2.get("tb", ""))
    hist_stats = {"histories": len(hist_worlds), "followed_the_file": 0, "same_second_rewrites": sum(1 for m in hist_meta if m["mtime"] != "new-mtime")}
    for k, m in enumerate(hist_meta):
        first, second = hres2["res"][2 * k], hres2["res"][2 * k + 1]
        ok1 = m["one"] in first["out"] and first["exc"] is None
        ok2 = m["two"] in second["out"] and m["one"] not in second["out"].replace(m["two"], "") and second["exc"] is None
        chk.count(("history", k, m["mtime"], m["rewritten"]), nontrivial=True)
        if ok1 and ok2:
            hist_stats["followed_the_file"] += 1
            continue
        found = True
        fnd.add("served-stale", {"what": "a .html.tal file (or a template it includes) was rewritten between two requests in the same "
                                         "process; the second response does not follow the current file",
                                 "rewritten": m["rewritten"], "mtime_after_rewrite": m["mtime"], "files": m["tree"], "steps": m["steps"],
                                 "first_response_latin1": first["out"], "second_response_latin1": second["out"],
                                 "exceptions": [first["exc"], second["exc"]]}, len(m["two"]) + (100 if m["rewritten"] != "the served file" else 0))
    served_stats["histories"] = hist_stats
    if served_stats["documents"] == 0 or served_stats["with_non_ascii"] == 0:
        found = True
        chk.violation({"what": "served-template leg did not serve anything (harness problem)", "stats": served_stats,
                       "first": sres["res"][:1]}, tag=None, no_input=True)

    # ================= (d) TAL-free documents expanded twice =================
    doc_cases = []
    for i in range(n_docs):
        cd = (i % 5 == 4)
        src = talgen.gen_document(rng, maxdepth=min(maxdepth, 5), cdata=cd)
        if cd and "<script" not in src and "<style" not in src:
            cd = False
        doc_cases.append({"id": i, "main": src, "lib": None, "ctx": {}, "options": None, "want": ["twice", "prog"], "_cdata": cd})
    doc_res = tc.run_cases(doc_cases)
    doc_stats = {"documents": 0, "with_script_or_style": 0, "fixpoint": 0, "equivalent": 0, "single_output_command": 0}
    worst = {}
    for case, r in zip(doc_cases, doc_res):
        if "compile_exc" in r or r.get("exc"):
            found = True
            fnd.add("passthrough-raises", {"what": "a TAL-free document from the document grammar cannot be compiled / expanded",
                                           "document": case["main"], "exception": r.get("compile_exc") or r.get("exc")},
                    len(case["main"]))
            continue
        doc_stats["documents"] += 1
        doc_stats["with_script_or_style"] += 1 if case["_cdata"] else 0
        p = r["prog"]["main"]
        progs.append(p)
        prog_src.append(case["main"])
        if len(p["cmds"]) <= 1:
            doc_stats["single_output_command"] += 1
        fix = r.get("out2") == r["out"]
        equiv = talref.canon(r["out"]) == talref.canon(case["main"])
        doc_stats["fixpoint"] += 1 if fix else 0
        doc_stats["equivalent"] += 1 if equiv else 0
        chk.count(("doc", case["main"]), nontrivial=("<" in case["main"]))
        if fix and equiv:
            if doc_stats["documents"] % 97 == 0:
                chk.sample({"kind": "passthrough", "document": tc.short(case["main"], 200), "expansion": tc.short(r["out"], 200)}, limit=6)
            continue
        found = True
        tag = "passthrough-cdata" if case["_cdata"] else "passthrough"
        rep = {"what": ("a document without TAL/METAL does not expand to an equivalent document" if not equiv else
                        "the second expansion of a TAL-free document changes it"),
               "document": case["main"], "first_expansion": r["out"], "second_expansion": r.get("out2"),
               "equivalent_to_source": equiv, "second_is_fixpoint": fix, "exception_second": r.get("exc2")}
        if tag not in worst or len(case["main"]) < len(worst[tag]["document"]):
            worst[tag] = rep
    for tag, rep in sorted(worst.items()):
        chk.violation(rep, tag=tag)

    # ================= K =================
    notwf = 0
    for p, src in zip(progs, prog_src):
        why = tc.py_wf(p)
        if why is not None:
            notwf += 1
            found = True
            fnd.add("program-not-wf", {"what": "compiled program is not structurally well formed: " + why, "template": src,
                                       "commandList": p["cmds"], "symbolTable": p["sym"], "macros": p["macros"]}, len(src))
    fnd.flush()
    mism, err, nsh = tc.k_wf("C18", "k_wf", progs)
    mism_t, err_t, nsh_t = tc.k_trace("C18", "k_trace", titems)
    # the python gate and the escaping functions at component level
    ecases = tc.eval_cases(rng, 60 if thorough else 16, 30)
    for ec in ecases:
        ec["allow"] = 0 if ecases.index(ec) % 4 else 1      # mostly disabled
    mism_e, err_e, nsh_e, esrc, eskipped = tc.k_eval("C18", "k_eval", ecases)
    chk.coverage["evaluations"] += len(esrc)
    for x in esrc[::41]:
        chk.count(("eval", x["expression"], x["allow_python"]), nontrivial="python:" in x["expression"])
    gate_leaks = [x for x in esrc if not x["allow_python"] and x["real"]["evals"] > 0]
    for x in gate_leaks[:1]:
        found = True
        chk.violation({"what": "Context.evaluate ran eval() although allowPythonPath is off", "expression": x["expression"],
                       "context": x["context"], "python_evaluations": x["real"]["evals"]}, tag="python-gate")
    mism_o, err_o, nsh_o, oin, orows = tc.k_out("C18", "k_out", rng, 600 if thorough else 200)
    chk.coverage["evaluations"] += len(oin)
    for (tag, atts, v), row in zip(oin, orows):
        # direct statement on the implementation: data written as text / attribute value brings no markup of its own
        text_part = row[2][len("<p>"):-len("</p>")]
        attr_part = row[4][len('<p title="'):row[4].index('" id="i">')] if '" id="i">' in row[4] else None
        if "<" in text_part or ">" in text_part or attr_part is None or any(c in attr_part for c in '<>"'):
            found = True
            fnd.add("escape-function", {"what": "a value written as text or attribute value keeps a markup character",
                                        "value": v, "as_text": row[2], "as_attribute": row[4]}, len(v))
    fnd.flush()
    k_broken = bool(mism or err or mism_t or err_t or mism_e or err_e or mism_o or err_o)
    k_detail = {"wf_mismatches": [prog_src[i] for i in mism[:5]],
                "trace_mismatches": [{"template": tsrc[i]["main"], "context": tsrc[i]["ctx"]} for i in mism_t[:5]],
                "evaluate_mismatches": [esrc[i] for i in mism_e[:5]], "output_mismatches": [oin[i] for i in mism_o[:5]],
                "errors": [err, err_t, err_e, err_o]}
    cov["correspondence"] = {"programs_checked_wf_in_coq": len(progs), "wf_mismatches": len(mism), "wf_shards": nsh,
                             "vm_traces_followed_in_coq": len(titems), "trace_mismatches": len(mism_t),
                             "trace_steps": sum(len(t["entries"]) for _, t in titems), "trace_shards": nsh_t,
                             "evaluate_expressions": len(esrc), "evaluate_mismatches": len(mism_e),
                             "evaluate_python_paths_disabled": sum(1 for x in esrc if not x["allow_python"] and "python:" in x["expression"]),
                             "output_function_cases": len(oin), "output_mismatches": len(mism_o),
                             "errors": [e for e in (err, err_t, err_e, err_o) if e]}
    cov["oracle"] = {"escaping": esc_stats, "context_snapshots": snap_stats, "python_gate": py_stats,
                     "python_gate_via_handler": hstats, "passthrough": doc_stats, "passthrough_served": served_stats, "programs_not_wf": notwf,
                     "grammar_exclusions": tc.GRAMMAR_EXCLUSIONS}
    cov["rule"] = ("(b) templates without `structure` expanded under two contexts that differ only in string contents (benign vs "
                   "markup metacharacters, same lengths/emptiness): html.parser skeletons (element + attribute names) must agree; "
                   "(c) python: expressions with a side-effect canary in every expression position, allowPythonPath off/on, and "
                   ".html.tal files served by the real TALFileHandler with allowpythonpath no/false/0/yes/absent; (d) TAL-free "
                   "documents from a document grammar (nesting, void elements, optional end tags, quoting styles, entities, "
                   "comments, doctype, PIs, boolean attributes; every 5th with script/style): first expansion equivalent to the "
                   "source as html.parser token stream, second expansion a fixpoint; (e) Context locals/globals/localStack/"
                   "repeatStack/repeatMap before vs after every expansion, incl. missing paths, empty repeats, false conditions, "
                   "`nothing`; real programs evaluated by wf_program and replayed by the abstract VM inside Coq; non-trivial = "
                   "the template inserts data / defines or repeats / has python: paths that fire when enabled")
    if k_broken:
        chk.correspondence_broken("K17 (wf_program / VM trace / Context.evaluate / output functions) on the C18 templates", k_detail, found)
    chk.finish_proofs(found)
    chk.assumptions += [
        "html.parser is the arbiter of `markup` (skeleton) and of document equivalence; valueless attributes are read as name=name "
        "(what simpleTAL writes for minimised boolean attributes)",
        "an expansion that raises is not counted as an expansion for the context-restoration clause",
        "python: side effects are observed through a canary list; with the gate open the canary must fire (non-vacuity)",
        "marked sections (<![CDATA[ ]]>) and mis-nested end tags are outside the document grammar",
    ]
    return chk.finish("proof")


def replay(path):
    with open(path) as f:
        rep = json.load(f)
    if "document" in rep:
        r = tc.run_cases([{"id": 0, "main": rep["document"], "lib": None, "ctx": {}, "options": None, "want": ["twice"]}])[0]
        print("document :", rep["document"])
        print("first    :", r.get("out"))
        print("second   :", r.get("out2"))
        ok = r.get("out2") == r.get("out") and talref.canon(r["out"]) == talref.canon(rep["document"])
        print("status   :", "ok" if ok else "FAILS")
        return 0 if ok else 1
    if "case" in rep:
        case, nodes, lib_nodes = tc.case_from_replay(rep["case"])
        case["canary"] = True
        r = tc.run_cases([case])[0]
        print("template:", case["main"])
        print("context :", json.dumps(case["ctx"]))
        print("actual  :", repr(r.get("out")), r.get("exc") or "", "canary:", r.get("canary"))
        if "benign_context" in rep:
            r2 = tc.run_cases([dict(case, ctx=rep["benign_context"])])[0]
            same = talref.skeleton(r["out"]) == talref.skeleton(r2["out"])
            print("skeletons equal:", same)
            return 0 if same else 1
        if r.get("snap0"):
            explicit = talgen.explicit_globals(nodes) if nodes else set()
            d = snapshot_diff(r["snap0"], r["snap1"], explicit)
            print("context differences:", d)
            return 0 if not d and not r.get("canary") else 1
    print(json.dumps(rep, indent=1)[:3000])
    return 1
