"""C20, implementation side: requests served through the REAL
GopherRequestHandler.handle (impl_driver.serve_once) with a wfile that fails at
write k — and at every later write — with an error of the requested class."""
import errno
import gc
import io
import os
import re
import socket
import sys

CLIENT = ("10.77.77.77", "7777")
OTHER_CLIENT = ("10.99.99.99", "9999")
MARK = "##C20-FAULT##"
LOGRE = re.compile(r"^(\S+) \[(\w+)/(\w+)\] EXCEPTION (\w+): ")


def make_error(cls):
    if cls == "EPIPE":
        return OSError(errno.EPIPE, os.strerror(errno.EPIPE))            # -> BrokenPipeError, two arguments
    if cls == "ECONNRESET":
        return OSError(errno.ECONNRESET, os.strerror(errno.ECONNRESET))  # -> ConnectionResetError
    return socket.timeout("timed out")                                   # one argument, strerror None


class Wfile:
    """Stands for the socket file of the connection.  Counts write calls; the
    writes with index fail_at .. fail_at+span-1 raise (span None: every write
    from fail_at on — the connection is gone for good)."""

    def __init__(self, drv, events=None, fail_at=None, cls=None, span=None):
        self.drv = drv
        self.events = events
        self.fail_at = fail_at
        self.span = span
        self.cls = cls
        self.n = 0
        self.buf = io.BytesIO()
        self.closed = False
        self.final = b""
        self.faulted = False
        self.interleave = None

    def write(self, data):
        k = self.n
        self.n += 1
        if self.fail_at is not None and k >= self.fail_at and (self.span is None or k < self.fail_at + self.span):
            self.failing = True
            if not self.faulted:
                self.faulted = True
                self.drv._logsink.append(MARK)
                if self.interleave is not None:
                    # another connection, from another address, is served to the end at this very
                    # moment (what a threading server does all the time)
                    saved = list(self.drv._logsink)
                    try:
                        self.interleave()
                    finally:
                        other = [l for l in self.drv._logsink]
                        self.drv._logsink[:] = saved + ["##OTHER## " + l for l in other]
            raise make_error(self.cls)
        self.failing = False
        if self.events is not None:
            self.events.append("W")
        return self.buf.write(data)

    def flush(self):
        if getattr(self, "failing", False):
            raise make_error(self.cls)

    def close(self):
        self.final = self.buf.getvalue()
        self.closed = True

    def fileno(self):
        raise io.UnsupportedOperation("fileno")

    def getvalue(self):
        return self.buf.getvalue()


def fd_snapshot():
    out = {}
    for name in os.listdir("/proc/self/fd"):
        try:
            out[name] = os.readlink("/proc/self/fd/" + name)
        except OSError:
            pass   # the descriptor of the listing itself
    return out


def children():
    """Processes whose parent is this process (live or zombie): [pid, state, command]."""
    pids = set()
    try:
        for tid in os.listdir("/proc/self/task"):
            with open("/proc/self/task/%s/children" % tid) as f:
                pids.update(f.read().split())
    except OSError:
        pids = {n for n in os.listdir("/proc") if n.isdigit()}
    me = str(os.getpid())
    out = []
    for name in sorted(pids, key=int):
        try:
            with open("/proc/%s/stat" % name) as f:
                st = f.read()
        except OSError:
            continue
        comm = st[st.index("(") + 1:st.rindex(")")]
        rest = st[st.rindex(")") + 2:].split()
        if rest[1] == me:
            out.append([int(name), rest[0], comm])
    return out


def fd_new(before, after):
    return sorted("%s -> %s" % (k, v) for k, v in after.items() if before.get(k) != v)


class Tracker:
    """Records open/close of files opened through pygopherd.handlers.base (the
    VFS_Real.open primitive) and FileNotFound records, in order with the writes."""

    def __init__(self, drv):
        self.drv = drv
        self.events = []

    def install(self):
        import pygopherd.handlers.base as hbase
        from pygopherd import logger
        self.hbase, self.logger = hbase, logger
        self.saved_log = logger.log
        ev = self.events

        def tlog(msg):
            if " EXCEPTION FileNotFound: " in msg:
                ev.append("N")
            self.saved_log(msg)
        logger.log = tlog
        # the end of the classification phase: ProtocolMultiplexer.getProtocol returns (or raises)
        import pygopherd.protocols.ProtocolMultiplexer as pm
        self.pm, self.saved_get = pm, pm.getProtocol

        def tget(*a, **k):
            try:
                return self.saved_get(*a, **k)
            finally:
                ev.append("|")
        pm.getProtocol = tget

        def mk(base):
            class T(base):
                _done = False

                def close(self):
                    if not self._done:
                        self._done = True
                        ev.append(self._tag_close)
                    return super().close()
            return T
        TR, TW = mk(io.BufferedReader), mk(io.BufferedWriter)

        def topen(filepath, mode="r", errors=None):
            fr = sys._getframe(2)
            ref = fr.f_code.co_name == "__init__" and fr.f_code.co_filename.endswith("ZIP.py")
            raw = io.FileIO(filepath, mode.replace("b", "").replace("t", "") or "r")
            f = (TW if ("w" in mode or "a" in mode) else TR)(raw)
            f._tag_close = "c" if ref else "C"
            ev.append("R" if ref else "O")
            if "b" in mode:
                return f
            return io.TextIOWrapper(f, errors=errors)
        hbase.open = topen

    def remove(self):
        self.pm.getProtocol = self.saved_get
        self.logger.log = self.saved_log
        self.hbase.__dict__.pop("open", None)


def post_fault_records(log):
    if MARK not in log:
        return None
    out = []
    for line in log[log.index(MARK) + 1:]:
        m = LOGRE.match(line)
        if m:
            out.append([m.group(4), m.group(1) == CLIENT[0], m.group(2)])
    return out


def op_c20_sweep(job, drv):
    w = drv.World(job)
    res = []
    try:
        for rq in job["requests"]:
            data = drv.s2b(rq["data"])
            tls = rq.get("tls", False)
            # ---- the unfaulted run: the shape of the response ----
            drv.reset_lazies()
            tr = Tracker(drv)
            wf = Wfile(drv, events=tr.events)
            gc.collect()
            fd0 = fd_snapshot()
            tr.install()
            try:
                base = drv.serve_once(w.config, data, tls=tls, client=CLIENT, wfile=wf)
            finally:
                tr.remove()
            gc.collect()
            leak0 = fd_new(fd0, fd_snapshot())
            kids0 = children()
            served_by = None
            for line in base["log"]:
                m = re.match(r"^\S+ \[(\w+)/\w+\]", line)
                if m and m.group(1) != "None":
                    served_by = m.group(1)
                    break
            entry = {"name": rq["name"], "served_by": served_by, "events": "".join(tr.events), "writes": wf.n, "exc": base["exc"],
                     "children": kids0,
                     "out": drv.b2s(wf.final[:200]), "log": base["log"][-4:], "fd_left": leak0, "cases": []}
            ks = range(wf.n) if job.get("every_index", True) else sorted(set([0, wf.n // 2, max(wf.n - 1, 0)]))
            for k in ks:
                for span in job.get("spans", [None]):
                    for cls in job["classes"]:
                        gc.collect()
                        before = fd_snapshot()
                        fw = Wfile(drv, fail_at=k, cls=cls, span=span)
                        if job.get("interleave", True):
                            fw.interleave = lambda: drv.serve_once(w.config, b"/small.txt\r\n", tls=False,
                                                                   client=OTHER_CLIENT)
                        r = drv.serve_once(w.config, data, tls=tls, client=CLIENT, wfile=fw)
                        nogc = fd_new(before, fd_snapshot())
                        gc.collect()
                        aftergc = fd_new(before, fd_snapshot())
                        kids = [c for c in children() if c[0] not in [x[0] for x in kids0]]
                        for pid, _, _ in kids:        # do not let one leftover spoil the next case
                            try:
                                os.kill(pid, 9)
                                os.waitpid(pid, 0)
                            except OSError:
                                pass
                        entry["cases"].append({"k": k, "span": span, "cls": cls, "exc": r["exc"], "children": kids,
                                               "records": post_fault_records(r["log"]), "writes": fw.n,
                                               "fd_nogc": nogc, "fd_gc": aftergc, "log": r["log"][-5:]})
            res.append(entry)
    finally:
        w.close()
    return res


# ----------------------------------------------------------------------------
# live leg: the real ThreadingTCPServer, real sockets, clients that go away
# ----------------------------------------------------------------------------
def op_c20_live(job, drv):
    """Starts pygopherd's own ThreadingTCPServer (ephemeral port, demo certificate,
    send/receive timeout from the configuration) in this process and lets real
    clients fail in the middle of a response: reset (SO_LINGER 0), plain close,
    or stop reading until the server's send timeout expires.  After every client:
    the EXCEPTION records of that connection, whatever reached
    socketserver.handle_error, and /proc/self/fd against the baseline taken
    after a warm-up (gc.collect() first)."""
    import socket as so
    import ssl
    import struct
    import threading
    import time
    import traceback
    import pygopherd.server as pserver

    spec = dict(job)
    cfg = dict(spec.get("config") or {})
    pg = dict(cfg.get("pygopherd", {}))
    pg.update({"servername": "gopher.example", "advertisedport": "70", "timeout": str(job.get("timeout", 1))})
    cfg["pygopherd"] = pg
    spec["config"] = cfg
    w = drv.World(spec)
    crt = os.path.join(drv.REPO, "testdata", "demo.crt")
    key = os.path.join(drv.REPO, "testdata", "demo.key")
    ctx = ssl.create_default_context(ssl.Purpose.CLIENT_AUTH)
    ctx.load_cert_chain(crt, key)
    cctx = ssl.SSLContext(ssl.PROTOCOL_TLS_CLIENT)
    cctx.check_hostname = False
    cctx.verify_mode = ssl.CERT_NONE
    srv = pserver.ThreadingTCPServer(w.config, ("127.0.0.1", 0), pserver.GopherRequestHandler, context=ctx)
    escaped = []
    srv.handle_error = lambda request, client_address: escaped.append(traceback.format_exc()[-600:])
    th = threading.Thread(target=srv.serve_forever, kwargs={"poll_interval": 0.02}, daemon=True)
    th.start()
    # every accepted connection ends in shutdown_request (finally-clause of process_request_thread)
    done = [0]
    made = [0]
    orig_shutdown_request = srv.shutdown_request

    def counted_shutdown(request):
        try:
            return orig_shutdown_request(request)
        finally:
            done[0] += 1
    srv.shutdown_request = counted_shutdown

    def idle(limit=15.0):
        t0 = time.time()
        while done[0] < made[0] and time.time() - t0 < limit:
            time.sleep(0.005)
        return done[0] >= made[0]

    def client(r, complete):
        s = so.create_connection(srv.server_address[:2], timeout=10,
                                 source_address=(r.get("source", "127.0.0.1"), 0))
        made[0] += 1
        got = 0
        err = None
        try:
            if r.get("tls"):
                s = cctx.wrap_socket(s)
            s.sendall(drv.s2b(r["data"]))
            how = "complete" if complete else r["how"]
            want = None if how == "complete" else r.get("read_before", 0)
            while want is None or got < want:
                d = s.recv(min(1 << 16, (want - got) if want else 1 << 16))
                if not d:
                    break
                got += len(d)
            if r.get("overlap") and not complete:
                # while this transfer is under way another client, from another address, is served to the end
                o = so.create_connection(srv.server_address[:2], timeout=10, source_address=(r["overlap"], 0))
                made[0] += 1
                try:
                    o.sendall(b"/small.txt\r\n")
                    while o.recv(1 << 16):
                        pass
                finally:
                    o.close()
                time.sleep(0.05)
            if how == "stall":
                # stop reading until the server's send timeout (SO_SNDTIMEO) has fired
                t0 = time.time()
                while time.time() - t0 < 4 * float(job.get("timeout", 1)) + 4 and \
                        not any(" EXCEPTION " in line for line in list(drv._logsink)):
                    time.sleep(0.05)
            if how in ("reset", "stall"):
                s.setsockopt(so.SOL_SOCKET, so.SO_LINGER, struct.pack("ii", 1, 0))
        except Exception as e:  # noqa
            err = type(e).__name__ + ": " + str(e)
        finally:
            try:
                s.close()
            except Exception:
                pass
        return got, err

    out = {"port": srv.server_address[1], "clients": []}
    try:
        # warm-up: every request once to the end (imports, mime tables, directory caches, TLS session setup)
        seen = set()
        for r in job["clients"]:
            if r["data"] not in seen:
                seen.add(r["data"])
                client(r, True)
        idle()
        gc.collect()
        fd0 = fd_snapshot()
        kids0 = [c[0] for c in children()]
        for r in job["clients"]:
            del drv._logsink[:]
            del escaped[:]
            got, err = client(r, False)
            settled = idle()
            nogc = fd_new(fd0, fd_snapshot())
            gc.collect()
            left = fd_new(fd0, fd_snapshot())
            time.sleep(0.05)
            kids = [c for c in children() if c[0] not in kids0]
            for pid, _, _ in kids:
                try:
                    os.kill(pid, 9)
                    os.waitpid(pid, 0)
                except OSError:
                    pass
            recs = []
            for line in list(drv._logsink):
                m = LOGRE.match(line)
                if m:
                    recs.append([m.group(4), m.group(1), m.group(2)])
            # what the server itself says it received on this connection: its access-log line
            served_by = None
            for line in list(drv._logsink):
                m = re.match(r"^(\S+) \[(\w+)/\w+\]: ", line)
                if m and m.group(1) == r.get("source", "127.0.0.1") and m.group(2) != "None":
                    served_by = m.group(2)
                    break
            out["clients"].append({"name": r["name"], "source": r.get("source", "127.0.0.1"), "served_by": served_by, "received": got, "client_error": err, "settled": settled,
                                   "records": recs, "escaped": list(escaped), "fd_nogc": nogc, "fd_left": left,
                                   "children": kids,
                                   "log": list(drv._logsink)[-4:]})
    finally:
        srv.shutdown()
        srv.server_close()
        th.join(timeout=5)
        w.close()
    return out


def register(OPS, drv):
    OPS["c20_sweep"] = lambda job: op_c20_sweep(job, drv)
    OPS["c20_live"] = lambda job: op_c20_live(job, drv)
