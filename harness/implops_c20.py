"""C20, implementation side: requests served through the REAL
GopherRequestHandler.handle (impl_driver.serve_once) with a wfile that fails at
write k — and at every later write — with an error of the requested class."""
import errno
import gc
import io
import os
import re
import socket
import sys

CLIENT = ("10.77.77.77", "7777")
MARK = "##C20-FAULT##"
LOGRE = re.compile(r"^(\S+) \[(\w+)/(\w+)\] EXCEPTION (\w+): ")


def make_error(cls):
    if cls == "EPIPE":
        return OSError(errno.EPIPE, os.strerror(errno.EPIPE))            # -> BrokenPipeError, two arguments
    if cls == "ECONNRESET":
        return OSError(errno.ECONNRESET, os.strerror(errno.ECONNRESET))  # -> ConnectionResetError
    return socket.timeout("timed out")                                   # one argument, strerror None


class Wfile:
    """Stands for the socket file of the connection.  Counts write calls; the
    writes with index fail_at .. fail_at+span-1 raise (span None: every write
    from fail_at on — the connection is gone for good)."""

    def __init__(self, drv, events=None, fail_at=None, cls=None, span=None):
        self.drv = drv
        self.events = events
        self.fail_at = fail_at
        self.span = span
        self.cls = cls
        self.n = 0
        self.buf = io.BytesIO()
        self.closed = False
        self.final = b""
        self.faulted = False

    def write(self, data):
        k = self.n
        self.n += 1
        if self.fail_at is not None and k >= self.fail_at and (self.span is None or k < self.fail_at + self.span):
            self.failing = True
            if not self.faulted:
                self.faulted = True
                self.drv._logsink.append(MARK)
            raise make_error(self.cls)
        self.failing = False
        if self.events is not None:
            self.events.append("W")
        return self.buf.write(data)

    def flush(self):
        if getattr(self, "failing", False):
            raise make_error(self.cls)

    def close(self):
        self.final = self.buf.getvalue()
        self.closed = True

    def fileno(self):
        raise io.UnsupportedOperation("fileno")

    def getvalue(self):
        return self.buf.getvalue()


def fd_snapshot():
    out = {}
    for name in os.listdir("/proc/self/fd"):
        try:
            out[name] = os.readlink("/proc/self/fd/" + name)
        except OSError:
            pass   # the descriptor of the listing itself
    return out


def fd_new(before, after):
    return sorted("%s -> %s" % (k, v) for k, v in after.items() if before.get(k) != v)


class Tracker:
    """Records open/close of files opened through pygopherd.handlers.base (the
    VFS_Real.open primitive) and FileNotFound records, in order with the writes."""

    def __init__(self, drv):
        self.drv = drv
        self.events = []

    def install(self):
        import pygopherd.handlers.base as hbase
        from pygopherd import logger
        self.hbase, self.logger = hbase, logger
        self.saved_log = logger.log
        ev = self.events

        def tlog(msg):
            if " EXCEPTION FileNotFound: " in msg:
                ev.append("N")
            self.saved_log(msg)
        logger.log = tlog

        def mk(base):
            class T(base):
                _done = False

                def close(self):
                    if not self._done:
                        self._done = True
                        ev.append(self._tag_close)
                    return super().close()
            return T
        TR, TW = mk(io.BufferedReader), mk(io.BufferedWriter)

        def topen(filepath, mode="r", errors=None):
            fr = sys._getframe(2)
            ref = fr.f_code.co_name == "__init__" and fr.f_code.co_filename.endswith("ZIP.py")
            raw = io.FileIO(filepath, mode.replace("b", "").replace("t", "") or "r")
            f = (TW if ("w" in mode or "a" in mode) else TR)(raw)
            f._tag_close = "c" if ref else "C"
            ev.append("R" if ref else "O")
            if "b" in mode:
                return f
            return io.TextIOWrapper(f, errors=errors)
        hbase.open = topen

    def remove(self):
        self.logger.log = self.saved_log
        self.hbase.__dict__.pop("open", None)


def post_fault_records(log):
    if MARK not in log:
        return None
    out = []
    for line in log[log.index(MARK) + 1:]:
        m = LOGRE.match(line)
        if m:
            out.append([m.group(4), m.group(1) == CLIENT[0], m.group(2)])
    return out


def op_c20_sweep(job, drv):
    w = drv.World(job)
    res = []
    try:
        for rq in job["requests"]:
            data = drv.s2b(rq["data"])
            tls = rq.get("tls", False)
            # ---- the unfaulted run: the shape of the response ----
            drv.reset_lazies()
            tr = Tracker(drv)
            wf = Wfile(drv, events=tr.events)
            gc.collect()
            fd0 = fd_snapshot()
            tr.install()
            try:
                base = drv.serve_once(w.config, data, tls=tls, client=CLIENT, wfile=wf)
            finally:
                tr.remove()
            gc.collect()
            leak0 = fd_new(fd0, fd_snapshot())
            entry = {"name": rq["name"], "events": "".join(tr.events), "writes": wf.n, "exc": base["exc"],
                     "out": drv.b2s(wf.final[:200]), "log": base["log"][-4:], "fd_left": leak0, "cases": []}
            ks = range(wf.n) if job.get("every_index", True) else sorted(set([0, wf.n // 2, max(wf.n - 1, 0)]))
            for k in ks:
                for span in job.get("spans", [None]):
                    for cls in job["classes"]:
                        gc.collect()
                        before = fd_snapshot()
                        fw = Wfile(drv, fail_at=k, cls=cls, span=span)
                        r = drv.serve_once(w.config, data, tls=tls, client=CLIENT, wfile=fw)
                        nogc = fd_new(before, fd_snapshot())
                        gc.collect()
                        aftergc = fd_new(before, fd_snapshot())
                        entry["cases"].append({"k": k, "span": span, "cls": cls, "exc": r["exc"],
                                               "records": post_fault_records(r["log"]), "writes": fw.n,
                                               "fd_nogc": nogc, "fd_gc": aftergc, "log": r["log"][-5:]})
            res.append(entry)
    finally:
        w.close()
    return res


def register(OPS, drv):
    OPS["c20_sweep"] = lambda job: op_c20_sweep(job, drv)
