"""C09 — gophermap files are rendered line for line as documented.

K: the real BuckGophermapHandler (component level: entries after prepare(); end to
end: the Gopher0 menu bytes) against Model/Gophermap.v evaluated inside Coq.
Oracle: a Python twin of the DOCUMENTS (doc/pygopherd.txt, doc/standards/gophermap.txt,
url.txt) — independent of the model and of the code — against the real entries and
against what every protocol renders.
Legs: small generated worlds (wf / padded / raising streams, plain tree and inside a ZIP archive, abstracts on/off),
histories in one long-lived process, overlapping requests, and LARGE maps (size_leg: file sizes at / around / beyond
4 KiB .. 1 MiB, thousands of lines, single lines of up to 300 kB, last line with and without its newline)."""
import html
import io
import posixpath
import re
import urllib.parse
import zipfile

from common import Check, coq_eval, coq_str, coq_bool, coq_opt, coq_list, impl_run, impl_run_parallel
import gen

SRV, PORT = "gopher.example", 70
CONFIG = {
    "pygopherd": {"abstract_headers": "off", "abstract_entries": "never"},
    "protocols.gemini.GeminiProtocol": {"footer": None},
    "protocols.gemini.SpartanProtocol": {"footer": None},
}
DEPTH_DIRS = ["", "d1", "d1/d2", "d1/d2/d3"]
PRE = "From Coq Require Import ZArith."
IMPORTS = "Lib.Str Corr.K09"


def u(b):
    """bytes -> str the way pygopherd decodes file content and names"""
    return b.decode("utf-8", "surrogateescape")


def lat(b):
    return b.decode("latin-1")


# ----------------------------------------------------------------------------
# the documents' reading (twin of Model/GophermapSpec.v; never looks at the code)
# ----------------------------------------------------------------------------
def chomp(line):
    if line.endswith("\n"):
        line = line[:-1]
    if line.endswith("\r"):
        line = line[:-1]
    return line


def clean(f):
    return f == "" or not (f[0].isspace() or f[-1].isspace())


def twin_wf(line):
    body = chomp(line)
    if "\n" in body:
        return False
    fields = body.split("\t")
    if len(fields) == 1:
        return clean(body)
    if len(fields) > 4 or len(fields[0]) < 2 or not all(clean(f) for f in fields):
        return False
    port = fields[3] if len(fields) == 4 else ""
    return port == "" or (port.isascii() and port.isdigit() and len(port) <= 4300)


def twin_item(dirsel, line):
    """(type, description, selector, host, port): host/port None = this server"""
    body = chomp(line)
    if "\t" not in body:
        return ("i", body, "fake", "(NULL)", 0)
    fields = body.split("\t") + ["", "", ""]
    first, sel, host, port = fields[0], fields[1], fields[2], fields[3]
    typ, desc = first[:1], first[1:]
    if sel == "":
        sel = desc
    if not (sel.startswith("/") or sel.startswith("URL:")):
        sel = ("/" + sel) if dirsel == "/" else (dirsel + "/" + sel)
    return (typ, desc, sel, host or None, int(port) if port else None)


def doc_dir(selector, is_file):
    """the directory a gophermap belongs to: for <dir>/gophermap the directory itself,
    for a *.gophermap file 'the directory that the gophermap file is in'"""
    return posixpath.dirname(selector) if is_file else selector


def split_lines(data):
    out, i = [], 0
    while i < len(data):
        j = data.find(b"\n", i)
        if j < 0:
            out.append(data[i:])
            break
        out.append(data[i:j + 1])
        i = j + 1
    return out


# ----------------------------------------------------------------------------
# generators
# ----------------------------------------------------------------------------
ATOMS = [b"a", b"b", b"e", b"Z", b"0", b"7", b" ", b" ", b".", b"-", b"&", b"<", b">", b'"', b"'", b"\xc3\xa9",
         b"\xe2\x82\xac", b"\xae", b"\xc3", b"=", b":", b"/", b"+", b"%", b"?", b"#", b"\\", b"_", b"~", b"\xf0\x9f\x90\xbf"]
TYPES = [b"0", b"1", b"1", b"0", b"7", b"9", b"h", b"I", b"g", b"s", b"i", b"5", b"+", b"T", b"M"]
HOSTS = [b"remote.example.org", b"10.1.2.3", b"gopher.floodgap.com", b"(NULL)", b"h\xc3\xb6st.example", b"error.host"]
PORTS = [b"70", b"7070", b"0", b"007", b"65535", b"1", b"105"]
URLS = [b"URL:http://example.org/", b"/URL:http://example.org/a?b=c", b"URL:ftp://ftp.example.org/pub/",
        b"URL:mailto:someone@example.org", b"URL:https://example.org/x%20y", b"/URL:https://example.org/",
        b"URL:telnet://bbs.example.org:23/", b"/URL:mailto:admin@example.org", b"URL:news:comp.infosystems.gopher",
        b"/URL:tel:+15551234567", b"URL:xmpp:room@conference.example.org", b"URL:sms:+15551234567", b"/URL:news:alt.test",
        b"/URL:ftp://ftp.example.org/"]
GEN_PREFIX = [b""]      # selector of the archive when the gophermaps are generated for the inside of a ZIP file
ZIPSEL = "/T.zip"
# every character str.isspace() accepts, except LF (ends the line) and TAB (separates fields), plus a few combinations
PAD = [chr(c).encode("utf-8") for c in range(0x3001) if chr(c).isspace() and c not in (9, 10)] + [b"  ", b" \r", b"\r", b" \x0b "]


def gen_text(rng, lo, hi):
    n = rng.randrange(lo, hi + 1)
    t = b"".join(rng.choice(ATOMS) for _ in range(n)).strip(b" ")
    if len(t) < lo:
        t += b"x" * (lo - len(t))
    if t[:2] in (b"=>", b"=:"):           # would read as a link line in text/gemini; not a gophermap matter
        t = b"x" + t
    return t


def tree_for(maps, sidecars=None):
    """maps: {latin-1 path: bytes}.  Content of every depth: some files, a sub directory."""
    tree = []
    for d in DEPTH_DIRS:
        p = d + "/" if d else ""
        if d:
            tree.append({"path": d, "kind": "dir"})
        for name, data in (("a.txt", "alpha\n"), ("b b.txt", "bravo\n"), ("img.gif", "GIF89a"), ("\xae.txt", "raw\n"),
                           ("caf\xc3\xa9.txt", "utf8\n"), ("sub/s.txt", "sierra\n")):
            tree.append({"path": p + name, "data": data})
    for path, data in maps.items():
        tree.append({"path": path, "data": lat(data)})
    for path, data in (sidecars or {}).items():
        tree.append({"path": path, "data": lat(data)})
    for e in tree:
        e["mtime"] = 1_700_000_000
    return tree


def gen_abstract(rng):
    """a plain abstract: 1-3 lines of text, no white space at line ends, at most one blank line inside"""
    ls = [gen_text(rng, 1, 30) for _ in range(rng.randrange(1, 4))]
    if len(ls) > 1 and rng.random() < 0.2:
        ls.insert(1, b"")
    return b"\n".join(ls) + (b"\n" if rng.random() < 0.8 else b"")


def gen_sidecars(rng, density):
    """sidecar files (doc/pygopherd.txt ABSTRACTS AND INFO; [GopherEntry] eaexts): <dir>/.abstract, <file>.abstract, and
    the other extended-attribute files, for directories, ordinary files and the stand-alone map files alike"""
    sc = {}
    for d in DEPTH_DIRS:
        p = d + "/" if d else ""
        for name in (".abstract", "a.txt.abstract", "sub/.abstract", "x.gophermap.abstract", "b b.txt.abstract",
                     "img.gif.abstract", "sub/s.txt.abstract"):
            if rng.random() < density:
                sc[p + name] = gen_abstract(rng)
        for name in (".keywords", "a.txt.keywords", ".ask", ".3d", "x.gophermap.keywords", "a.txt.ask"):
            if rng.random() < density / 2:
                sc[p + name] = gen_abstract(rng)
    return sc


def abstract_lines(data):
    """the lines of an abstract file as they are shown (the file is 'interpreted as the abstract')"""
    if data is None:
        return []
    ls = u(data).split("\n")
    if ls and ls[-1] == "":
        ls.pop()
    return ls


def tree_index(tree):
    """selector -> ('dir', None) | ('file', bytes) for a symlink-free scratch tree"""
    idx = {"": ("dir", None)}
    for e in tree:
        parts = e["path"].split("/")
        for k in range(1, len(parts)):
            idx.setdefault("/" + u("/".join(parts[:k]).encode("latin-1")), ("dir", None))
        sel = "/" + u(e["path"].encode("latin-1"))
        idx[sel] = ("dir", None) if e.get("kind") == "dir" else ("file", e.get("data", "").encode("latin-1"))
    return idx


def expected_layout(idx, absmode, selector, is_file, entries, proto):
    """What a listing consists of besides the entries (config comments of abstract_headers / abstract_entries):
    first the lines of the LISTED object's own abstract (<dir>/.abstract for a directory, <file>.abstract for a
    stand-alone map file), then every entry, each followed by the lines of its own abstract when it is a link to an
    existing local file or directory that has one.  Returns [("hdr", text) | ("line", i) | ("abs", i, text)]."""
    if absmode is None:
        return [("line", i) for i in range(len(entries))]
    headers, mode = absmode
    doabs = mode == "always" or (mode == "unsupported" and proto not in ("gopherplus", "sgopherplus"))
    lay = []
    if headers:
        key = selector + ".abstract" if is_file else ("" if selector == "/" else selector) + "/.abstract"
        lay += [("hdr", t) for t in abstract_lines(idx.get(key, (None, None))[1])]
    for i, e in enumerate(entries):
        lay.append(("line", i))
        if doabs and e["host"] is None and e["port"] is None:
            sel = e["selector"]
            canon = sel[:-1] if sel.endswith("/") else sel
            node = idx.get(canon)
            if node is not None:
                key = canon + "/.abstract" if node[0] == "dir" else sel + ".abstract"
                lay += [("abs", i, t) for t in abstract_lines(idx.get(key, (None, None))[1])]
    return lay


ZHANDLERS = ("[url.HTMLURLHandler, gophermap.BuckGophermapHandler, mbox.MaildirFolderHandler, mbox.MaildirMessageHandler, "
             "UMN.UMNDirHandler, html.HTMLFileTitleHandler, mbox.MBoxMessageHandler, mbox.MBoxFolderHandler, "
             "ZIP.ZIPHandler, file.FileHandler]")
ZCONFIG = dict(CONFIG, **{"handlers.HandlerMultiplexer": {"handlers": ZHANDLERS}, "handlers.ZIP.ZIPHandler": {"enabled": "true"}})


def zip_tree(maps):
    """the same content as tree_for(maps), packed into T.zip (names are UTF-8: a ZIP cannot be written with
    undecodable names through zipfile; that is C16's subject), next to a few real files of the surrounding site"""
    buf = io.BytesIO()
    members = {""}
    with zipfile.ZipFile(buf, "w", zipfile.ZIP_DEFLATED) as zf:
        for e in tree_for(maps):
            if e.get("kind", "file") != "file" or "\xae" in e["path"]:
                continue
            name = e["path"].encode("latin-1").decode("utf-8")
            zf.writestr(zipfile.ZipInfo(name, date_time=(2023, 11, 14, 12, 0, 0)), e["data"].encode("latin-1"))
            parts = name.split("/")
            for k in range(1, len(parts) + 1):
                members.add("/".join(parts[:k]))
    tree = [{"path": "T.zip", "data": lat(buf.getvalue()), "mtime": 1_700_000_000},
            {"path": "a.txt", "data": "alpha\n", "mtime": 1_700_000_000},
            {"path": "sub/s.txt", "data": "sierra\n", "mtime": 1_700_000_000}]
    return tree, sorted(members)


def existing_selectors(tree):
    ex = {""}
    for e in tree:
        parts = e["path"].split("/")
        for k in range(1, len(parts) + 1):
            ex.add("/" + u("/".join(parts[:k]).encode("latin-1")))
    return sorted(ex)


def selector_choices(depth):
    d = DEPTH_DIRS[depth]
    nxt = DEPTH_DIRS[depth + 1].split("/")[-1].encode() if depth + 1 < len(DEPTH_DIRS) else b"sub"
    rel_ok = [b"a.txt", b"b b.txt", b"sub", b"sub/s.txt", b"sub/", b"\xae.txt", b"caf\xc3\xa9.txt", b"img.gif",
              b"x.gophermap", b"gophermap", nxt]
    rel_no = [b"nope.txt", b"sub/none", b"zz z", b"A.TXT", b"x.gophermap/a.txt"]
    abs_ok = [b"/", b"/d1", b"/d1/a.txt", b"/d1/d2/sub/s.txt", b"/a.txt", b"/d1/d2/d3/", b"/d1/d2/x.gophermap",
              b"/d1/\xae.txt", b"/sub"]
    abs_no = [b"/nothing", b"/d1/none.txt", b"/x", b"/d9/a.txt"]
    if GEN_PREFIX[0]:
        # inside an archive: absolute selectors of the archive's own content, and a few of the site around it
        abs_ok = [GEN_PREFIX[0] + a if a != b"/" else GEN_PREFIX[0] for a in abs_ok] + [b"/", b"/a.txt", b"/sub/s.txt"]
        abs_no = [GEN_PREFIX[0] + a for a in abs_no] + [b"/d1/a.txt", b"/nothing"]
    return rel_ok, rel_no, abs_ok, abs_no


def gen_selector(rng, depth):
    rel_ok, rel_no, abs_ok, abs_no = selector_choices(depth)
    k = rng.randrange(10)
    if k < 3:
        return rng.choice(rel_ok)
    if k < 5:
        return rng.choice(rel_no)
    if k < 7:
        return rng.choice(abs_ok)
    if k < 8:
        return rng.choice(abs_no)
    return rng.choice(URLS)


def gen_wf_link(rng, depth, force_relative=False):
    typ = rng.choice(TYPES)
    r = rng.random()
    if r < 0.25:
        desc = rng.choice(selector_choices(depth)[0] + URLS[:1])      # description doubles as selector
    else:
        desc = gen_text(rng, 1, 24)
        if rng.random() < 0.1:
            desc = b" " + desc
    first = typ + desc
    nf = rng.choice([1, 2, 2, 2, 3, 4, 4])
    if force_relative:
        return first + b"\t" + rng.choice(selector_choices(depth)[0][:4])
    fields = [first]
    if nf >= 2:
        fields.append(gen_selector(rng, depth) if rng.random() < 0.85 else b"")
    else:
        fields.append(b"")
    if nf >= 3:
        fields.append(rng.choice(HOSTS) if rng.random() < 0.7 else b"")
    if nf >= 4:
        fields.append(rng.choice(PORTS) if rng.random() < 0.75 else b"")
    return b"\t".join(fields)


def gen_wf_line(rng, depth):
    k = rng.randrange(10)
    if k == 0:
        return b""
    if k < 4:
        return gen_text(rng, 0, 40)
    if k == 4:
        return b"i" + gen_text(rng, 1, 30) + b"\tfake\t(NULL)\t0"
    return gen_wf_link(rng, depth)


def pad(rng, f):
    a = rng.choice(PAD) if rng.random() < 0.6 else b""
    b = rng.choice(PAD) if rng.random() < 0.6 else b""
    return a + f + b


def gen_padded_line(rng, depth):
    """not well-formed by the documents, yet the code does not raise"""
    k = rng.randrange(9)
    if k == 0:
        return pad(rng, gen_text(rng, 0, 30)) + b" "
    if k == 1:
        return rng.choice(PAD) + gen_text(rng, 1, 30)
    if k == 2:
        fs = gen_wf_link(rng, depth).split(b"\t")
        return b"\t".join(pad(rng, f) for f in fs)
    if k == 3:                                                     # empty description, selector given
        return rng.choice(TYPES) + b"\t" + rng.choice(selector_choices(depth)[0] + selector_choices(depth)[1] + [b"/d1/a.txt"])
    if k == 4:                                                     # more than four fields
        return gen_wf_link(rng, depth).split(b"\t")[0] + b"\t" + gen_selector(rng, depth) + b"\t\t70\t+" + \
            (b"\textra" if rng.random() < 0.5 else b"")
    if k == 5:                                                     # ports int() accepts beyond plain digits
        return b"1p" + gen_text(rng, 1, 8) + b"\t/a.txt\t" + rng.choice([b"", b"h.example"]) + b"\t" + \
            rng.choice([b"+70", b"-5", b"7_0", b"0_7", b" 70", b"70 ", b"\x0b70\x0c", b"1_2_3", b"-0", b"+0_0"])
    if k == 6:                                                     # white space only in optional fields
        return b"1w" + gen_text(rng, 1, 8) + b"\t" + rng.choice(PAD) + b"\t" + rng.choice(PAD) + b"\t" + rng.choice(PAD)
    if k == 7:
        return gen_text(rng, 1, 10) + b"\r" + gen_text(rng, 1, 10)     # lone CR inside an info line
    return gen_wf_line(rng, depth)


BAD_PORTS = [b"abc", b"70x", b"7__0", b"_7", b"7_", b"1e3", b"0x46", b"+", b"-", b"7 0", b"++7", b"7.0", b"- 7"]


def gen_raising_line(rng, depth):
    k = rng.randrange(8)
    if k == 0:
        return b"\t" + gen_text(rng, 1, 8)
    if k == 1:
        return rng.choice([b"\t", b" \t ", b"\t\t\t", b"\x0b\t/a.txt"])
    if k == 2:
        return rng.choice(TYPES) + rng.choice([b"\t", b"\t\t\t", b" \t", b"\t \t\t70"])
    if k == 3:
        return b"\t" + gen_text(rng, 1, 8) + b"\th\tabc"                   # IndexError comes first
    return b"1bad" + gen_text(rng, 0, 6) + b"\t" + rng.choice([b"/a.txt", b"", b"rel"]) + b"\t" + \
        rng.choice([b"", b"h.example"]) + b"\t" + rng.choice(BAD_PORTS)


def effective_selector(line, dirsel):
    """generator-side only: where a link line points once fields are stripped (None for info lines)"""
    t = u(line)
    if "\t" not in t:
        return None
    f = [x.strip() for x in t.split("\t")]
    sel = f[1] or f[0][1:]
    if sel[:1] != "/" and sel[:4] != "URL:":
        sel = ("" if dirsel == "/" else dirsel) + "/" + sel
    return sel


def tame(line, dirsels):
    """keep link selectors free of '.', '..' and empty path components (DESIGN D15: such selectors reach
    vfs.exists unfiltered and name nodes the scratch tree does not list; C01's subject, not C09's)"""
    for d in dirsels:
        sel = effective_selector(line, d)
        if sel is None or sel.startswith("URL:") or sel.startswith("/URL:"):
            continue
        comps = sel.split("/")[1:]
        if comps and comps[-1] == "":
            comps = comps[:-1]
        if any(c in ("", ".", "..") for c in comps) or "\x00" in sel:
            return False
    return True


def gen_tamed(rng, f, dirsels):
    while True:
        line = f()
        if tame(line, dirsels):
            return line


def assemble(rng, lines):
    mode = rng.choice(["lf", "lf", "crlf", "mixed"])
    out = b""
    for i, l in enumerate(lines):
        eol = {"lf": b"\n", "crlf": b"\r\n"}.get(mode) or rng.choice([b"\n", b"\r\n"])
        if i == len(lines) - 1 and rng.random() < 0.3:
            eol = b""
        out += l + eol
    return out


HANDMADE = {
    # the shipped examples/gophermap in spirit: text, blank lines, links with host and port
    "example": (b"Welcome to Pygopherd!  You can place your documents\nin /var/gopher for future use.\n\n"
                b"Some links to get you started:\n\n1Pygopherd Home\t/devel/gopher/pygopherd\tgopher.quux.org\t70\n"
                b"1Quux.Org Mega Server\t/\tgopher.quux.org\t70\n\nWelcome to the world of Gopher and enjoy!\n"),
    # doc/standards/gophermap.txt
    "bucktooth": (b"1Lots of stuff\tstuff\r\n1src\t\r\n1gopher.ptloma.edu home\t\tgopher.ptloma.edu\t70\r\n"
                  b"hweb\tURL:http://example.org/\r\n0local text\ta.txt\r\n"),
    "minimal": b"0a\ta.txt\n",
    "empty": b"",
    "blank": b"\n\r\n\n",
}


# the server's own identity (server.server_name / server.server_port: servername and advertisedport or port of the
# configuration): what a missing host / a missing port of a link line means
IDENTITIES = [("gopher.example", 70), ("gopher.example", 7070), ("srv.example.org", 70), ("pub.example.net", 7070),
              ("10.9.8.7", 105), ("gopher.example", 65535), ("a-b.example", 1), ("remote.example.org", 7071)]


def gen_shape_lines(rng, depth):
    """every field-count shape of a link line (doc/pygopherd.txt: selector, host, port are optional, each on its own):
    1, 2, 3, 4 fields x empty / given selector x empty / given host x empty / given port"""
    out = []
    for sel in (False, True):
        for host in (None, False, True):            # None: the field is not there at all
            for port in (None, False, True):
                if host is None and port is not None:
                    continue
                f = [rng.choice(TYPES) + gen_text(rng, 1, 16)]
                if sel or host is not None:
                    f.append(gen_selector(rng, depth) if sel else b"")
                if host is not None:
                    f.append(rng.choice(HOSTS) if host else b"")
                if port is not None:
                    f.append(rng.choice(PORTS) if port else b"")
                out.append(b"\t".join(f) if len(f) > 1 else f[0] + b"\t")
    rng.shuffle(out)
    return out


def gen_map(rng, stream, depth, is_file, special=None):
    if special == "shapes":
        d = DEPTH_DIRS[depth]
        dirsel = "/" + d if d else "/"
        dirsels = [dirsel, dirsel.rstrip("/") + "/x.gophermap"]
        while True:
            lines = gen_shape_lines(rng, depth)
            if all(tame(l, dirsels) for l in lines):
                return assemble(rng, lines)
    if special is not None:
        return HANDMADE[special]
    n = rng.randrange(4, 13)
    d = DEPTH_DIRS[depth]
    dirsel = "/" + d if d else "/"
    dirsels = [dirsel, dirsel.rstrip("/") + "/x.gophermap"]      # either way the code may resolve relative links
    if stream == "wf":
        lines = [gen_tamed(rng, lambda: gen_wf_line(rng, depth), dirsels) for _ in range(n)]
        lines.insert(rng.randrange(len(lines) + 1), gen_wf_link(rng, depth, force_relative=True))
    elif stream == "padded":
        lines = [gen_tamed(rng, lambda: gen_padded_line(rng, depth), dirsels) for _ in range(n)]
    else:
        lines = [gen_tamed(rng, lambda: gen_wf_line(rng, depth), dirsels) for _ in range(n)]
        lines.insert(rng.randrange(len(lines) + 1), gen_raising_line(rng, depth))
        if rng.random() < 0.4:
            lines.insert(rng.randrange(len(lines) + 1), gen_raising_line(rng, depth))
    data = assemble(rng, lines)
    # a line must not lose its identity when assembled: "\n" never occurs inside generated lines
    return data


# ----------------------------------------------------------------------------
# reading what each protocol rendered: one description per item, in order
# ----------------------------------------------------------------------------
def parse_gopher_menu(body):
    """decoded Gopher0 menu -> list of (type, name, selector, host, port, plus) or None"""
    if body == "":
        return []
    if not body.endswith("\r\n"):
        return None
    items = []
    for ln in body[:-2].split("\r\n"):
        parts = ln.split("\t")
        if len(parts) < 4:
            return None
        items.append((parts[0][:1], parts[0][1:], parts[1], parts[2], parts[3], len(parts) > 4 and parts[4] == "+"))
    return items


def rendered_items(proto, out):
    """response bytes -> (list of (description, link target or None) or None, raw gopher items or None)"""
    try:
        if proto in ("gopher", "sgopher"):
            items = parse_gopher_menu(u(out))
            return (None if items is None else [(i[1], None) for i in items]), items
        if proto in ("gopherplus", "sgopherplus"):
            m = re.match(rb"\+-?\d+\r\n", out)
            if not m:
                return None, None
            items = parse_gopher_menu(u(out[m.end():]))
            return (None if items is None else [(i[1], None) for i in items]), items
        if proto in ("http", "https"):
            head, sep, body = out.partition(b"\r\n\r\n")
            if not sep or not head.startswith(b"HTTP/1.0 200"):
                return None, None
            rows = re.findall(r"<TR><TD>.*?</TD></TR>\n", u(body), re.S)
            ds = []
            for r in rows:
                m = re.search(r"<TT>(.*?)</TT>", r, re.S)
                if not m:
                    return None, None
                t = re.search(r'<A HREF="([^"]*)">', r, re.S) or re.search(r'<FORM METHOD="GET" ACTION="([^"]*)">', r, re.S)
                ds.append((html.unescape(m.group(1)), html.unescape(t.group(1)) if t else None))
            if len(rows) != u(body).count("<TR>"):
                return None, None
            return ds, None
        if proto == "wap":
            head, sep, body = out.partition(b"\r\n\r\n")
            if not sep:
                return None, None
            b = u(body)
            start = b.index("</b><br/>\n") + len("</b><br/>\n")
            end = b.rindex("</p>\n</card>")
            chunks = b[start:end].split("<br/>\n")
            if chunks[-1] != "":
                return None, None
            ds = []
            for c in chunks[:-1]:
                if c.startswith('  <input name="sr'):
                    g = re.search(r'<go method="get" href="([^"]*)">', c)          # the form of a type-7 item
                    if ds and g:
                        ds[-1] = (ds[-1][0], html.unescape(g.group(1)))
                    continue
                m = re.fullmatch(r'(?:. )?<a (?:accesskey="[^"]*" )?href="([^"]*)">(.*)</a>', c, re.S)
                ds.append((html.unescape(m.group(2)), html.unescape(m.group(1))) if m else (html.unescape(c), None))
            return ds, None
        if proto in ("gemini", "spartan"):
            head, sep, body = out.partition(b"\r\n")
            want = b"20 text/gemini" if proto == "gemini" else b"2 text/gemini"
            if head != want:
                return None, None
            t = body.decode("utf-8")
            if t and not t.endswith("\n"):
                return None, None
            ds = []
            for ln in t.split("\n")[:-1]:
                if ln.startswith("=> ") or ln.startswith("=: "):
                    url, _, desc = ln[3:].partition(" ")
                    ds.append((desc, url))
                else:
                    ds.append((ln, None))
            return ds, None
    except (ValueError, UnicodeDecodeError):
        return None, None
    raise ValueError(proto)


def descriptions(proto, out):
    its, items = rendered_items(proto, out)
    return (None if its is None else [d for d, _ in its]), items


def target_problem(proto, want, target, srv=None):
    """Does the rendered link target denote what the documents say the gophermap line points to?
    want = (type, description, selector, host, port) of the documented reading.  Returns None or a reason.
      * URL: selector (url.txt, pygopherd.txt URL.HTMLURLHANDLER): the URL after "URL:";
      * this server (no host, no port): the path, percent-decoded, is the selector;
      * another host and/or port: a gopher:// URL naming host, port, type and selector."""
    typ, desc, sel, host, port = want
    if typ == "i" or proto in ("gopher", "sgopher", "gopherplus", "sgopherplus"):
        return None                     # informational item; Gopher menus carry selector/host/port themselves
    m = re.match(r"/?URL:(.*)$", sel, re.S)
    if m:
        if not m.group(1):
            return None
        return None if target == m.group(1) else "URL: selector must link to the URL it carries"
    if target is None:
        return "no link target rendered"
    if host is None and port is None:
        t = target
        if proto == "wap":
            if not t.startswith("/wap"):
                return "local link outside the WAP prefix"
            t = t[4:]
        if proto == "gemini" and typ == "7":
            if not t.startswith("/GEMINI-QUERY"):
                return "search item without the query prefix"
            t = t[len("/GEMINI-QUERY"):]
        got = urllib.parse.unquote(t, errors="surrogateescape")
        return None if got == sel else "local link must lead to the entry's selector"
    if host is None and port == 0:
        return None                     # "port 0 on this server" denotes nothing that could be followed
    srv_name, srv_port = srv or (SRV, PORT)
    prefix = "gopher://%s:%d/" % (host if host is not None else srv_name, port if port is not None else srv_port)
    if not target.startswith(prefix):
        return "remote link must be a gopher:// URL naming the host and port"
    got = urllib.parse.unquote(target[len(prefix):], errors="surrogateescape")
    return None if got == typ + sel else "remote link must name type and selector"


def as_rendered(proto, name):
    """what a description looks like once it went through the protocol's text encoding"""
    if proto in ("gemini", "spartan"):
        return name.encode("utf-8", "surrogateescape").decode("utf-8", "backslashreplace")
    return name


# ----------------------------------------------------------------------------
# Gallina literals
# ----------------------------------------------------------------------------
def coq_z(n):
    return "(%d)%%Z" % n


def coq_core(t, n, s, h, p, g):
    return "(%s, (%s, (%s, (%s, (%s, %s)))))" % (coq_opt(t, coq_str), coq_opt(n, coq_str), coq_str(s),
                                                 coq_opt(h, coq_str), coq_opt(p, coq_z), coq_bool(g))


# ----------------------------------------------------------------------------
# histories: one long-lived process, the tree changes between listings
# ----------------------------------------------------------------------------
HCONFIG = dict(CONFIG, **{"handlers.dir.DirHandler": {"cachetime": "0"}})
HPROTOS = ["http", "gemini", "gopherplus", "spartan", "wap", "sgopher", "https"]


def h_resolve(nodes, path, depth=0):
    """node a path leads to, following symbolic links (None when it leads nowhere)"""
    n = nodes.get(path)
    if n is None or depth > 8:
        return None
    if n["kind"] == "symlink":
        return h_resolve(nodes, posixpath.normpath(posixpath.join(posixpath.dirname(path), n["target"])), depth + 1)
    return n


def h_tree(nodes):
    t = []
    for path in sorted(nodes):
        n = nodes[path]
        e = {"path": path, "kind": n["kind"]}
        if n["kind"] == "file":
            e["data"] = lat(n["data"])
        elif n["kind"] == "symlink":
            e["target"] = n["target"]
        if n["kind"] != "symlink":
            e["mtime"] = 1_700_000_000
        t.append(e)
    return t


def h_existing(nodes):
    ex = {""}
    for path in nodes:
        if h_resolve(nodes, path) is not None:
            ex.add("/" + path)
    return sorted(ex)


def history_leg(chk, rng, thorough, hit, stats, scases, sel_cases):
    """Returns Coq jobs (preamble, cases, keys).  Every history: list, then mutations of the gophermap of ONE directory
    (created, replaced, removed, a symbolic link whose target appears / disappears, unrelated files touched), the
    directory's mtime put back after the mutation or not, and a listing through 2-3 protocols after every mutation.
    Oracles: (1) the same tree state served by a process that never served anything; (2) the documents' reading when a
    regular file `gophermap` is in the directory at request time; K: handler selection and Gopher0 menu vs the model."""
    nhist = 40 if thorough else 12
    histories = []
    for hi in range(nhist):
        hdir = ["h", "", "p/h"][hi % 3]
        hp = hdir + "/" if hdir else ""
        up = "../" * (hdir.count("/") + 1) if hdir else ""
        sel = "/" + hdir if hdir else "/"
        nodes = {}
        for d in {"shared", "other", hdir} - {""}:
            parts = d.split("/")
            for k in range(1, len(parts) + 1):
                nodes["/".join(parts[:k])] = {"kind": "dir"}
        nodes["shared/keep.txt"] = {"kind": "file", "data": b"keep\n"}
        nodes["other/o.txt"] = {"kind": "file", "data": b"other\n"}
        for name in ("a.txt", "b b.txt", "about.txt", "sub/s.txt"):
            if "/" in name:
                nodes[hp + "sub"] = {"kind": "dir"}
            nodes[hp + name] = {"kind": "file", "data": b"text\n"}
        script = None
        if hi == 0:      # written right after a listing, nothing restored (same wall-clock second)
            script = [("create", False)]
        elif hi == 1:    # `gophermap` is a dangling symbolic link from the start; its target is published later
            nodes[hp + "gophermap"] = {"kind": "symlink", "target": up + "shared/menu"}
            script = [("create_target", False), ("remove_target", False), ("create_target", True)]
        elif hi == 2:
            script = [("create", True), ("remove", True), ("create", True), ("replace", True), ("touch", True), ("remove", False)]
        steps, snaps = [], []
        nmut = len(script) if script else rng.randrange(4, 9 if thorough else 7)
        mapdata = [None]
        counter = [0]

        def add_list():
            protos = ["gopher"] + rng.sample(HPROTOS, rng.choice([1, 2]))
            reqs, rm = [], []
            for pr in protos:
                data, tls = gen.request_bytes(pr, sel)
                reqs.append({"data": gen.lat(data), "tls": tls})
                rm.append((pr, data, tls))
            steps.append({"op": "list", "requests": reqs})
            node = h_resolve(nodes, hp + "gophermap")
            snaps.append({"step": len(steps) - 1, "protos": rm, "tree": h_tree(nodes), "existing": h_existing(nodes),
                          "has_map": node is not None and node["kind"] == "file",
                          "map": node["data"] if node is not None and node["kind"] == "file" else None})

        def new_map():
            return gen_map(rng, "wf", 0, False)

        add_list()
        for mi in range(nmut):
            gm = nodes.get(hp + "gophermap")
            tgt = None
            if gm is not None and gm["kind"] == "symlink":
                tgt = posixpath.normpath(posixpath.join(hdir, gm["target"]))
            if script:
                act, keep = script[mi]
            else:
                keep = rng.random() < 0.6
                if gm is None:
                    act = rng.choice(["create", "create", "link", "touch"])
                elif gm["kind"] == "file":
                    act = rng.choice(["replace", "remove", "remove", "touch"])
                elif tgt in nodes:
                    act = rng.choice(["remove_target", "remove_target", "replace_target", "remove", "touch"])
                else:
                    act = rng.choice(["create_target", "create_target", "remove", "touch"])
            if act in ("create", "replace"):
                d = new_map()
                nodes[hp + "gophermap"] = {"kind": "file", "data": d}
                steps.append({"op": "write", "path": hp + "gophermap", "data": lat(d), "keep_mtime": keep})
            elif act == "remove":
                del nodes[hp + "gophermap"]
                steps.append({"op": "remove", "path": hp + "gophermap", "keep_mtime": keep})
            elif act == "link":
                counter[0] += 1
                target = up + "shared/menu%d" % counter[0]
                nodes[hp + "gophermap"] = {"kind": "symlink", "target": target}
                steps.append({"op": "symlink", "path": hp + "gophermap", "target": target, "keep_mtime": keep})
            elif act in ("create_target", "replace_target"):
                d = new_map()
                nodes[tgt] = {"kind": "file", "data": d}
                steps.append({"op": "write", "path": tgt, "data": lat(d), "keep_mtime": keep})
            elif act == "remove_target":
                del nodes[tgt]
                steps.append({"op": "remove", "path": tgt, "keep_mtime": keep})
            else:
                counter[0] += 1
                name = hp + rng.choice(["a.txt", "new%d.txt" % counter[0]])
                nodes[name] = {"kind": "file", "data": b"touched %d\n" % counter[0]}
                steps.append({"op": "write", "path": name, "data": "touched %d\n" % counter[0], "keep_mtime": keep})
            steps[-1]["what"] = act
            add_list()
        histories.append({"selector": sel, "tree0": snaps[0]["tree"], "steps": steps, "snaps": snaps})

    jobs = [{"op": "gm_history", "tree": h["tree0"], "config": HCONFIG, "steps": h["steps"]} for h in histories]
    hres = impl_run_parallel(jobs, chunks=min(len(jobs), 6))
    # the reference: a separate interpreter whose children each serve ONE tree state and exit
    fresh_jobs = [{"op": "gm_fresh", "states": [{"tree": sn["tree"], "config": HCONFIG,
                                                 "requests": h["steps"][sn["step"]]["requests"]} for sn in h["snaps"]]}
                  for h in histories]
    fres = impl_run_parallel(fresh_jobs, chunks=min(len(fresh_jobs), 6))
    for r in hres + fres:
        if not r["ok"]:
            raise RuntimeError(r["err"] + "\n" + r.get("tb", ""))
    coqjobs = []
    stats.update({"histories": len(histories), "history_listings": 0, "history_mutations": 0, "history_menu_cases": 0})
    for h, r, fr in zip(histories, hres, fres):
        pre, cases, keys = [], [], []
        HP = "h%d_" % histories.index(h)
        stats["history_mutations"] += sum(1 for st in h["steps"] if st["op"] != "list")
        for si, (sn, ref) in enumerate(zip(h["snaps"], fr["res"])):
            if not ref.get("ok"):
                raise RuntimeError("fresh reference failed: " + str(ref.get("err")))
            got = r["res"]["steps"][sn["step"]]["results"]
            upto = h["steps"][:sn["step"] + 1]
            for qi, ((proto, data, tls), o, f) in enumerate(zip(sn["protos"], got, ref["results"])):
                stats["history_listings"] += 1
                chk.count(("history", h["selector"], si, proto, repr(upto)), nontrivial=si > 0)
                a = gen.mask_times(o["out"].encode("latin-1"))
                b = gen.mask_times(f["out"].encode("latin-1"))
                buck = any("/BuckGophermapHandler]" in m for m in o["log"])
                fbuck = any("/BuckGophermapHandler]" in m for m in f["log"])
                replay = {"kind": "history", "selector": h["selector"], "protocol": proto, "request_latin1": gen.lat(data), "tls": tls,
                          "tree": h["tree0"], "config": HCONFIG,
                          "steps": [dict(st, requests=None) if st["op"] == "list" else st for st in upto],
                          "state_tree": sn["tree"], "gophermap_latin1": lat(sn["map"]) if sn["map"] is not None else "",
                          "gophermap_present_at_request_time": sn["has_map"],
                          "long_lived_process": {"response_latin1": o["out"][:1500], "log": o["log"][-2:], "exception": o["exc"]},
                          "fresh_process": {"response_latin1": f["out"][:1500], "log": f["log"][-2:], "exception": f["exc"]}}
                if a != b or o["exc"] != f["exc"]:
                    tag = "stale-gophermap-presence" if buck != fbuck else ("stale-gophermap-content" if buck else "history-divergence")
                    hit(tag, dict(replay, what="after the tree changed, a long-lived server process lists the directory differently "
                                               "from a process started on the same tree state"))
                    continue
                # the documents: a regular file `gophermap` in the directory at request time drives the listing
                if sn["has_map"]:
                    lines = [u(l) for l in split_lines(sn["map"])]
                    ds, items = descriptions(proto, o["out"].encode("latin-1"))
                    want = [as_rendered(proto, twin_item(h["selector"], ln)[1]) for ln in lines]
                    if ds != want:
                        hit("stale-gophermap-presence" if not buck else f"history-spec-mismatch:{proto}",
                            dict(replay, what="the directory holds a gophermap but is not listed line for line from it",
                                 rendered=ds, documented=want))
                        continue
                if proto == "gopher":
                    # K: handler selection and, when chosen, the Gopher0 menu
                    src = next((p for p in o["opened"] if p.endswith("/gophermap")), None)
                    scases.append("(((0, %s), %s), (%s, %s))" % (coq_bool(sn["has_map"]), coq_str(h["selector"]), coq_bool(buck),
                                                              coq_opt(src, coq_str)))
                    sel_cases.append((h["selector"], 0, sn["has_map"], "history"))
                    if sn["has_map"] and buck:
                        k = len(pre)
                        pre.append("Definition %sx%d : list str := %s." % (HP, k, coq_list([coq_str(x) for x in sn["existing"]])))
                        pre.append("Definition %sc%d : str := %s." % (HP, k, coq_str(u(sn["map"]))))
                        for fixed in (True, False):
                            cases.append("(%s, (((%s, false), (%sc%d, %sx%d)), (obs_menu %s)))" % (
                                coq_bool(fixed), coq_str(h["selector"]), HP, k, HP, k, coq_str(u(o["out"].encode("latin-1")))))
                            keys.append((fixed, dict(replay, is_mapfile=False, response_latin1=o["out"][:1500])))
                        stats["history_menu_cases"] += 1
        if cases:
            coqjobs.append(("\n".join(pre), cases, keys))
    return coqjobs



# ----------------------------------------------------------------------------
# overlapping requests: handler instances of one process stepped in every order; a live threaded server
# ----------------------------------------------------------------------------
def interleavings(seqs):
    """all merges of the given sequences that keep each sequence's own order"""
    if all(not q for q in seqs):
        return [[]]
    out = []
    for i, q in enumerate(seqs):
        if q:
            rest = [x[1:] if j == i else x for j, x in enumerate(seqs)]
            out += [[q[0]] + t for t in interleavings(rest)]
    return out


def concurrency_leg(chk, rng, thorough, hit, stats):
    """(a) two or three handler instances for different gophermaps (and the same one twice) in one process, stepped by
    hand through every interleaving of open / prepare / getdirlist / getdirlist: every listing must be the one a
    process gives that serves this gophermap alone, and one entry per line of ITS OWN gophermap as documented;
    (b) the real ThreadingTCPServer, clients asking for different gophermap directories at the same moment."""
    stats.update({"interleave_schedules": 0, "interleave_listings": 0, "live_concurrent_answers": 0})
    jobs, metas = [], []
    for wi in range(3 if thorough else 2):
        maps, meta = {}, []
        for depth, d in enumerate(DEPTH_DIRS):
            for is_file in (False, True):
                data = gen_map(rng, "wf", depth, is_file)
                path = (d + "/" if d else "") + ("x.gophermap" if is_file else "gophermap")
                maps[path] = data
                meta.append({"selector": "/" + path if is_file else ("/" + d if d else "/"), "is_file": is_file, "data": data})
        tree = tree_for(maps, gen_sidecars(rng, 0.2))
        groups = [rng.sample(range(8), 2) for _ in range(3)] + [[k, k] for k in rng.sample(range(8), 1)] + \
                 [rng.sample(range(8), 3) for _ in range(2 if thorough else 1)]
        for g in groups:
            seqs = [[[slot, a] for a in ("open", "prepare", "list", "list")] for slot in range(len(g))]
            if len(g) == 2:
                scheds = interleavings(seqs)                       # all 70
            else:
                seqs = [[[slot, a] for a in ("open", "prepare", "list")] for slot in range(len(g))]
                allm = interleavings(seqs)                         # 1680
                scheds = rng.sample(allm, 60 if thorough else 30)
            jobs.append({"op": "gm_interleave", "tree": tree, "config": CONFIG, "selectors": [meta[k]["selector"] for k in g],
                         "schedules": scheds})
            metas.append((tree, [meta[k] for k in g], scheds))
    res = impl_run_parallel(jobs, chunks=min(len(jobs), 6))
    # reference: every gophermap served alone, by a process that does nothing else (separate interpreter)
    refjobs = [{"op": "gm_world", "tree": tree, "config": CONFIG, "maps": [m["selector"] for m in ms], "requests": []}
               for tree, ms, _ in metas]
    refs = impl_run_parallel(refjobs, chunks=min(len(refjobs), 6))
    for r in res + refs:
        if not r["ok"]:
            raise RuntimeError(r["err"] + "\n" + r.get("tb", ""))
    for (tree, ms, scheds), r, ref in zip(metas, res, refs):
        alone = [c["entries"] for c in ref["res"]["components"]]
        for sched, o in zip(scheds, r["res"]):
            stats["interleave_schedules"] += 1
            chk.count(("interleave", tuple(m["selector"] for m in ms), repr(sched)))
            replay = {"kind": "interleave", "tree": tree, "config": CONFIG, "selectors": [m["selector"] for m in ms],
                      "gophermaps_latin1": [lat(m["data"]) for m in ms], "schedule": sched, "exception": o["exc"]}
            if o["exc"] is not None:
                hit("interleaved-listing", dict(replay, what="stepping two handler instances of one process raised"))
                continue
            for slot, ents in o["lists"]:
                stats["interleave_listings"] += 1
                m = ms[slot]
                lines = [u(l) for l in split_lines(m["data"])]
                ddir = doc_dir(m["selector"], m["is_file"])
                bad = None
                if ents != alone[slot]:
                    bad = "differs from the listing of the same gophermap served alone"
                elif len(ents) != len(lines):
                    bad = "not one entry per line of its own gophermap"
                else:
                    for ln, e in zip(lines, ents):
                        if twin_wf(ln) and twin_item(ddir, ln) != (e["type"], e["name"], e["selector"], e["host"], e["port"]):
                            bad = "an entry is not the documented reading of its line"
                            break
                if bad:
                    hit("interleaved-listing",
                        dict(replay, what="a handler's listing depends on another handler instance of the same process: " + bad,
                             slot=slot, selector=m["selector"], gophermap_latin1=lat(m["data"]),
                             listing=[[e["type"], e["name"], e["selector"]] for e in ents][:12],
                             alone=[[e["type"], e["name"], e["selector"]] for e in (alone[slot] or [])][:12]))
                    break
    # ---- live: ThreadingTCPServer, simultaneous clients
    big = {}
    nbig = 2500 if thorough else 1500
    for k in range(3):
        ls = []
        for i in range(nbig):
            if i % 3 == 0:
                ls.append(b"section %d of menu %d" % (i, k))
            else:
                ls.append(b"0item %d of menu %d\tdoc%d-%d.txt" % (i, k, k, i))
        big["big%d/gophermap" % k] = b"\n".join(ls) + b"\n"
    # /small: every field-count shape of a link line; the REAL server object derives its identity from the configuration
    # (servername; advertisedport, or the port it listens on)
    big["small/gophermap"] = b"ismall menu\n1up\t/\n" + gen_map(rng, "wf", 0, False, "shapes")
    tree = tree_for(big)
    sels = ["/big0", "/big1", "/big2", "/small", "/big0", "/big1"]
    live_name, live_adv = rng.choice([("gopher.example", "70"), ("live.example.net", "7070"), ("live.example.net", None),
                                      ("gopher.example", None), ("10.9.8.7", "105")])
    live, = impl_run([{"op": "gm_live", "tree": tree, "config": CONFIG, "selectors": sels, "rounds": 6 if thorough else 3,
                       "servername": live_name, "advertisedport": live_adv}])
    if not live["ok"]:
        raise RuntimeError(live["err"] + "\n" + live.get("tb", ""))
    seq = live["res"]["sequential"]
    live_port = int(live_adv) if live_adv is not None else live["res"]["listen_port"]
    stats["live_identity_lines"] = 0
    small_lines = [u(l) for l in split_lines(big["small/gophermap"])]
    small_items = parse_gopher_menu(u(seq[3]["out"].encode("latin-1"))) or []
    for ln, it in zip(small_lines, small_items):
        if not twin_wf(ln):
            continue
        wt = twin_item("/small", ln)
        stats["live_identity_lines"] += 1
        wantm = (wt[0], wt[1], wt[2], wt[3] if wt[3] is not None else live_name, str(wt[4] if wt[4] is not None else live_port))
        if wt[0] != "i" and it[:5] != wantm:
            bad = [f for f, a, b in zip(("type", "description", "selector", "host", "port"), wantm, it[:5]) if a != b]
            hit("live-menu-spec-mismatch:" + "+".join(bad),
                {"kind": "live", "what": "the live server's Gopher menu line differs from the documented reading (a missing host / port "
                                         "means THIS server: servername, advertisedport or the port it listens on)",
                 "selector": "/small", "line": ln, "documented": list(wantm), "rendered": list(it), "servername": live_name,
                 "advertisedport": live_adv, "listening_on": live["res"]["listen_port"],
                 "gophermap_latin1": lat(big["small/gophermap"]), "config": CONFIG})
            break
    for i, (sel, a) in enumerate(zip(sels, seq)):
        lines = split_lines(big[sel[1:] + "/gophermap"])
        items = parse_gopher_menu(u(a["out"].encode("latin-1")))
        if a["exc"] or items is None or len(items) != len(lines):
            hit("live-listing", {"kind": "live", "what": "the live server does not list a large gophermap one item per line",
                                 "selector": sel, "lines": len(lines), "items": None if items is None else len(items),
                                 "exception": a["exc"], "tree_note": "3 menus of %d generated lines + /small" % nbig})
    for ri, rnd in enumerate(live["res"]["rounds"]):
        for i, (sel, a) in enumerate(zip(sels, rnd)):
            stats["live_concurrent_answers"] += 1
            chk.count(("live", ri, i, sel))
            if a is None or a["exc"] or a["out"] != seq[i]["out"]:
                got = "" if a is None else a["out"]
                want = seq[i]["out"]
                k = next((j for j, (x, y) in enumerate(zip(got, want)) if x != y), min(len(got), len(want)))
                hit("concurrent-listing",
                    {"kind": "live", "what": "ThreadingTCPServer: a gophermap listing requested at the same moment as others differs "
                                             "from the answer to the same request made alone",
                     "selector": sel, "simultaneous_selectors": sels, "round": ri, "exception": None if a is None else a["exc"],
                     "answer_bytes": len(got), "alone_bytes": len(want), "first_difference_at": k,
                     "answer_around": got[max(0, k - 120):k + 200], "alone_around": want[max(0, k - 120):k + 200],
                     "gophermap_latin1": "", "tree_note": "big<k>/gophermap: %d lines 'section i of menu k' / '0item i of menu k<TAB>dock-i.txt'; "
                                                          "small/gophermap: 2 lines" % nbig, "config": CONFIG})



# ----------------------------------------------------------------------------
# large gophermaps: sizes around and beyond the usual buffer boundaries, thousands of lines, very long lines
# ----------------------------------------------------------------------------
SIZE_BOUNDS = [4096, 8192, 65536, 131072, 1 << 20]


def exact_text(rng, k):
    """info text of exactly k bytes (k >= 1) without white space at either end"""
    t = b""
    while len(t) < k:
        t += gen_text(rng, 20, 60) + b" "
    t = t[:k].strip(b" ")
    return t + b"x" * (k - len(t))


def gen_sized_line(rng, depth, width):
    """one well-formed line; width 'narrow' = as in the small maps, 'wide' = 60-300 bytes of text, 'tiny' = 0-6 bytes,
    'blank' = mostly empty lines"""
    if width == "narrow":
        return gen_wf_line(rng, depth)
    if width in ("tiny", "blank"):
        k = rng.randrange(20 if width == "blank" else 6)
        if k == 0 or k >= 6:
            return b""
        if k < 4:
            return gen_text(rng, 1, 3)
        return rng.choice(TYPES) + gen_text(rng, 1, 2) + b"\t" + rng.choice(selector_choices(depth)[0][:4])
    if rng.randrange(10) < 4:
        return gen_text(rng, 60, 300)
    fs = gen_wf_link(rng, depth).split(b"\t")
    if fs[1] != b"":                      # "the description doubles as selector" lines stay as they are
        fs[0] = fs[0][:1] + gen_text(rng, 60, 300)
    return b"\t".join(fs)


def build_big(rng, depth, shape):
    """shape: dict(kind=..., ...) -> (data, parts or None).  parts = [(block bytes, repetitions)] when the map is a
    repetition (compact description for the model in Coq).  Kinds:
      exact      the FILE is exactly `size` bytes (last line with / without its newline: final_nl)
      cross      a line ends exactly at byte `bound`, `tail` more lines follow
      straddle   random lines until the size passes bound + extra
      rep        header + stanza * n + tail, size just beyond bound + extra
      lines      `count` lines of the given width
      longline   a few lines, ONE line of `length` bytes (info text / link description / URL: selector), `after` more lines"""
    d = DEPTH_DIRS[depth]
    dirsel = GEN_PREFIX[0].decode() + ("/" + d if d else "") or "/"
    dirsels = [dirsel, dirsel.rstrip("/") + "/x.gophermap"]
    eol = b"\r\n" if shape.get("eol") == "crlf" else b"\n"
    width = shape.get("width", "narrow")

    def mk():
        return gen_tamed(rng, lambda: gen_sized_line(rng, depth, width), dirsels)

    def fill(upto):
        """lines whose total (with terminators) is exactly `upto`: the last one is an info line cut to measure"""
        ls, tot = [], 0
        while True:
            l = mk()
            if tot + len(l) + len(eol) > upto - len(eol) - 1:
                break
            ls.append(l)
            tot += len(l) + len(eol)
        ls.append(exact_text(rng, upto - tot - len(eol)))
        return ls

    kind = shape["kind"]
    final_nl = shape.get("final_nl", True)
    parts = None
    if kind == "exact":
        size = shape["size"]
        ls = fill(size if final_nl else size + len(eol))
    elif kind == "cross":
        ls = fill(shape["bound"]) + [mk() for _ in range(shape["tail"])]
    elif kind == "straddle":
        ls, tot = [], 0
        while tot <= shape["bound"] + shape["extra"]:
            ls.append(mk())
            tot += len(ls[-1]) + len(eol)
    elif kind == "rep":
        head = [mk() for _ in range(rng.randrange(1, 4))]
        stanza = [mk() for _ in range(rng.randrange(4, 11))]
        tail = [mk() for _ in range(rng.randrange(3, 7))]
        if not final_nl and tail[-1] == b"":
            tail[-1] = b"end"
        size = lambda x: sum(len(l) + len(eol) for l in x)
        n = max(2, -(-(shape["bound"] + shape["extra"] - size(head) - size(tail)) // max(1, size(stanza))))
        ls = head + stanza * n + tail
        tb = eol.join(tail) + (eol if final_nl else b"")
        parts = [(eol.join(head) + eol, 1), (eol.join(stanza) + eol, n), (tb, 1)]
    elif kind == "lines":
        ls = [mk() for _ in range(shape["count"])]
    elif kind == "longline":
        width = "narrow"
        L = shape["length"]
        what = shape["what"]
        if what == "info":
            long = exact_text(rng, L)
        elif what == "description":
            long = rng.choice(TYPES) + exact_text(rng, L - 7) + b"\ta.txt"
        else:
            url = b"1web\tURL:http://example.org/"
            long = url + (b"0123456789abcdef/" * (L // 17 + 1))[:L - len(url)]
        ls = [mk() for _ in range(rng.randrange(2, 5))] + [long] + [mk() for _ in range(shape["after"])]
    else:
        raise ValueError(kind)
    if not final_nl and ls[-1] == b"":
        ls[-1] = b"end"                     # an empty last line without a newline is no line at all
    data = eol.join(ls) + (eol if final_nl else b"")
    if parts is not None:
        assert b"".join(b * n for b, n in parts) == data
    return data, parts


def big_shapes(rng, thorough):
    """the list of (shape, want K in Coq: None | 'entries' | 'entries+menu')"""
    out = []
    for B in SIZE_BOUNDS:
        huge = B >= (1 << 20)
        wide = "wide" if B >= 131072 else rng.choice(["narrow", "narrow", "wide"])
        nl = rng.random() < 0.5
        if huge and not thorough:
            out.append(({"kind": "cross", "bound": B, "tail": rng.randrange(3, 40), "width": "wide", "final_nl": nl}, None))
            continue
        out.append(({"kind": "cross", "bound": B, "tail": rng.randrange(3, 40), "width": wide, "final_nl": nl,
                     "eol": rng.choice(["lf", "lf", "crlf"])}, None))
        out.append(({"kind": "rep", "bound": B, "extra": rng.randrange(1, max(2, B // (16 if huge else 4))),
                     "width": rng.choice(["narrow", "wide"]), "final_nl": not nl, "eol": rng.choice(["lf", "lf", "crlf"])},
                    None if huge else ("entries+menu" if B <= 65536 else "entries")))
        if B <= 65536 or thorough:
            out.append(({"kind": "straddle", "bound": B, "extra": rng.randrange(1, max(2, B // 4)), "width": wide,
                         "final_nl": rng.random() < 0.5}, None))
            ex = [(B, True), (B, False), (B - 1, True), (B + 1, False), (B + 1, True), (B - 1, False)]
            for size, fnl in (ex if thorough or B <= 8192 else rng.sample(ex, 2)):
                out.append(({"kind": "exact", "size": size, "final_nl": fnl, "width": wide}, None))
    for count, width in ([(7000, "tiny"), (20000, "blank")] if not thorough else
                         [(3000, "narrow"), (7000, "tiny"), (30000, "tiny"), (20000, "blank"), (70000, "blank")]):
        out.append(({"kind": "lines", "count": count, "width": width, "final_nl": rng.random() < 0.5}, None))
    lengths = [4095, 4096, 4097, 8191, 8192, 8193, 65535, 65536, 65537, 70001, 131071, 131073, 300000]
    if thorough:
        lengths += [(1 << 20) + 1]
    whats = ["info", "description", "url"]
    picks = [(L, w) for L in lengths for w in whats] if thorough else \
        [(L, rng.choice(whats)) for L in rng.sample(lengths[:6], 3) + rng.sample(lengths[6:], 4)]
    for L, what in picks:
        out.append(({"kind": "longline", "length": L, "what": what, "after": rng.choice([0, 0, 1, 4]),
                     "final_nl": rng.random() < 0.5, "eol": rng.choice(["lf", "lf", "crlf"])}, None))
    return out


def size_leg(chk, rng, thorough, hit, stats):
    """Large gophermaps as <dir>/gophermap and x.gophermap at every depth (a few inside a ZIP archive), asked for in every
    protocol.  Oracle (documents' reading, computed here): as many entries / rendered items as the map has lines, every
    entry and every rendered description is the documented one -- the LAST lines in particular -- and the link targets of
    the first, the last and a sample of the lines in between.  Returns Coq jobs for the maps built by repetition."""
    shapes = big_shapes(rng, thorough)
    slots = [(depth, is_file) for depth in range(len(DEPTH_DIRS)) for is_file in (False, True)]
    rng.shuffle(slots)
    worlds, cur, cur_bytes = [], [], 0

    def flush():
        nonlocal cur, cur_bytes
        if cur:
            maps = {m["path"]: m["data"] for m in cur}
            tree = tree_for(maps)
            worlds.append({"tree": tree, "config": CONFIG, "meta": cur, "existing": existing_selectors(tree), "zip": None})
        cur, cur_bytes = [], 0

    for k, (shape, wantk) in enumerate(shapes):
        depth, is_file = slots[k % len(slots)]
        if wantk == "entries+menu" and shape.get("bound", 0) >= 65536:
            is_file = False                        # the one expensive menu evaluation: both model variants coincide
        if any((m["depth"], m["is_file"]) == (depth, is_file) for m in cur) or cur_bytes > 300_000:
            flush()
        data, parts = build_big(rng, depth, shape)
        d = DEPTH_DIRS[depth]
        path = (d + "/" if d else "") + ("x.gophermap" if is_file else "gophermap")
        cur.append({"path": path, "selector": "/" + path if is_file else ("/" + d if d else "/"), "is_file": is_file,
                    "depth": depth, "data": data, "parts": parts, "shape": shape, "k": wantk})
        cur_bytes += len(data)
    flush()
    # inside a ZIP archive (read through zipfile's own buffered reader)
    GEN_PREFIX[0] = ZIPSEL.encode()
    try:
        zshapes = [(0, False, {"kind": "exact", "size": 8192, "final_nl": False}),
                   (1, False, {"kind": "cross", "bound": 65536, "tail": rng.randrange(3, 40), "final_nl": rng.random() < 0.5}),
                   (0, True, {"kind": "straddle", "bound": 131072, "extra": rng.randrange(1, 30000), "width": "wide",
                              "final_nl": rng.random() < 0.5}),
                   (2, True, {"kind": "lines", "count": 6000, "width": "tiny", "final_nl": True})]
        if thorough:
            zshapes.append((3, False, {"kind": "cross", "bound": 1 << 20, "tail": 25, "width": "wide", "final_nl": False}))
        zmeta, zmaps = [], {}
        for depth, is_file, shape in zshapes:
            data, _ = build_big(rng, depth, shape)
            d = DEPTH_DIRS[depth]
            path = (d + "/" if d else "") + ("x.gophermap" if is_file else "gophermap")
            zmaps[path] = data
            zmeta.append({"path": path, "selector": ZIPSEL + "/" + path if is_file else (ZIPSEL + "/" + d if d else ZIPSEL),
                          "is_file": is_file, "depth": depth, "data": data, "parts": None, "shape": shape, "k": None})
        ztree, members = zip_tree(zmaps)
        worlds.append({"tree": ztree, "config": ZCONFIG, "meta": zmeta, "existing": members, "zip": ZIPSEL})
    finally:
        GEN_PREFIX[0] = b""

    jobs = []
    for w in worlds:
        reqs, rmeta = [], []
        for mi, m in enumerate(w["meta"]):
            protos = gen.PROTOCOLS
            if len(m["data"]) >= (1 << 20) and not thorough:
                # a megabyte in every protocol costs seconds: Gopher, Gopher+ and three of the others per run
                protos = ["gopher", "gopherplus"] + rng.sample(["http", "wap", "gemini", "spartan", "https", "sgopher"], 3)
            for proto in protos:
                data, tls = gen.request_bytes(proto, m["selector"])
                reqs.append({"data": gen.lat(data), "tls": tls})
                rmeta.append((mi, proto, data, tls))
        w["rmeta"] = rmeta
        jobs.append({"op": "gm_world", "tree": w["tree"], "config": w["config"], "maps": [m["selector"] for m in w["meta"]],
                     "requests": reqs})
    res = impl_run_parallel(jobs, chunks=min(len(jobs), 8))
    for r in res:
        if not r["ok"]:
            raise RuntimeError(r["err"] + "\n" + r.get("tb", ""))

    stats.update({"large_maps": 0, "large_map_lines": 0, "large_map_bytes": 0, "largest_map_bytes": 0, "largest_map_lines": 0,
                  "longest_line_bytes": 0, "large_map_requests": 0, "large_map_entry_checks": 0, "large_map_item_checks": 0,
                  "large_map_target_checks": 0, "large_zip_maps": 0, "large_map_k_cases": 0})
    coqjobs = []
    for wn, (w, r) in enumerate(zip(worlds, res)):
        P = "b%d_" % wn
        pre = ["Definition %sex : list str := %s." % (P, coq_list([coq_str(s) for s in w["existing"]]))]
        comps = r["res"]["components"]
        per_map = []
        for mi, (m, c) in enumerate(zip(w["meta"], comps)):
            raw = split_lines(m["data"])
            lines = [u(l) for l in raw]
            ddir = doc_dir(m["selector"], m["is_file"])
            wants = [twin_item(ddir, ln) if twin_wf(ln) else None for ln in lines]
            stats["large_maps"] += 1
            stats["large_zip_maps"] += bool(w["zip"])
            stats["large_map_lines"] += len(lines)
            stats["large_map_bytes"] += len(m["data"])
            stats["largest_map_bytes"] = max(stats["largest_map_bytes"], len(m["data"]))
            stats["largest_map_lines"] = max(stats["largest_map_lines"], len(lines))
            stats["longest_line_bytes"] = max([stats["longest_line_bytes"]] + [len(l) for l in raw])
            chk.count(("large-map", m["selector"], m["data"]))
            base = {"kind": "large-map", "selector": m["selector"], "is_mapfile": m["is_file"], "inside_zip": w["zip"],
                    "shape": m["shape"], "gophermap_bytes": len(m["data"]), "gophermap_lines": len(lines),
                    "last_line_has_newline": m["data"].endswith(b"\n"), "gophermap_latin1": lat(m["data"]),
                    "tree": w["tree"], "config": w["config"]}
            per_map.append((lines, wants, base))
            if c["handler"] != "BuckGophermapHandler":
                hit("large-map:selection", dict(base, what="a large gophermap was not handed to BuckGophermapHandler",
                                                handler=c["handler"], exception=c["exc"]))
                continue
            if c["exc"] is not None:
                hit("large-map:prepare-raises", dict(base, what="prepare() raised on a large well-formed gophermap", exception=c["exc"]))
                continue
            ents = c["entries"]
            if len(ents) != len(lines):
                k = min(len(ents), len(lines))
                hit("large-map:entry-count",
                    dict(base, what="number of entries differs from number of gophermap lines", entries=len(ents),
                         entries_stop_after_byte=sum(len(l) for l in raw[:k]),
                         first_line_without_entry=lines[k][:200] if k < len(lines) else None,
                         last_entries=[[e["type"], e["name"][:80], e["selector"][:80]] for e in ents[-3:]]))
            else:
                for i, (wt, e) in enumerate(zip(wants, ents)):
                    if wt is None:
                        continue
                    stats["large_map_entry_checks"] += 1
                    got = (e["type"], e["name"], e["selector"], e["host"], e["port"])
                    if wt != got:
                        hit("large-map:entry-mismatch",
                            dict(base, what="an entry of a large gophermap differs from the documented reading of its line",
                                 line_index=i, lines_after_it=len(lines) - 1 - i, line=lines[i][:300],
                                 line_starts_at_byte=sum(len(l) for l in raw[:i]),
                                 documented=[str(x)[:300] for x in wt], implementation=[str(x)[:300] for x in got]))
                        break
            # K: the model in Coq on the compact description
            if m["k"] and m["parts"] is not None and not w["zip"]:
                pname = "%sp%d" % (P, mi)
                pre.append("Definition %s : list (str * N) := %s." % (
                    pname, coq_list(["(%s, %d)" % (coq_str(u(b)), n) for b, n in m["parts"]])))
                cores = [coq_core(e["type"], e["name"], e["selector"], e["host"], e["port"], e["gplus"]) for e in ents]
                key = dict(base, kind="large-map entries", tree=None, gophermap_latin1=None,
                           implementation={"entries": len(ents), "first": ents[:2], "last": ents[-2:]})
                # typed: a list of entries without host and port gives Coq nothing to infer the type of None from
                pre.append("Definition %so%d : (N * (list core * list core)) := (%d, (%s, %s))." % (
                    P, mi, len(ents), coq_list(cores[:5]), coq_list(cores[-8:])))
                cases = ["(%s, (((%s, %s), (%s, %sex)), %so%d))" % (
                    coq_bool(fixed), coq_str(m["selector"]), coq_bool(m["is_file"]), pname, P, P, mi) for fixed in (True, False)]
                coqjobs.append([pre, cases, [(True, key), (False, key)], "chk_bigworld"])
                stats["large_map_k_cases"] += 1
        # ---- every protocol
        for (mi, proto, data, tls), out in zip(w["rmeta"], r["res"]["results"]):
            m, c = w["meta"][mi], comps[mi]
            lines, wants, base = per_map[mi]
            stats["large_map_requests"] += 1
            chk.count(("large-map e2e", proto, m["selector"], m["data"]))
            ob = out["out"].encode("latin-1")
            replay = dict(base, protocol=proto, request_latin1=gen.lat(data), tls=tls, exception=out["exc"],
                          response_bytes=len(ob), response_latin1=out["out"][:1500], response_tail_latin1=out["out"][-1500:])
            if c["handler"] != "BuckGophermapHandler" or c["exc"] is not None:
                continue
            rits, items = rendered_items(proto, ob)
            if out["exc"] is not None or rits is None:
                hit(f"large-map:render-failed:{proto}",
                    dict(replay, what="the listing of a large gophermap could not be read back as one item per line"))
                continue
            if len(rits) != len(lines):
                k = min(len(rits), len(lines))
                hit(f"large-map:item-count:{proto}",
                    dict(replay, what="the listing of a large gophermap is not one item per gophermap line", items=len(rits),
                         first_line_not_rendered=lines[k][:200] if k < len(lines) else None,
                         last_items=[str(x[0])[:80] for x in rits[-3:]]))
                continue
            n = len(lines)
            bad = None
            for i, (wt, (desc, _)) in enumerate(zip(wants, rits)):
                if wt is None:
                    continue
                stats["large_map_item_checks"] += 1
                if desc != as_rendered(proto, wt[1]):
                    bad = (i, "rendered description differs from the documented reading", desc)
                    break
                if items is not None:
                    wantm = (wt[0], wt[1], wt[2], wt[3] if wt[3] is not None else SRV, str(wt[4] if wt[4] is not None else PORT))
                    if items[i][:5] != wantm:
                        bad = (i, "Gopher menu line differs from the documented reading", list(items[i]))
                        break
            if bad is None:
                idxs = set(range(min(n, 40))) | set(range(max(0, n - 40), n)) | set(rng.sample(range(n), min(n, 150)))
                for i in sorted(idxs):
                    if wants[i] is None:
                        continue
                    stats["large_map_target_checks"] += 1
                    why = target_problem(proto, wants[i], rits[i][1])
                    if why is not None:
                        bad = (i, "the item does not lead where its gophermap line points: " + why, rits[i][1])
                        break
            if bad is not None:
                i, why, got = bad
                hit(f"large-map:items:{proto}",
                    dict(replay, what=why, line_index=i, lines_after_it=n - 1 - i, line=lines[i][:300],
                         documented=[str(x)[:300] for x in wants[i]], rendered=str(got)[:300]))
                continue
            # K: the Gopher0 menu of the maps built by repetition
            if proto == "gopher" and m["k"] == "entries+menu" and m["parts"] is not None and not w["zip"]:
                body = u(ob)
                pname = "%sp%d" % (P, mi)
                key = dict(replay, kind="large-map menu", tree=None, gophermap_latin1=None)
                variants = (True,) if len(m["data"]) > 20000 else (True, False)
                pre.append("Definition %sm%d : (N * (str * str)) := (%d, (%s, %s))." % (
                    P, mi, len(body), coq_str(body[:400]), coq_str(body[-600:])))
                cases = ["(%s, (((%s, %s), (%s, %sex)), %sm%d))" % (
                    coq_bool(fixed), coq_str(m["selector"]), coq_bool(m["is_file"]), pname, P, P, mi) for fixed in variants]
                coqjobs.append([pre, cases, [(fx, key) for fx in variants], "chk_bigmenu"])
                stats["large_map_k_cases"] += 1
    return [("\n".join(pre), cases, keys, checker) for pre, cases, keys, checker in coqjobs]


def run(tier):
    chk = Check("C09", tier)
    chk.proofs(extra_files=["Corr/K09.v"])
    if getattr(chk, "proof_ok", False) and not chk.coverage["print_assumptions"]["closed_theorems"]:
        # an unrelated file of the development failed to build: common.proofs() re-ran Print Assumptions for the
        # verdict but kept the empty record; record what Props/C09.v printed
        from common import print_assumptions, parse_assumptions
        rc, out = print_assumptions("C09")
        if rc == 0:
            closed, axioms = parse_assumptions(out)
            chk.coverage["print_assumptions"] = {"closed_theorems": closed, "axioms": axioms}
            chk.coverage["trusted_base"][-1] = ("Print Assumptions for Props/C09.v: %d theorem(s) 'Closed under the global "
                                                "context'; axioms: %s" % (closed, ", ".join(axioms) if axioms else "none"))
    rng = chk.rng
    cov = chk.coverage
    thorough = tier == "thorough"
    hits = {}
    chk.notes["seconds_build_and_proofs"] = round(__import__("time").time() - chk.t0, 1)

    def hit(tag, replay):
        hits.setdefault(tag, []).append(replay)

    # ---------------- small component correspondences: int(), dirname/basename ----------------
    ints = ["", "70", " 70 ", "+70", "-70", "- 70", "7_0", "_70", "70_", "7__0", "0_7", "007", "+", "-", "0x10", "1e3",
            "\x0b70\x0c", "\x1c70", "70\x1f", "7 0", "--7", "+-7", "0" * 4299 + "7", "1" * 4301, "0_" * 4299 + "7", "0_" * 4300 + "7", "9" * 40,
            "\t7\n", "7\r", "00", "-0", "+0_0", "9" * 25, "7_", "_", "__", "1_000_000", "+_1"]
    alpha = "0123456789_+- \t\x0b\x1cx."
    for _ in range(1500 if thorough else 400):
        ints.append("".join(rng.choice(alpha[:12] if rng.random() < 0.7 else alpha) for _ in range(rng.randrange(1, 8))))
    paths = ["/", "/a", "/a/b", "/a/b.gophermap", "/x.gophermap", "a", "", "/a/", "//", "//a", "/a//b", "a/b/",
             "/d1/d2/d3/x.gophermap", "/\udcae/y", "/a b/c d"]
    for _ in range(600 if thorough else 150):
        paths.append("".join(rng.choice("/ab.") for _ in range(rng.randrange(0, 9))))
    r_int, r_path = impl_run([{"op": "pyint", "inputs": ints}, {"op": "pathfun", "inputs": paths}])
    for r in (r_int, r_path):
        if not r["ok"]:
            raise RuntimeError(r["err"] + "\n" + r.get("tb", ""))
    icases = ["(%s, %s)" % (coq_str(s), coq_opt(v, coq_z)) for s, v in zip(ints, r_int["res"])]
    pcases = ["(%s, (%s, %s))" % (coq_str(p), coq_str(d), coq_str(b)) for p, (d, b) in zip(paths, r_path["res"])]
    for s, v in zip(ints, r_int["res"]):
        chk.count(("int", s), nontrivial=v is not None)
    for p in paths:
        chk.count(("path", p))

    # ---------------- handler selection ----------------
    sel_maps = {"gophermap": b"iroot\n", "withmap/gophermap": b"ihello\n", "deep/er/withmap/gophermap": b"0a\ta.txt\n",
                "x.gophermap": b"ix\n", "withmap/y.gophermap": b"iy\n", "dd.gophermap/gophermap": b"idd\n",
                "deep/er/z.gophermap": b"1z\tzz\n"}
    sel_tree = [{"path": p, "data": lat(d)} for p, d in sel_maps.items()] + [
        {"path": "nomap", "kind": "dir"}, {"path": "nomap/a.txt", "data": "a\n"},
        {"path": "mapisdir", "kind": "dir"}, {"path": "mapisdir/gophermap", "kind": "dir"},
        {"path": "ee.gophermap", "kind": "dir"}, {"path": "a.txt", "data": "a\n"},
        {"path": "fifo.gophermap", "kind": "fifo"}, {"path": "gophermap.txt", "data": "no\n"},
        {"path": "x.gophermap.bak", "data": "no\n"}, {"path": "deep/er/plain", "kind": "dir"}]
    node = {"": (0, True)}
    for e in sel_tree:
        parts = e["path"].split("/")
        for k in range(1, len(parts)):
            node.setdefault("/" + "/".join(parts[:k]), (0, False))
        node["/" + e["path"]] = ({"dir": 0, "file": 1, "fifo": 2}[e.get("kind", "file")], False)
    for s in list(node):
        if node[s][0] == 0:
            node[s] = (0, node.get(s + "/gophermap", (3, False))[0] == 1)
    sel_cases = [(s if s else "/", node[s][0], node[s][1]) for s in sorted(node)]
    for s in ["/missing", "/missing.gophermap", "/nomap/none", "/a.txt/x.gophermap", "/withmap/nothing.gophermap"]:
        sel_cases.append((s, 3, False))
    r_sel, = impl_run([{"op": "gm_select", "tree": sel_tree, "config": CONFIG, "selectors": [c[0] for c in sel_cases]}])
    if not r_sel["ok"]:
        raise RuntimeError(r_sel["err"] + "\n" + r_sel.get("tb", ""))
    scases = ["(((%d, %s), %s), (%s, %s))" % (k, coq_bool(hm), coq_str(s), coq_bool(o["can"]), coq_opt(o["src"], coq_str))
              for (s, k, hm), o in zip(sel_cases, r_sel["res"])]
    # oracle, independent of the model: chosen exactly for directories holding a regular file
    # "gophermap" and for regular files named *.gophermap; reads that very file
    for (s, k, hm), o in zip(sel_cases, r_sel["res"]):
        chk.count(("select", s), nontrivial=o["can"])
        want = (k == 0 and hm) or (k == 1 and s.endswith(".gophermap"))
        want_src = None if not want else (s if k == 1 else ("" if s == "/" else s) + "/gophermap")
        if o["can"] != want or (want and o["src"] != want_src):
            hit("selection", {"what": "BuckGophermapHandler chosen / not chosen against the documented rule, or reads another file",
                              "selector": s, "node": ["dir", "file", "other", "missing"][k], "has_gophermap_file": hm,
                              "canhandlerequest": o["can"], "opened": o["src"], "expected": [want, want_src],
                              "tree": sel_tree, "config": CONFIG})

    # ---------------- worlds ----------------
    nworld = {"wf": 120, "padded": 50, "raising": 25} if thorough else {"wf": 20, "padded": 10, "raising": 6}
    worlds = []
    for stream, cnt in nworld.items():
        for wi in range(cnt):
            maps, meta = {}, []
            shape_slot = rng.randrange(8) if stream == "wf" and wi else None   # one map with every field-count shape
            for depth, d in enumerate(DEPTH_DIRS):
                for is_file in (False, True):
                    special = None
                    if stream == "wf" and wi == 0:
                        special = {(0, False): "example", (1, True): "minimal", (1, False): "bucktooth", (2, True): "bucktooth",
                                   (3, True): "blank", (3, False): "empty"}.get((depth, is_file))
                    if shape_slot == 2 * depth + is_file:
                        special = "shapes"
                    data = gen_map(rng, stream, depth, is_file, special)
                    path = (d + "/" if d else "") + ("x.gophermap" if is_file else "gophermap")
                    maps[path] = data
                    sel = "/" + path if is_file else ("/" + d if d else "/")
                    meta.append({"selector": sel, "is_file": is_file, "depth": depth, "data": data, "stream": stream})
            # abstracts: about 40% of the servable worlds run with abstracts switched on -- mostly the SHIPPED settings
            # (abstract_headers = on, abstract_entries = always), some with 'unsupported' or headers off
            absmode = None
            if stream != "raising" and wi % 5 in (1, 3):
                absmode = [(True, "always"), (True, "always"), (True, "unsupported"), (False, "always")][(wi // 5 + wi) % 4]
            # who this server is: the worlds without abstracts run under every identity in turn
            srv = IDENTITIES[wi % len(IDENTITIES)] if absmode is None else (SRV, PORT)
            tree = tree_for(maps, gen_sidecars(rng, 0.6 if absmode else 0.15))
            wconf = CONFIG if absmode is None else dict(CONFIG, pygopherd={"abstract_headers": "on" if absmode[0] else "off",
                                                                         "abstract_entries": absmode[1]})
            reqs, rmeta = [], []
            if stream != "raising":
                for mi, m in enumerate(meta):
                    for proto in gen.PROTOCOLS:
                        data, tls = gen.request_bytes(proto, m["selector"])
                        reqs.append({"data": gen.lat(data), "tls": tls})
                        rmeta.append((mi, proto, data, tls))
            worlds.append({"op": "gm_world", "tree": tree, "config": wconf, "maps": [m["selector"] for m in meta],
                           "requests": reqs, "_meta": meta, "_rmeta": rmeta, "_stream": stream, "_zip": None,
                           "_existing": existing_selectors(tree), "_abs": absmode, "_srv": srv,
                           "server_name": srv[0], "server_port": srv[1]})
    # the same kinds of gophermaps INSIDE a ZIP archive, served through ZIP.ZIPHandler (a virtual file system)
    nzip = {"wf": 20, "padded": 8, "raising": 4} if thorough else {"wf": 4, "padded": 2, "raising": 1}
    GEN_PREFIX[0] = ZIPSEL.encode()
    try:
        for stream, cnt in nzip.items():
            for wi in range(cnt):
                maps, meta = {}, []
                for depth, d in enumerate(DEPTH_DIRS):
                    for is_file in (False, True):
                        special = None
                        if stream == "wf" and wi == 0:
                            special = {(0, False): "bucktooth", (1, False): "minimal", (2, True): "minimal"}.get((depth, is_file))
                        data = gen_map(rng, stream, depth, is_file, special)
                        path = (d + "/" if d else "") + ("x.gophermap" if is_file else "gophermap")
                        maps[path] = data
                        sel = ZIPSEL + "/" + path if is_file else (ZIPSEL + "/" + d if d else ZIPSEL)
                        meta.append({"selector": sel, "is_file": is_file, "depth": depth, "data": data, "stream": stream})
                tree, members = zip_tree(maps)
                reqs, rmeta = [], []
                if stream != "raising":
                    for mi, m in enumerate(meta):
                        for proto in gen.PROTOCOLS:
                            data, tls = gen.request_bytes(proto, m["selector"])
                            reqs.append({"data": gen.lat(data), "tls": tls})
                            rmeta.append((mi, proto, data, tls))
                worlds.append({"op": "gm_world", "tree": tree, "config": ZCONFIG, "maps": [m["selector"] for m in meta],
                               "requests": reqs, "_meta": meta, "_rmeta": rmeta, "_stream": stream, "_zip": ZIPSEL,
                               "_existing": members, "_outside": existing_selectors(tree), "_abs": None})
    finally:
        GEN_PREFIX[0] = b""
    import time as _time
    t_impl0 = _time.time()
    wres = impl_run_parallel([{k: v for k, v in w.items() if not k.startswith("_")} for w in worlds],
                             chunks=min(len(worlds), 8))
    for r in wres:
        if not r["ok"]:
            raise RuntimeError(r["err"] + "\n" + r.get("tb", ""))

    chk.notes["seconds_implementation_worlds"] = round(_time.time() - t_impl0, 1)
    tcases = []                 # chk_twin
    seen_lines = set()
    wjobs = []                  # per world: (preamble, case literals, keys)
    stats = {"maps": 0, "lines": 0, "wf_lines": 0, "link_lines": 0, "info_lines": 0, "raising_maps": 0,
             "requests": 0, "oracle_entry_checks": 0, "oracle_protocol_checks": 0, "mapfile_relative_hits": 0,
             "entry_list_cases": 0, "gopher_menu_cases": 0, "zip_maps": 0, "link_target_checks": 0, "abstract_worlds": 0,
             "abstract_listings": 0, "abstract_items_checked": 0, "abstract_menu_cases": 0}
    EXC = {"IndexError": 0, "ValueError": 1}
    sample_comp = sample_e2e = None
    for wn, (w, r) in enumerate(zip(worlds, wres)):
        P = "w%d_" % wn             # names are unique per world so that several worlds can share one shard file
        pre = ["Definition %sex : list str := %s." % (P, coq_list([coq_str(s) for s in w["_existing"]]))]
        if w["_zip"]:
            pre.append("Definition %sout : list str := %s." % (P, coq_list([coq_str(x) for x in w["_outside"]])))
        wcases, wkeys = [], []
        comps = r["res"]["components"]

        wcfg = w["config"]
        idx = tree_index(w["tree"]) if w["_abs"] else None
        acases, akeys = [], []
        apre = []
        if w["_abs"]:
            sidecar = sorted(k for k, v in idx.items() if v[0] == "file" and k.endswith(".abstract"))
            apre = ["Definition %sdirs : list str := %s." % (P, coq_list([coq_str(k) for k in sorted(idx) if idx[k][0] == "dir"])),
                    "Definition %sabs : list (str * str) := %s." % (P, coq_list(
                        ["(%s, %s)" % (coq_str(k), coq_str(u(idx[k][1]))) for k in sidecar]))]
            stats["abstract_worlds"] += 1

        def add_case(mi, m, obs, key, w=w, wcases=wcases, wkeys=wkeys, pre=pre, P=P):
            # the observation is written once and named; both model variants refer to it
            pre.append("Definition %so%d : observation := %s." % (P, len(wcases), obs))
            obs = "%so%d" % (P, len(wcases))
            for fixed in (True, False):
                if w["_zip"]:
                    wcases.append("(%s, ((%s, ((%s, %s), (%sc%d, (%sex, %sout)))), %s))" % (
                        coq_bool(fixed), coq_str(w["_zip"]), coq_str(m["selector"]), coq_bool(m["is_file"]), P, mi, P, P, obs))
                else:
                    wcases.append("((%s, %s), (%s, (((%s, %s), (%sc%d, %sex)), %s)))" % (
                        coq_str(w["_srv"][0]), coq_z(w["_srv"][1]), coq_bool(fixed), coq_str(m["selector"]),
                        coq_bool(m["is_file"]), P, mi, P, obs))
                wkeys.append((fixed, key))

        for mi, (m, c) in enumerate(zip(w["_meta"], comps)):
            stats["maps"] += 1
            pre.append("Definition %sc%d : str := %s." % (P, mi, coq_str(u(m["data"]))))
            lines = [u(l) for l in split_lines(m["data"])]
            stats["lines"] += len(lines)
            replay_base = {"selector": m["selector"], "is_mapfile": m["is_file"], "gophermap_latin1": lat(m["data"]),
                           "tree": w["tree"], "config": wcfg, "stream": m["stream"], "inside_zip": w["_zip"],
                           "server_name": w.get("server_name", SRV), "server_port": w.get("server_port", PORT)}
            stats["zip_maps"] += bool(w["_zip"])
            if c["handler"] != "BuckGophermapHandler":
                hit("selection:zip" if w["_zip"] else "selection",
                    dict(replay_base, what="a gophermap was not handed to BuckGophermapHandler (the directory is not rendered "
                                           "from its gophermap)", handler=c["handler"], outer_handler=c.get("outer"),
                         exception=c["exc"]))
                continue
            if c["exc"] is not None:
                stats["raising_maps"] += 1
                obs = "obs_raise %d" % EXC.get(c["exc"], 2)
                if m["stream"] != "raising":
                    # prepare() raised on a gophermap the generator meant to be servable
                    hit("prepare-raises:" + str(c["exc"]),
                        dict(replay_base, what="prepare() raised on a gophermap without malformed lines", exception=c["exc"]))
            else:
                ents = c["entries"]
                obs = "obs_entries %s" % coq_list([coq_core(e["type"], e["name"], e["selector"], e["host"], e["port"],
                                                            e["gplus"]) for e in ents])
                # ---- oracle 1: exactly one entry per line
                if len(ents) != len(lines):
                    hit("entry-count", dict(replay_base, what="number of entries differs from number of gophermap lines",
                                            lines=len(lines), entries=len(ents)))
                else:
                    # ---- oracle 2: each well-formed line reads as documented
                    ddir = doc_dir(m["selector"], m["is_file"])
                    for i, (ln, e) in enumerate(zip(lines, ents)):
                        if not twin_wf(ln):
                            continue
                        stats["oracle_entry_checks"] += 1
                        want = twin_item(ddir, ln)
                        got = (e["type"], e["name"], e["selector"], e["host"], e["port"])
                        if want != got:
                            bad = [f for f, a, b in zip(("type", "description", "selector", "host", "port"), want, got) if a != b]
                            tag = "spec-mismatch:" + "+".join(bad)
                            rel = want[2][len("" if ddir == "/" else ddir) + 1:]
                            if m["is_file"] and bad == ["selector"] and got[2] == m["selector"] + "/" + rel:
                                tag = "mapfile-relative-base"
                                stats["mapfile_relative_hits"] += 1
                            hit(tag, dict(replay_base, what="entry differs from the documented reading of its gophermap line",
                                          line_index=i, line=ln, documented=list(want), implementation=list(got), fields=bad))
            add_case(mi, m, "(%s)" % obs, dict(replay_base, kind="entries", implementation=c))
            stats["entry_list_cases"] += 1
            if sample_comp is None and c["entries"]:
                sample_comp = {"kind": "component", "selector": m["selector"], "gophermap_latin1": lat(m["data"])[:200],
                               "entries": c["entries"][:3]}
            nontriv = False
            for ln in lines:
                wf = twin_wf(ln)
                stats["wf_lines"] += wf
                if "\t" in ln:
                    stats["link_lines"] += 1
                    nontriv = True
                else:
                    stats["info_lines"] += 1
                key = (doc_dir(m["selector"], m["is_file"]), ln)
                if key not in seen_lines:
                    seen_lines.add(key)
                    t = twin_item(key[0], ln) if wf else ("i", "", "fake", None, None)
                    tcases.append("((%s, %s), (%s, %s))" % (coq_str(key[0]), coq_str(ln), coq_bool(wf),
                                                            coq_core(t[0], t[1], t[2], t[3], t[4], False)))
                    chk.count(("line", m["selector"], ln), nontrivial="\t" in ln)
            chk.count(("map", m["selector"], m["data"]), nontrivial=nontriv)
        # ---- end to end
        results = r["res"]["results"]
        menus_seen = set()
        for (mi, proto, data, tls), out in zip(w["_rmeta"], results):
            stats["requests"] += 1
            m, c = w["_meta"][mi], comps[mi]
            ob = out["out"].encode("latin-1")
            replay = {"protocol": proto, "selector": m["selector"], "is_mapfile": m["is_file"], "request_latin1": gen.lat(data),
                      "tls": tls, "gophermap_latin1": lat(m["data"]), "tree": w["tree"], "config": wcfg,
                      "response_latin1": out["out"][:1500], "exception": out["exc"], "inside_zip": w["_zip"],
                      "server_name": w.get("server_name", SRV), "server_port": w.get("server_port", PORT)}
            chk.count(("e2e", proto, m["selector"], m["data"]))
            if c["exc"] is not None or c["handler"] != "BuckGophermapHandler":
                continue
            lines = [u(l) for l in split_lines(m["data"])]
            rits, items = rendered_items(proto, ob)
            ds = None if rits is None else [d for d, _ in rits]
            stats["oracle_protocol_checks"] += 1
            names = [e["name"] for e in c["entries"]]
            if out["exc"] is not None or ds is None:
                hit(f"render-failed:{proto}", dict(replay, what="the listing of a gophermap could not be read back as one item "
                                                                "per line (exception or unexpected framing)"))
                continue
            # one rendered item per gophermap line, in file order, same entries in every protocol -- and, with abstracts
            # switched on, the documented abstract lines and nothing else
            layout = expected_layout(idx, w["_abs"], m["selector"], m["is_file"], c["entries"], proto)
            if len(c["entries"]) != len(lines):
                continue                                            # reported at component level (entry-count)
            if len(ds) != len(layout):
                hit(f"item-count:{proto}", dict(replay, what="the listing is not one item per gophermap line (plus the documented "
                                                             "abstract lines when abstracts are switched on)",
                                                lines=len(lines), items=len(ds), expected_items=len(layout),
                                                abstract_settings=w["_abs"], rendered=ds[:12],
                                                expected_layout=[list(x) for x in layout[:12]]))
                continue
            if w["_abs"]:
                stats["abstract_listings"] += 1
                badk = None
                for k, lay in enumerate(layout):
                    if lay[0] == "line":
                        continue
                    stats["abstract_items_checked"] += 1
                    text = lay[-1]
                    if ds[k] != as_rendered(proto, text) or rits[k][1] is not None or \
                            (items is not None and items[k] != ("i", text, "fake", "(NULL)", "0", False)):
                        badk = k
                        break
                if badk is not None:
                    hit(f"abstract-items:{proto}",
                        dict(replay, what="an abstract line of the listing is not the documented one (header = the listed object's own "
                                          "abstract; after an entry = that entry's own abstract)", item_index=badk,
                             expected=list(layout[badk]), rendered=ds[badk], abstract_settings=w["_abs"]))
                    continue
                keep = [k for k, lay in enumerate(layout) if lay[0] == "line"]
                ds = [ds[k] for k in keep]
                rits = [rits[k] for k in keep]
                if items is not None:
                    items = [items[k] for k in keep]
            if ds != [as_rendered(proto, n) for n in names]:
                hit(f"protocol-divergence:{proto}",
                    dict(replay, what="protocol renders other descriptions / another order than the entry list prepare() built",
                         rendered=ds, entries=names))
                continue
            # documented reading, end to end
            ddir = doc_dir(m["selector"], m["is_file"])
            for i, ln in enumerate(lines):
                if not twin_wf(ln):
                    continue
                want = twin_item(ddir, ln)
                if ds[i] != as_rendered(proto, want[1]):
                    hit(f"protocol-spec-mismatch:{proto}",
                        dict(replay, what="rendered description differs from the documented reading", line_index=i,
                             line=ln, documented=want[1], rendered=ds[i]))
                    break
                why = target_problem(proto, want, rits[i][1], w.get("_srv"))
                stats["link_target_checks"] += 1
                if why is not None:
                    kind = "url" if re.match(r"/?URL:", want[2]) else ("local" if want[3] is None and want[4] is None else "remote")
                    hit(f"link-target:{kind}:{proto}",
                        dict(replay, what="the item does not lead where the documented reading of its gophermap line points: " + why,
                             line_index=i, line=ln, documented=list(want), rendered_target=rits[i][1]))
                    break
                if items is not None:
                    it = items[i]
                    srv_name, srv_port = w.get("_srv") or (SRV, PORT)
                    wantm = (want[0], want[1], want[2], want[3] if want[3] is not None else srv_name,
                             str(want[4] if want[4] is not None else srv_port))
                    if it[:5] != wantm:
                        bad = [f for f, a, b in zip(("type", "description", "selector", "host", "port"), wantm, it[:5]) if a != b]
                        tag = f"menu-spec-mismatch:{'+'.join(bad)}"
                        if m["is_file"] and bad == ["selector"] and it[2].startswith(m["selector"] + "/"):
                            tag = "mapfile-relative-base"
                        hit(tag, dict(replay, what="Gopher menu line differs from the documented reading (host/port default = "
                                                   "this server)", line_index=i, line=ln, documented=list(wantm), rendered=list(it)))
                        break
            if proto in ("gopher", "sgopher", "gopherplus", "sgopherplus"):
                body = ob
                if proto.endswith("plus"):
                    body = ob[re.match(rb"\+-?\d+\r\n", ob).end():]
                doabs = bool(w["_abs"]) and (w["_abs"][1] == "always" or (w["_abs"][1] == "unsupported" and not proto.endswith("plus")))
                if (mi, body, doabs) not in menus_seen:        # identical menu bytes are evaluated once
                    menus_seen.add((mi, body, doabs))
                    if w["_abs"]:
                        apre.append("Definition %sr%d : str := %s." % (P, len(acases), coq_str(u(body))))
                        rname = "%sr%d" % (P, len(acases))
                        for fixed in (True, False):
                            acases.append("(%s, ((((%s, %s), (%sc%d, %sex)), (%sdirs, %sabs)), ((%s, %s), %s)))" % (
                                coq_bool(fixed), coq_str(m["selector"]), coq_bool(m["is_file"]), P, mi, P, P, P,
                                coq_bool(w["_abs"][0]), coq_bool(doabs), rname))
                            akeys.append((fixed, dict(replay, kind="menu+abstracts", abstract_settings=w["_abs"])))
                        stats["abstract_menu_cases"] += 1
                    else:
                        add_case(mi, m, "(obs_menu %s)" % coq_str(u(body)), dict(replay, kind="menu"))
                        stats["gopher_menu_cases"] += 1
                if sample_e2e is None and body:
                    sample_e2e = {"kind": "end-to-end", "protocol": proto, "selector": m["selector"],
                                  "response_latin1": out["out"][:200]}
        if wcases:
            wjobs.append(("\n".join(pre), wcases, wkeys, "chk_zworld" if w["_zip"] else "chk_world_id"))
        if acases:
            wjobs.append(("\n".join(pre + apre), acases, akeys, "chk_aworld"))

    # ---------------- histories in one long-lived process ----------------
    t_h0 = _time.time()
    wjobs.extend(j + ("chk_world",) for j in history_leg(chk, rng, thorough, hit, stats, scases, sel_cases))
    chk.notes["seconds_history_leg"] = round(_time.time() - t_h0, 1)

    # ---------------- overlapping requests ----------------
    t_c0 = _time.time()
    concurrency_leg(chk, rng, thorough, hit, stats)
    chk.notes["seconds_concurrency_leg"] = round(_time.time() - t_c0, 1)

    # ---------------- large gophermaps ----------------
    t_s0 = _time.time()
    bigjobs = size_leg(chk, rng, thorough, hit, stats)
    chk.notes["seconds_large_map_leg"] = round(_time.time() - t_s0, 1)

    # ---------------- K: model in Coq vs implementation ----------------
    import concurrent.futures
    t_coq0 = _time.time()

    # several worlds per shard file (coqc start-up dominates small shards)
    batched = []
    for checker in ("chk_world", "chk_world_id", "chk_zworld", "chk_aworld"):
        group = [j for j in wjobs if j[3] == checker]
        for k in range(0, len(group), 3):
            part = group[k:k + 3]
            batched.append((PRE + "\n" + "\n".join(j[0] for j in part), [c for j in part for c in j[1]],
                            [key for j in part for key in j[2]], checker))
    wjobs = batched + [(PRE + "\n" + j[0], j[1], j[2], j[3]) for j in bigjobs]     # one large map per shard

    def eval_world(arg):
        k, (pre, wcases, wkeys, checker) = arg
        return coq_eval("C09", "k_world_%d" % k, IMPORTS, checker, wcases, shard=100000, pre=pre)

    small = [("k_int", "chk_int", icases, 300), ("k_path", "chk_path", pcases, 400), ("k_select", "chk_select", scases, 400),
             ("k_twin", "chk_twin", tcases, 500)]
    with concurrent.futures.ThreadPoolExecutor(max_workers=8) as exr:
        fut_small = [exr.submit(coq_eval, "C09", nm, IMPORTS, ck, cs, sh, 600, PRE) for nm, ck, cs, sh in small]
        world_out = list(exr.map(eval_world, enumerate(wjobs)))
        (m_int, e_int, n1), (m_path, e_path, n2), (m_sel, e_sel, n3), (mt, et, n5) = [f.result() for f in fut_small]
    chk.notes["seconds_model_evaluation_in_coq"] = round(_time.time() - t_coq0, 1)
    errors = [e for e in (e_int, e_path, e_sel, et) if e]
    mis = {True: [], False: []}         # model variant -> mismatching keys
    nshards = n1 + n2 + n3 + n5
    for (pre, wcases, wkeys, _checker), (mm, ee, ns) in zip(wjobs, world_out):
        nshards += ns
        if ee:
            errors.append(ee)
        for i in mm:
            fixed, key = wkeys[i]
            mis[fixed].append(key)
    fixed_ok = not mis[True] and not errors
    pinned_ok = not mis[False] and not errors
    # the pinned model differs from the repaired one only for relative links in *.gophermap files
    only_mapfile = all(k["is_mapfile"] for k in mis[True])
    variant = "repaired" if fixed_ok else ("pinned" if pinned_ok else "neither")

    def brief(keys):
        return [{k: key.get(k) for k in ("kind", "protocol", "selector", "gophermap_latin1", "implementation", "response_latin1")}
                for key in keys[:5]]

    cov["correspondence"] = {
        "int_cases": len(icases), "path_cases": len(pcases), "selection_cases": len(scases),
        "entry_list_cases": stats["entry_list_cases"], "gopher_menu_cases": stats["gopher_menu_cases"],
        "spec_twin_lines": len(tcases), "shards": nshards,
        "mismatches": {"int": len(m_int), "path": len(m_path), "selection": len(m_sel), "twin": len(mt),
                       "vs_repaired_model": len(mis[True]), "vs_pinned_model": len(mis[False])},
        "implementation_matches_model_variant": variant, "errors": errors,
        "mismatch_detail_vs_pinned_model": brief(mis[False]),
        "mismatch_detail_vs_repaired_model": brief([k for k in mis[True] if not k["is_mapfile"]]),
    }
    cov["oracle"] = stats
    cov["generator"] = {"worlds": nworld, "maps_per_world": 8, "depths": ["/" + d if d else "/" for d in DEPTH_DIRS],
                        "streams": "wf = every line well-formed by the documents; padded = white space around fields, "
                                   "indented info, empty description, >4 fields, int() extras (no raise expected); "
                                   "raising = one or two malformed lines (component level only)"}
    cov["generator"]["server_identity"] = (
        "the worlds without abstracts run under %d server identities in turn (server_name x server_port %s): what a missing "
        "host / port means; one map per wf world holds every field-count shape of a link line (1-4 fields x empty / given "
        "selector, host, port); Gopher0 / Gopher+ menu lines (host and port columns) and the gopher:// link targets of the other "
        "protocols are compared with the documented reading for THAT server, the model in Coq renders the menu for that server "
        "(chk_world_id); the live ThreadingTCPServer is configured with a servername / advertisedport drawn per run (or no "
        "advertisedport: the port it listens on)" % (len(IDENTITIES), sorted({p_ for _, p_ in IDENTITIES})))
    cov["generator"]["large_maps"] = (
        "file sizes exactly at, one byte either side of, and beyond %s bytes (a line ending exactly on the boundary with more "
        "lines behind it; lines straddling it; header + stanza * n + tail repetitions whose compact description the model "
        "expands inside Coq), 7000-20000 (thorough: 70000) very short / blank lines, single lines of 4095 .. 300000 bytes (info "
        "text, link description, URL: selector; also as the LAST line), LF and CRLF, last line with and without its newline; "
        "as <dir>/gophermap and x.gophermap at depths 0-3 and inside /T.zip; every protocol" % SIZE_BOUNDS)
    for smp in (sample_comp, sample_e2e):
        if smp:
            chk.sample(smp)

    # ---------------- verdict ----------------
    for tag in sorted(hits):
        first = min(hits[tag], key=lambda h: (len(h.get("gophermap_latin1", "")), h.get("selector", "")))
        first = dict(first, occurrences=len(hits[tag]),
                     how_to_replay="./check C09 --replay <this file>  (builds the tree, asks the real handler and the request)")
        chk.violation(first, tag=tag)
    found = bool(hits)
    cov["oracle"]["hits_by_tag"] = {t: len(v) for t, v in hits.items()}
    k_broken = bool(m_int or m_path or m_sel or mt or errors) or not (fixed_ok or (pinned_ok and only_mapfile))
    if variant == "pinned" and not stats["mapfile_relative_hits"]:
        k_broken = True     # the code matches the pinned variant but the oracle did not exhibit the difference
    if k_broken:
        detail = {"int": [ints[i] for i in m_int[:10]], "path": [paths[i] for i in m_path[:10]],
                  "selection": [sel_cases[i] for i in m_sel[:10]], "twin": [tcases[i][:300] for i in mt[:5]],
                  "vs_repaired_model": brief(mis[True]), "vs_pinned_model": brief(mis[False]), "errors": errors}
        chk.correspondence_broken("K09 (gophermap classifier / Gopher0 menu / selection / int / spec twin)", detail, found)
    chk.finish_proofs(found)
    cov["rule"] = ("generated gophermaps (info, blank, links with 1-4 fields, absolute/relative/URL: selectors, remote hosts, ports, "
                   "LF/CRLF/mixed endings, missing final newline, non-UTF-8 bytes; separate padded and raising streams) as "
                   "<dir>/gophermap at depths 0-3 and as x.gophermap files; component: entries of the real handler vs model in Coq; "
                   "end to end: 9 protocol syntaxes, Gopher0/Gopher+ menu bytes vs model in Coq, one item per line and same "
                   "descriptions in every protocol; oracle: Python twin of the documents on well-formed lines; "
                   "non-trivial = contains a link line / is accepted")
    chk.assumptions += [
        "file system enters the model as fs_exists/populate; in K a symlink-free scratch tree whose node list is passed to Coq; "
        "populate_core models only type/name/gopherpsupport/populated of populatefromfs (mimetype, size, times, abstracts: C04/C08/C15)",
        "gemini/spartan footers removed; about 60% of the servable worlds run with abstract_headers=off, abstract_entries=never (a listing "
        "is exactly the rendered entries), about 40% with abstracts on -- mostly the shipped abstract_headers=on, abstract_entries=always, "
        "some 'unsupported' / headers off -- on trees with .abstract/.keywords/.ask/.3d sidecars for directories, files and stand-alone "
        "map files; expected: lines of the LISTED object's own abstract first, every entry followed by the lines of its own abstract "
        "(existing local target with a sidecar); abstract files are plain text (no trailing blanks / exotic line separators)",
        "int() modelled for ASCII input (Lib/PyInt.v); non-ASCII digits/spaces in a port field are outside the model",
        "link selectors of generated gophermaps avoid '..', './', '//' (DESIGN D15: they reach vfs.exists unfiltered; handled under C01)",
        "HTML/WML/gemini/spartan renderings are read back by the harness (description texts only); their markup is C06/C13's subject",
        "well-formed (wf_gmline): one line, no white space at either end of any field or of an info line, 2..4 tab-separated fields, "
        "type + NON-EMPTY description, port empty or <= 4300 ASCII digits",
        "ZIP leg: the same gophermap generators packed into /T.zip and served through ZIP.ZIPHandler (handler list with "
        "ZIP.ZIPHandler, enabled); the model's file system is VFSZip.exists (/repo 91cede6): the archive and what lies below it are "
        "looked up in the archive's index, every other link target in the surrounding scratch tree -- the same expectations as for "
        "the extracted tree, modulo the selector prefix; only UTF-8 member names",
        "link targets: HTML HREF/ACTION, WML href, gemini/spartan URL are compared with the documented reading (URL after 'URL:', "
        "percent-decoded local path = selector, gopher://host:port/type+selector); 'no host, port 0' is not checked",
        "interleaving leg: handler instances of one process stepped by hand in every order of open/prepare/getdirlist (reference: "
        "the same gophermap served alone by a separate interpreter, and the documents' reading); live leg: real ThreadingTCPServer on "
        "127.0.0.1, plain Gopher, clients released by a barrier -- a search over schedules the OS happens to produce, not a proof of "
        "thread safety (C14's subject)",
        "history leg: DirHandler's own listing cache (.cache.pygopherd.dir) is switched off (cachetime = 0; C10's subject) so that "
        "only gophermap handling is observed; the reference is the same tree state served by a freshly forked process that never "
        "served a request; modification times are masked when responses are compared",
        "large-map leg: every line is well-formed by the documents; the oracle (entry count = line count, every entry and every "
        "rendered description = the documented reading, link targets of the first 40, the last 40 and 150 sampled lines) is "
        "computed in the harness; the model in Coq sees only the maps built by repetition up to ~160 kB (count, first 5 and last 8 "
        "entries; for maps up to ~80 kB also length, head and tail of the Gopher0 menu); the quick tier asks for the 1 MiB map in "
        "Gopher, Gopher+ and three other protocols drawn per run",
        "both model variants are evaluated: 'repaired' (relative links of a *.gophermap file resolved against the directory the file "
        "is in; the positive theorems) and 'pinned' (against the file's own selector); K holds when the code matches the repaired "
        "variant, or matches the pinned one and the oracle exhibited the difference on the real code",
    ]
    chk.notes["model_variant_matching_implementation"] = variant
    return chk.finish("proof")


def replay(path):
    """Re-run one recorded violation against the real code and print what it does now."""
    import json
    with open(path) as f:
        rp = json.load(f)
    sel = rp.get("selector")
    if rp.get("kind") == "interleave":
        r1, = impl_run([{"op": "gm_interleave", "tree": rp["tree"], "config": rp["config"], "selectors": rp["selectors"],
                         "schedules": [rp["schedule"]]}])
        r2, = impl_run([{"op": "gm_world", "tree": rp["tree"], "config": rp["config"], "maps": rp["selectors"], "requests": []}])
        if not (r1["ok"] and r2["ok"]):
            print(r1.get("err"), r2.get("err"))
            return 2
        alone = [c["entries"] for c in r2["res"]["components"]]
        o = r1["res"][0]
        differs = o["exc"] is not None or any(ents != alone[slot] for slot, ents in o["lists"])
        print(json.dumps({"schedule": rp["schedule"], "exception": o["exc"],
                          "listings": [[slot, [[e["type"], e["name"], e["selector"]] for e in ents][:8]] for slot, ents in o["lists"]],
                          "alone": [[[e["type"], e["name"], e["selector"]] for e in (a or [])][:8] for a in alone],
                          "still_differs": differs}, indent=1, ensure_ascii=True))
        return 1 if differs else 0
    if rp.get("kind") == "large-map":
        reqs = [{"data": rp["request_latin1"], "tls": rp.get("tls", False)}] if rp.get("request_latin1") is not None else []
        res, = impl_run([{"op": "gm_world", "tree": rp["tree"], "config": rp["config"], "maps": [sel], "requests": reqs}])
        if not res["ok"]:
            print(res["err"])
            return 2
        data = rp["gophermap_latin1"].encode("latin-1")
        lines = [u(l) for l in split_lines(data)]
        ddir = doc_dir(sel, rp.get("is_mapfile", False))
        comp = res["res"]["components"][0]
        ents = comp["entries"] or []
        out = {"selector": sel, "gophermap_bytes": len(data), "gophermap_lines": len(lines), "handler": comp["handler"],
               "exception": comp["exc"], "entries": len(ents),
               "last_entries": [[e["type"], e["name"][:120], e["selector"][:120]] for e in ents[-3:]],
               "last_lines": [ln[:120] for ln in lines[-3:]]}
        differs = comp["exc"] is not None or len(ents) != len(lines) or any(
            twin_wf(ln) and twin_item(ddir, ln) != (e["type"], e["name"], e["selector"], e["host"], e["port"])
            for ln, e in zip(lines, ents))
        for q, o in zip(reqs, res["res"]["results"]):
            rits, _ = rendered_items(rp["protocol"], o["out"].encode("latin-1"))
            out["rendered_items"] = None if rits is None else len(rits)
            out["response_tail_latin1"] = o["out"][-600:]
            differs = differs or rits is None or len(rits) != len(lines) or any(
                twin_wf(ln) and d != as_rendered(rp["protocol"], twin_item(ddir, ln)[1]) for ln, (d, _) in zip(lines, rits))
        out["still_differs"] = bool(differs)
        print(json.dumps(out, indent=1, ensure_ascii=True, default=repr))
        return 1 if differs else 0
    if rp.get("kind") == "live":
        print("live replays are re-run by ./check C09 (thread schedules are not reproducible from a file)")
        return 2
    if rp.get("kind") == "history":
        steps = [dict(st) for st in rp["steps"]]
        req = [{"data": rp["request_latin1"], "tls": rp.get("tls", False)}]
        for st in steps:
            if st["op"] == "list":
                st["requests"] = req
        r1, = impl_run([{"op": "gm_history", "tree": rp["tree"], "config": rp["config"], "steps": steps}])
        r2, = impl_run([{"op": "gm_fresh", "states": [{"tree": rp["state_tree"], "config": rp["config"], "requests": req}]}])
        if not (r1["ok"] and r2["ok"]):
            print(r1.get("err"), r2.get("err"))
            return 2
        a = r1["res"]["steps"][-1]["results"][0]
        b = r2["res"][0]["results"][0]
        differs = gen.mask_times(a["out"].encode("latin-1")) != gen.mask_times(b["out"].encode("latin-1"))
        print(json.dumps({"steps": [st.get("what", st["op"]) + (" (directory mtime put back)" if st.get("keep_mtime") else "")
                                    for st in steps],
                          "long_lived_process": {"response_latin1": a["out"], "log": a["log"][-2:]},
                          "fresh_process_same_tree": {"response_latin1": b["out"], "log": b["log"][-2:]},
                          "still_differs": differs}, indent=1, ensure_ascii=True))
        return 1 if differs else 0
    reqs = []
    if rp.get("request_latin1") is not None:
        reqs.append({"data": rp["request_latin1"], "tls": rp.get("tls", False)})
    res, = impl_run([{"op": "gm_world", "tree": rp.get("tree", []), "config": rp.get("config"), "maps": [sel] if sel else [],
                      "requests": reqs, "server_name": rp.get("server_name"), "server_port": rp.get("server_port", PORT)}])
    if not res["ok"]:
        print(res["err"])
        return 2
    out = {"selector": sel, "component": res["res"]["components"], "responses": res["res"]["results"]}
    if rp.get("line") is not None and sel:
        ddir = doc_dir(sel, rp.get("is_mapfile", False))
        out["documented_reading_of_line"] = twin_item(ddir, rp["line"]) if twin_wf(rp["line"]) else "not well-formed"
        comp = res["res"]["components"][0]
        if comp.get("entries") and rp.get("line_index") is not None and rp["line_index"] < len(comp["entries"]):
            e = comp["entries"][rp["line_index"]]
            out["implementation_entry_now"] = [e["type"], e["name"], e["selector"], e["host"], e["port"]]
            out["still_differs"] = list(out["documented_reading_of_line"]) != out["implementation_entry_now"]
    print(json.dumps(out, indent=1, ensure_ascii=True, default=repr))
    return 1 if out.get("still_differs") else 0
