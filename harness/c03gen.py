"""C03: generators and client-side readers for the legs whose difficulty is in what is STORED or in the
rarely used request forms, not in the selector:

* Gopher+ attribute selection ("!+VIEWS+ABSTRACT", "$+ABSTRACT", ...) on directories and items with every
  combination of own / children's extended-attribute sidecars;
* mailboxes (mbox, Maildir) whose messages are legal mailbox members but whose header fields are hostile to
  whatever parses them on the way to a listing (RFC 2047 words that do not fit their charset, unknown
  charsets, truncated words, raw 8-bit bytes, long folded fields, missing / duplicated / empty fields).

Everything here is client side: written from the protocol documents, it never imports the server.
latin-1 strings stand for raw bytes (driver convention)."""
import re

import gen
import validators as V

MT = 1_700_000_000

# --------------------------------------------------------------------------------------------------------
# Gopher+ attribute selection
# --------------------------------------------------------------------------------------------------------
EA = [(".abstract", "ABSTRACT"), (".keywords", "KEYWORDS"), (".ask", "ASK"), (".3d", "3D")]
EA_EXT = {b: e for e, b in EA}

SIDECAR_TEXTS = ["one line\n", "two lines\nthe second <one> & more\n", "ends with a blank line\n\n", "", "no newline at the end",
                 "+INFO: 0looks like a block /x h 70\n+ADMIN:\n", " leading space\n", "caf\xe9 raw latin-1 \xff\xfe\n",
                 "utf-8 \xc3\xa9\xe2\x82\xac\n", "long " + "word " * 600 + "\n", "cr inside\rhere\r\nand crlf\r\n", "\n\n\n"]


def attr_tree(rng):
    """-> (tree, dirs, items): directories `ga/oXkY` for every combination of
    own sidecars (none / one block / another block / two blocks) x children's sidecars (none / some / all / a block the
    directory itself does not have), plus the other kinds of listing (link file, gophermap, mailbox) with sidecars.
    dirs: selectors of the listings; items: selectors of single objects (with and without sidecars, and missing)."""
    t = [{"path": "ga", "kind": "dir"}]
    dirs, items = [], []
    owns = [(), ("ABSTRACT",), ("KEYWORDS",), ("ABSTRACT", "KEYWORDS"), ("ASK",), ("3D", "ABSTRACT")]
    kidmodes = ["none", "some", "all", "other"]
    texts = list(SIDECAR_TEXTS)

    def text():
        return rng.choice(texts)

    for oi, own in enumerate(owns):
        for km in kidmodes:
            d = "ga/o%dk%s" % (oi, km)
            t.append({"path": d, "kind": "dir"})
            for b in own:
                t.append({"path": d + "/" + EA_EXT[b], "data": text()})
            t += [{"path": d + "/one.txt", "data": "one\n"}, {"path": d + "/two.txt", "data": "two\n"},
                  {"path": d + "/sub", "kind": "dir"}, {"path": d + "/sub/in.txt", "data": "in\n"}]
            if km == "other":
                kb = [b for _, b in EA if b not in own][:1]
            else:
                kb = list(own) or ["ABSTRACT"]
            if km in ("some", "other"):
                for b in kb:
                    t.append({"path": d + "/one.txt" + EA_EXT[b], "data": text()})
            elif km == "all":
                for b in kb:
                    t.append({"path": d + "/one.txt" + EA_EXT[b], "data": text()})
                    t.append({"path": d + "/two.txt" + EA_EXT[b], "data": text()})
                    t.append({"path": d + "/sub/" + EA_EXT[b], "data": text()})
            dirs.append("/" + d)
            items += ["/" + d + "/one.txt", "/" + d + "/two.txt"]
    # a link-file directory: attributes from .names / .cap as well as from sidecars
    t += [{"path": "ga/umn", "kind": "dir"}, {"path": "ga/umn/.abstract", "data": "about the umn directory\n"},
          {"path": "ga/umn/a.txt", "data": "a\n"}, {"path": "ga/umn/b.txt", "data": "b\n"}, {"path": "ga/umn/b.txt.keywords", "data": "kw\n"},
          {"path": "ga/umn/.names", "data": "Path=./a.txt\nName=Named a\nAbstract=abstract from the names file\n"},
          {"path": "ga/umn/.Links", "data": "Name=Elsewhere\nType=1\nPath=/pub\nHost=gopher.remote.example\nPort=70\nAbstract=a remote place\n"}]
    # a gophermap directory, a mailbox and a Maildir with sidecars of their own
    t += [{"path": "ga/map", "kind": "dir"}, {"path": "ga/map/.abstract", "data": "about the map\n"},
          {"path": "ga/map/gophermap", "data": "iinfo line\n0one\tone.txt\n1far\t/r\tgopher.other.example\t70\n"},
          {"path": "ga/map/one.txt", "data": "1\n"}, {"path": "ga/map/one.txt.abstract", "data": "the one\n"},
          {"path": "ga/box.mbox", "data": "From a@example.com Mon Jan  1 00:00:00 2024\nSubject: s1\n\nb1\n\n"
                                           "From b@example.com Tue Jan  2 00:00:00 2024\nSubject: s2\n\nb2\n"},
          {"path": "ga/box.mbox.abstract", "data": "about the mailbox\n"},
          {"path": "ga/mdir", "kind": "dir"}, {"path": "ga/mdir/new", "kind": "dir"}, {"path": "ga/mdir/cur", "kind": "dir"},
          {"path": "ga/mdir/tmp", "kind": "dir"}, {"path": "ga/mdir/.abstract", "data": "about the maildir\n"},
          {"path": "ga/mdir/new/1.msg", "data": "Subject: m1\n\nx\n"},
          {"path": "ga/plain.txt", "data": "plain\n"}, {"path": "ga/.abstract", "data": "the attribute playground\n"}]
    dirs += ["/ga", "/ga/umn", "/ga/map", "/ga/box.mbox", "/ga/mdir", "/"]
    items += ["/ga/plain.txt", "/ga/box.mbox|/MBOX-MESSAGE/1", "/ga/nonexistent", "/ga/o1knone/nonexistent.txt", "/ga/umn/a.txt",
              "/ga/map/one.txt"]
    for e in t:
        e["mtime"] = MT
    return t, dirs, items


ATTR_SUFFIXES = ["+ABSTRACT", "+VIEWS+ABSTRACT", "+ABSTRACT+VIEWS", "+INFO", "+ADMIN", "+VIEWS", "+KEYWORDS", "+ASK", "+3D", "+URL",
                 "+INFO+ADMIN+VIEWS+ABSTRACT+KEYWORDS+ASK+3D", "+NOSUCH", "+NOSUCH+ABSTRACT", "+ABSTRACT+NOSUCH", "+abstract", "+Abstract+views",
                 "+", "++", "+ABSTRACT+", "++ABSTRACT", " +ABSTRACT", "+ABSTRACT +VIEWS", " ", "+ ABSTRACT", "+INFO+INFO", "+ABSTRACT+ABSTRACT",
                 "ABSTRACT", "+ABSTRACT:", "+__class__", "+__dict__", "+allblocks", "+all", "+block", "+supportedblocknames", "+info", "+objinfo",
                 "+\xc3\xa9", "+\xff", "+ABSTRACT\x00", "+A.B", "+-1", "+0", "+" + "X" * 3000, "+AB" * 800, "+ABSTRACT" * 200,
                 "+application/gopher+-menu", "+text/plain en_US"]


def attr_requests(rng, tier, dirs, items):
    """-> list of (bytes, tls, meta) with meta = dict(sel, form, suffix): every listing with every form of attribute selection
    (quick: every listing with a sample of the suffixes, every suffix on a sample of the listings)."""
    out = []
    seen = set()

    def add(sel, form, suf, tls):
        key = (sel, form, suf, tls)
        if key in seen:
            return
        seen.add(key)
        out.append((sel.encode("latin-1") + b"\t" + form.encode() + suf.encode("latin-1") + b"\r\n", tls,
                    {"sel": sel, "form": form, "suffix": suf, "listing": sel in dirs}))

    for sel in dirs + items:
        for form in "$!":
            add(sel, form, "", False)
    core = ATTR_SUFFIXES[:12]
    for sel in dirs:
        sufs = ATTR_SUFFIXES if tier != "quick" else core[:4] + rng.sample(core[4:], 3) + rng.sample(ATTR_SUFFIXES[12:], 4)
        for suf in sufs:
            for form in "$!":
                add(sel, form, suf, False)
        add(sel, "$", rng.choice(core), True)
    for suf in ATTR_SUFFIXES:
        for sel in (rng.sample(dirs, 2) if tier == "quick" else []) + rng.sample(items, 2 if tier == "quick" else len(items)):
            for form in "$!":
                add(sel, form, suf, rng.random() < 0.15)
    return out


def parse_attr_listing(body):
    """The body of a Gopher+ attribute reply ('!' or '$'): a sequence of records, each opened by a '+INFO: ' line and
    followed by its blocks ('+NAME:' or '+NAME: value' lines, content lines start with a space).
    -> list of dicts(info=bytes, blocks=[names]); raises V.Malformed."""
    if body == b"":
        return []
    if not body.endswith(b"\r\n"):
        raise V.Malformed("attribute listing does not end with a complete line")
    recs = []
    for line in body[:-2].split(b"\r\n"):
        if line.startswith(b"+INFO: "):
            f = line[7:].split(b"\t")
            if len(f) not in (4, 5) or len(f[0]) < 1 or not re.fullmatch(rb"-?\d+", f[3]):
                raise V.Malformed("bad +INFO line %r" % line[:120])
            recs.append({"info": line[7:], "blocks": []})
        elif line.startswith(b"+"):
            m = re.match(rb"\+([^:\r\n\t ]+):", line)
            if not m:
                raise V.Malformed("bad block line %r" % line[:120])
            if not recs:
                raise V.Malformed("block %r before the first +INFO" % line[:60])
            recs[-1]["blocks"].append(m.group(1))
        elif line.startswith(b" "):
            if not recs:
                raise V.Malformed("content line before the first +INFO")
        else:
            raise V.Malformed("line that belongs to no block: %r" % line[:120])
    return recs


# --------------------------------------------------------------------------------------------------------
# mailboxes with hostile header fields
# --------------------------------------------------------------------------------------------------------
def hostile_header_values(rng):
    """-> list of (label, value bytes): the text after 'Field:' up to (not including) the final newline; may contain
    folding (newline + white space).  None of them ends the header block or starts a new message."""
    v = [
        ("plain", b" an ordinary value"),
        ("empty", b""),
        ("space-only", b"   "),
        # RFC 2047 encoded words: fitting, not fitting the charset they name, unknown charsets, broken syntax
        ("ew-q-latin1-ok", b" =?iso-8859-1?q?Caf=E9_opening_hours?="),
        ("ew-b-utf8-ok", b" =?utf-8?b?R3LDvMOfZQ==?="),
        ("ew-q-utf8-latin1-byte", b" Re: =?utf-8?Q?caf=E9?= opening hours"),
        ("ew-q-ascii-highbyte", b" =?us-ascii?Q?=FF=FE?="),
        ("ew-q-utf8-truncated-seq", b" =?utf-8?q?=E2=82?="),
        ("ew-b-utf8-truncated-seq", b" =?UTF-8?B?4oI=?="),
        ("ew-b-utf16-odd", b" =?utf-16?b?QQ==?="),
        ("ew-b-utf8-lone-surrogate", b" =?utf-8?b?7aCA?="),
        ("ew-q-sjis-bad", b" =?shift_jis?q?=81?="),
        ("ew-q-gb2312-bad", b" =?gb2312?q?=A1?= tail"),
        ("ew-q-euckr-bad", b" =?euc-kr?q?=C7?="),
        ("ew-b-iso2022jp-bad", b" =?iso-2022-jp?b?GyRCGyhC/w==?="),
        ("ew-unknown-charset", b" =?x-no-such-charset?q?abc?="),
        ("ew-empty-charset", b" =??q?abc?="),
        ("ew-charset-with-lang", b" =?utf-8*en?q?caf=E9?="),
        ("ew-codec-not-text", b" =?rot13?q?abc=FF?= =?hex?q?zz?= =?zlib?b?eJw=?= =?base64?q?x?="),
        ("ew-undefined-codec", b" =?undefined?q?abc?="),
        ("ew-idna", b" =?idna?q?xn--=FF?= =?punycode?q?-=FF?="),
        ("ew-unicode-escape", b" =?unicode_escape?q?=5Cx?= =?raw_unicode_escape?q?=5Cu12?="),
        ("ew-unknown-encoding", b" =?utf-8?x?abc?="),
        ("ew-b-bad-padding", b" =?utf-8?b?QUJD=?= =?utf-8?b?Q?= =?utf-8?b?====?="),
        ("ew-b-not-base64", b" =?utf-8?b?!!!!?="),
        ("ew-q-bad-hex", b" =?utf-8?q?=ZZ=4?="),
        ("ew-truncated", b" =?utf-8?q?caf=C3"),
        ("ew-truncated-2", b" =?utf-8?"),
        ("ew-truncated-3", b" =?utf-8?b?4oKs"),
        ("ew-no-end", b" =?utf-8?q?abc? = tail"),
        ("ew-empty-text", b" =?utf-8?q??= =?utf-8?b??="),
        ("ew-adjacent-mixed", b" =?utf-8?q?=C3?==?utf-8?q?=A9?= =?iso-8859-1?q?=E9?==?utf-8?b?w6k=?="),
        ("ew-split-multibyte", b" =?utf-8?q?=E2=82?=\n =?utf-8?q?=AC?="),
        ("ew-nested", b" =?utf-8?q?=3D=3Futf-8=3Fq=3F=FF=3F=3D?="),
        ("ew-control-chars", b" =?utf-8?q?a=00b=0Dc=0Ad=09e=1B?="),
        ("ew-crlf-inject", b" =?utf-8?b?YQ0KMGluamVjdGVkCS94CWgJNzANCg==?="),
        ("ew-tab-inject", b" =?utf-8?q?a=09/etc/passwd=09evil.example=0970?="),
        ("ew-long", b" =?utf-8?q?" + b"=C3=A9" * 400 + b"?="),
        ("ew-many", b" " + b" ".join(b"=?utf-8?q?w%d=FF?=" % i for i in range(120))),
        ("ew-8bit-inside", b" =?utf-8?q?caf\xe9?="),
        ("ew-uppercase", b" =?UTF-8?Q?CAF=E9?= =?ISO-8859-1?B?6Q==?="),
        # raw bytes
        ("raw-latin1", b" caf\xe9 au lait"),
        ("raw-utf8", b" caf\xc3\xa9 \xe2\x82\xac"),
        ("raw-invalid-utf8", b" \xff\xfe\xc3\x28\xe2\x82"),
        ("raw-nul", b" a\x00b"),
        ("raw-controls", b" a\x01\x02\x1b[31mred\x7f\x08"),
        ("raw-cr", b" a\rb"),
        ("raw-tabs", b" a\tb\t\tc"),
        ("raw-c1", b" \xc2\x85next\xc2\xa0line \xe2\x80\xa8sep"),
        ("raw-bom", b" \xef\xbb\xbfbom"),
        # folding
        ("folded", b" first part\n second part\n\tthird part"),
        ("folded-long", b" start" + b"".join(b"\n part %d of a very long folded header field" % i for i in range(400))),
        ("folded-blankish", b" a\n \n \t \n b"),
        ("folded-ew", b"\n =?utf-8?q?=FF?=\n =?utf-8?q?=FE?="),
        ("folded-only", b"\n \n\t"),
        ("long-line", b" " + b"x" * 70000),
        ("long-words", b" " + b"word " * 4000),
        ("markup", b" <b>bold</b> & \"quotes\" 'single' </tt></a><script>x</script> => link"),
        ("gopher-like", b" 1menu\t/x\thost\t70"),
        ("gemini-like", b" => gemini://evil.example/ x"),
        ("percent", b" 100% %s %d %(x)s {0} ${x}"),
        ("backslashes", b" \\N{BULLET} \\u0041 \\x41 \\"),
        ("colons", b": : value: with: colons:"),
        ("no-space", b"tight"),
    ]
    return v


HEADER_FIELDS = [b"Subject", b"From", b"To", b"Date", b"Message-ID", b"Content-Type", b"Content-Transfer-Encoding", b"MIME-Version",
                 b"Status", b"X-Status", b"Content-Disposition", b"Reply-To", b"subject", b"SUBJECT"]


def hostile_messages(rng, values, per_box):
    """Split the values over mailboxes of per_box messages.  -> list of boxes; a box is a list of (label, header block bytes, marker).
    The hostile value goes to the Subject (what a listing shows) in most messages, to another field (or to several) in the others."""
    msgs = []
    for k, (label, val) in enumerate(values):
        r = rng.random()
        if r < 0.6:
            fields = [b"Subject"]
        elif r < 0.8:
            fields = [b"Subject", rng.choice(HEADER_FIELDS[1:])]
        else:
            fields = [rng.choice(HEADER_FIELDS[1:])] + ([b"Subject"] if rng.random() < 0.5 else [])
        head = [b"From: Sender %d <s%d@example.org>" % (k, k)] if b"From" not in fields else []
        for f in fields:
            head.append(f + b":" + val)
        if b"Subject" not in fields and rng.random() < 0.5:
            head.append(b"Subject: ordinary subject %d" % k)
        rng.shuffle(head)
        msgs.append((label + "@" + "+".join(f.decode() for f in fields), b"\n".join(head) + b"\n"))
    # shapes of the header block itself
    msgs += [
        ("block:no-subject", b"From: x@example.org\nTo: y@example.org\n"),
        ("block:no-headers", b""),
        ("block:duplicate-subject", b"Subject: first\nSubject: =?utf-8?q?second=FF?=\nSubject:\n"),
        ("block:no-colon-line", b"Subject: ok\nthis line has no colon\nX-After: 1\n"),
        ("block:leading-continuation", b" starts with a continuation\nSubject: s\n"),
        ("block:8bit-field-name", b"Sujet\xe9: x\nSubject: after an 8-bit field name\n"),
        ("block:crlf", b"Subject: crlf line ends\r\nFrom: a@example.org\r\n"),
        ("block:multipart-no-boundary", b"Subject: mp\nMIME-Version: 1.0\nContent-Type: multipart/mixed\n"),
        ("block:multipart-bad-boundary", b"Subject: mp2\nMIME-Version: 1.0\nContent-Type: multipart/mixed; boundary=\"\xff=?utf-8?q?=FF?=\n"),
        ("block:cte-base64-text", b"Subject: b64\nContent-Type: text/plain; charset=\"x-unknown\"\nContent-Transfer-Encoding: base64\n"),
        ("block:rfc2231", b"Subject: params\nContent-Type: text/plain; charset*=utf-8''%FF%FE; name*0*=x''%E2%82; name*1=\"\xe9\"\n"),
        ("block:many-fields", b"".join(b"X-Field-%d: v%d\n" % (i, i) for i in range(1500)) + b"Subject: after many fields\n"),
        ("block:from-escaped", b"Subject: escaped from\n>From someone: not a separator\n"),
    ]
    rng.shuffle(msgs)
    boxes = []
    for i in range(0, len(msgs), per_box):
        box = []
        for j, (label, head) in enumerate(msgs[i:i + per_box]):
            box.append((label, head, "body-marker-%d-%d-x" % (len(boxes), j)))
        boxes.append(box)
    return boxes


def mail_tree(rng, tier):
    """-> (tree, boxes): boxes = list of dict(sel, flag, labels, markers) for an mbox and a Maildir per group of messages"""
    values = hostile_header_values(rng)
    groups = hostile_messages(rng, values, 8 if tier == "quick" else 5)
    t = [{"path": "hm", "kind": "dir"}]
    boxes = []
    for gi, box in enumerate(groups):
        data = b""
        for j, (label, head, marker) in enumerate(box):
            data += (b"From sender%d@example.org Sat Jan  3 01:05:%02d 1996\n" % (j, j)) + head + b"\n" + marker.encode() + b"\nsecond body line\n\n"
        name = "hm/box%d.mbox" % gi
        t.append({"path": name, "data": gen.lat(data)})
        boxes.append({"sel": "/" + name, "flag": "MBOX-MESSAGE", "labels": [b[0] for b in box], "markers": [b[2] for b in box]})
        md = "hm/dir%d" % gi
        for sub in ("new", "cur", "tmp"):
            t.append({"path": md + "/" + sub, "kind": "dir"})
        for j, (label, head, marker) in enumerate(box):
            sub, suffix = ("cur", ":2,S") if j % 2 else ("new", "")
            t.append({"path": "%s/%s/17000000%02d.M%dP1.host%s" % (md, sub, j, j, suffix),
                      "data": gen.lat(head + b"\n" + marker.encode() + b"\nsecond body line\n")})
        boxes.append({"sel": "/" + md, "flag": "MAILDIR-MESSAGE", "labels": [b[0] for b in box], "markers": [b[2] for b in box]})
    for e in t:
        e["mtime"] = MT
    return t, boxes


def mail_requests(rng, tier, boxes):
    """-> list of (bytes, tls, meta): the listing of every mailbox and every message of it (and the one past the end) in
    every protocol (quick: the listing in every protocol, every message in three protocols of which one is a plain one)."""
    out = []
    for b in boxes:
        n = len(b["markers"])
        for proto in gen.PROTOCOLS:
            forms = ["+", "$", "!"] if proto.endswith("plus") else [None]
            for gp in forms:
                data, tls = gen.request_bytes(proto, b["sel"], gplus=gp or "+")
                out.append((data, tls, {"box": b, "what": "listing", "proto": proto, "form": gp}))
        for k in range(1, n + 2):
            protos = gen.PROTOCOLS if tier != "quick" else [rng.choice(["gopher", "sgopher"])] + rng.sample(gen.PROTOCOLS[2:], 2)
            for proto in protos:
                gp = rng.choice("+!") if proto.endswith("plus") else None
                data, tls = gen.request_bytes(proto, "%s|/%s/%d" % (b["sel"], b["flag"], k), gplus=gp or "+")
                out.append((data, tls, {"box": b, "what": "message" if k <= n else "past-end", "num": k, "proto": proto, "form": gp}))
    return out


MSG_LINK = re.compile(rb"(?:MBOX|MAILDIR)-MESSAGE/(\d+)")


def listed_messages(reply):
    """message numbers a listing links to, whatever the markup (the selector text survives every protocol's quoting)"""
    return sorted(set(int(m) for m in MSG_LINK.findall(reply) if len(m) < 9))


def listing_links(proto, form, body):
    """The link items of a mailbox listing as the protocol's own client reads them: -> list of message numbers in the
    order listed (items that are not message links are returned as None).  Raises V.Malformed."""
    def num(ref):
        m = MSG_LINK.search(ref)
        return int(m.group(1)) if m and len(m.group(1)) < 9 else None
    if proto in ("gopher", "sgopher") or (proto in ("gopherplus", "sgopherplus") and form == "+"):
        return [num(it["selector"]) for it in V.parse_gopher_menu(body) if it["type"] != "i"]
    if proto in ("gopherplus", "sgopherplus"):
        return [num(r["info"].split(b"\t")[1]) for r in parse_attr_listing(body) if not r["info"].startswith(b"i")]
    if proto in ("http", "https"):
        return [num(r["href"].encode("utf-8", "surrogateescape")) for r in V.html_rows(body) if r["href"] is not None]
    if proto == "wap":
        return [n for n in (num(l["href"].encode("utf-8", "surrogateescape")) for l in V.wml_links(body)) if n is not None]
    return [num(l["href"].encode("ascii", "surrogateescape")) for l in V.gemtext_links(body)]


# --------------------------------------------------------------------------------------------------------
# the logging configuration as part of the world
# --------------------------------------------------------------------------------------------------------
LOG_SETUPS = [
    {"name": "file-utf8-strict", "logmethod": "file", "stream": {"encoding": "utf-8", "errors": "strict"}},          # any UTF-8 locale
    {"name": "file-ascii-strict", "logmethod": "file", "stream": {"encoding": "ascii", "errors": "strict"}},         # LC_ALL=POSIX, PYTHONIOENCODING=ascii
    {"name": "file-utf8-surrogateescape", "logmethod": "file", "stream": {"encoding": "utf-8", "errors": "surrogateescape"}},   # LANG=C
    {"name": "file-latin1-strict", "logmethod": "file", "stream": {"encoding": "latin-1", "errors": "strict"}},
    {"name": "file-cp1252-strict", "logmethod": "file", "stream": {"encoding": "cp1252", "errors": "strict"}},
    {"name": "file-utf16-strict", "logmethod": "file", "stream": {"encoding": "utf-16", "errors": "strict"}},
    {"name": "syslog", "logmethod": "syslog", "stream": None},
    {"name": "none", "logmethod": "none", "stream": None},
]
# Left out on purpose: a sys.stdout without .buffer and a closed sys.stdout -- states of the hosting process, not inputs or
# histories the property quantifies over (the unchanged code answers nothing there).


def logging_world(rng, tier):
    """-> (tree, requests): requests = list of (bytes, tls, meta) whose selector / search string / raw line is not valid
    UTF-8, or valid UTF-8 that a narrower charset cannot encode, or plain ASCII -- for objects that exist and for objects
    that do not, in every protocol syntax."""
    t = [{"path": "a.txt", "data": "alpha\n"}, {"path": "caf\xe9.txt", "data": "latin-1 name\n"}, {"path": "caf\xc3\xa9.txt", "data": "utf-8 name\n"},
         {"path": "d\xe9p", "kind": "dir"}, {"path": "d\xe9p/x.txt", "data": "x\n"}, {"path": "dir1", "kind": "dir"},
         {"path": "dir1/\xff\xfe.bin", "data": "\x00\x01"}, {"path": "dir1/\xe6\xbc\xa2\xe5\xad\x97.txt", "data": "cjk\n"},
         {"path": "\xe2\x82\xac uro.txt", "data": "euro\n"}, {"path": "win\x85\x93.txt", "data": "c1 bytes\n"},
         {"path": "mail.mbox", "data": "From a@example.com Mon Jan  1 00:00:00 2024\nSubject: caf\xe9 =?utf-8?q?=FF?=\n\nbody\n"}]
    for e in t:
        e["mtime"] = MT
    hits = [b"/a.txt", b"/caf\xe9.txt", b"/caf\xc3\xa9.txt", b"/d\xe9p", b"/d\xe9p/x.txt", b"/dir1", b"/dir1/\xff\xfe.bin",
            b"/dir1/\xe6\xbc\xa2\xe5\xad\x97.txt", b"/\xe2\x82\xac uro.txt", b"/win\x85\x93.txt", b"/mail.mbox", b"/mail.mbox|/MBOX-MESSAGE/1", b"/"]
    misses = [b"/nope", b"/nope\xe9", b"/\xff", b"/nope-\xc3\xa9", b"/\xed\xa0\x80", b"/trunc\xc3", b"/a.txt\x85", b"/d\xe9p/missing\xfe",
              b"/caf\xe9.txt/below", b"/mail.mbox|/MBOX-MESSAGE/9\xb2", b"/\xf0\x9f\x98\x80", b"/x\x00y", b"/nul\x00\xe9"]
    misses += [b"/\x00", b"/a.txt\x00", b"/\x00a.txt", b"/dir1/\x00\xff", b"/caf\xe9.txt\x00.gz", b"/mail.mbox|/MBOX-MESSAGE/1\x00"]
    searches = [None, None, None, b"\xff\xfe", b"caf\xe9", b"\xe2\x82\xac", b"nul\x00here", b"\x00"]
    out = []
    for kind, sels in (("hit", hits), ("miss", misses)):
        for sel in sels:
            protos = gen.PROTOCOLS if tier != "quick" else ["gopher"] + rng.sample(gen.PROTOCOLS[1:], 4)
            for proto in protos:
                s = sel.decode("utf-8", "surrogateescape")
                sr = rng.choice(searches)
                data, tls = gen.request_bytes(proto, s, gplus=rng.choice("+!$"), search=None if sr is None else sr.decode("utf-8", "surrogateescape"),
                                              layers=1, force_encode=rng.random() < 0.2)
                out.append((data, tls, {"kind": kind, "proto": proto, "selector_latin1": gen.lat(sel), "nul": b"\x00" in data or b"%00" in data}))
    # lines that are 8-bit where the syntax has no escaping for it
    for data, tls in [(b"\xff\xfe\r\n", False), (b"\xe9\r\n", True), (b"GET /caf\xe9.txt HTTP/1.0\r\n\r\n", False), (b"GET /nope\xff HTTP/1.0\r\n\r\n", True),
                      (b"GET /wap/caf\xe9.txt HTTP/1.0\r\n\r\n", False), (b"HEAD /\xe9 HTTP/1.0\r\n\r\n", False), (b"gemini://h\xe9/a.txt\r\n", True),
                      (b"gemini://gopher.example/caf\xe9.txt\r\n", True), (b"gemini://gopher.example/a.txt?\xff\r\n", True), (b"h\xe9 /a.txt 0\r\n", False),
                      (b"gopher.example /caf\xe9.txt 0\r\n", False), (b"gopher.example /nope\xe9 3\r\n\xff\xfe\xfd", False), (b"/caf\xe9.txt\t+\r\n", False),
                      (b"/a.txt\t\xe9\t+\r\n", False), (b"/d\xe9p\t$\r\n", True), (b"/nope\xe9\t!\r\n", False), (b"/a.txt\t+\xe9\r\n", False),
                      (b"GET /a.txt?searchrequest=\xe9 HTTP/1.0\r\n\r\n", False), (b"GET /a.txt HTTP/1.0\r\nAccept: \xe9, text/vnd.wap.wml\r\nX-Wap-Profile: \xff\r\n\r\n", False),
                      (b"/URL:http://h/\xe9\r\n", False), (b"/1/d\xe9p\r\n", False),
                      (b"\x00\r\n", False), (b"\x00\x00\xff\r\n", True), (b"GET /a.txt\x00 HTTP/1.0\r\n\r\n", False), (b"GET /a%00b?searchrequest=%00 HTTP/1.0\r\n\r\n", True),
                      (b"GET /wap/\x00 HTTP/1.0\r\n\r\n", False), (b"gemini://gopher.example/a.txt%00\r\n", True), (b"gemini://h\x00/a.txt\r\n", True),
                      (b"gemini://gopher.example/a.txt?%00\r\n", True), (b"gopher.example /a.txt\x00 0\r\n", False), (b"gopher.example /%00 0\r\n", False),
                      (b"/a.txt\t\x00\t+\r\n", False), (b"/dir1\x00\t$\r\n", False), (b"/a.txt\x00\t!\r\n", True), (b"/URL:http://h/\x00\r\n", False),
                      (b"/mail.mbox|/MBOX-MESSAGE/\x001\r\n", False)]:
        out.append((data, tls, {"kind": "raw", "proto": None, "selector_latin1": None, "nul": False}))
    for _ in range(10 if tier == "quick" else 80):
        raw = bytes(rng.choice([rng.randrange(0x80, 0x100), rng.randrange(0x20, 0x7f)]) for _ in range(rng.randrange(1, 24)))
        out.append((rng.choice([b"/", b"", b"GET /", b"gemini://h/"]) + raw + rng.choice([b"\r\n", b" HTTP/1.0\r\n\r\n"]), rng.random() < 0.4,
                    {"kind": "random", "proto": None, "selector_latin1": None, "nul": False}))
    return t, out


def record_site(rec):
    """the '[Protocol/Handler]' part of a log record (str), None if there is none"""
    m = re.search(r"\[(\w+)/(\w+)\]", rec)
    return m.group(0) if m else None
