"""C20 — a failing client connection is contained in its own handler.

proofs : Props/C20.v (all responses, all fault positions, all classes, all
         protocol families; specs of the except clauses regenerated from source)
K      : the real GopherRequestHandler.handle with a wfile failing at EVERY
         write index of each kind of response x 3 error classes x protocols;
         outcome / records after the fault / open files compared with the model
         evaluated in Coq on the action sequence recorded from the unfaulted run
oracle : nothing escapes handle(); every EXCEPTION record after the fault
         carries the client address and the failure's own class, and there is
         one; /proc/self/fd unchanged afterwards
"""
import io
import json
import os
import zipfile

from common import Check, coq_eval, impl_run, impl_run_parallel
import gen

CLASSES = ["EPIPE", "ECONNRESET", "TIMEOUT"]
# fault patterns per write index k: None = every write from k on fails (connection gone);
# n = writes k .. k+n-1 fail and the connection then works again (transient)
SPANS = {"quick": [None, 1, 2], "thorough": [None, 1, 2, 3, 5]}
OWN = {"EPIPE": "BrokenPipeError", "ECONNRESET": "ConnectionResetError", "TIMEOUT": "TimeoutError"}
LOGCLS = {"BrokenPipeError": "(LIO EPIPE)", "ConnectionResetError": "(LIO ECONNRESET)", "TimeoutError": "(LIO TIMEOUT)",
          "timeout": "(LIO TIMEOUT)", "IndexError": "LIndexError", "AttributeError": "LAttributeError",
          "FileNotFound": "LFileNotFound"}
PCLASS = {"gopher": "PCBase", "sgopher": "PCBase", "gopherplus": "PCGopherPlus", "sgopherplus": "PCGopherPlus",
          "http": "PCHttp", "https": "PCHttp", "wap": "PCWap", "gemini": "PCGemini", "spartan": "PCSpartan"}
REF_RELEASED = ("/mail.mbox", "/arch.zip", ".dat", ".dir", ".bak")   # mailbox, archive, shelve index of the archive
PROTO_CLASS = {"gopher": "GopherProtocol", "sgopher": "SecureGopherProtocol", "gopherplus": "GopherPlusProtocol",
               "sgopherplus": "SecureGopherPlusProtocol", "http": "HTTPProtocol", "https": "HTTPSProtocol",
               "wap": "WAPProtocol", "gemini": "GeminiProtocol", "spartan": "SpartanProtocol"}
CLASS_PCLASS = {"GopherProtocol": "PCBase", "SecureGopherProtocol": "PCBase", "GopherPlusProtocol": "PCGopherPlus",
                "SecureGopherPlusProtocol": "PCGopherPlus", "HTTPProtocol": "PCHttp", "HTTPSProtocol": "PCHttp",
                "WAPProtocol": "PCWap", "GeminiProtocol": "PCGemini", "SpartanProtocol": "PCSpartan"}
ACT = {"W": "AWrite", "O": "AOpen", "C": "AClose", "R": "AOpenRef", "N": "ANotFound"}

MBOX = ("From alice@example.com Mon Jan  1 00:00:00 2024\nSubject: one\n\nbody one\n\n"
        "From bob@example.com Tue Jan  2 00:00:00 2024\nSubject: two\n\nbody two\n")

ZIP_HANDLERS = ("[url.HTMLURLHandler, gophermap.BuckGophermapHandler, mbox.MaildirFolderHandler, "
                "mbox.MaildirMessageHandler, UMN.UMNDirHandler, html.HTMLFileTitleHandler, "
                "mbox.MBoxMessageHandler, mbox.MBoxFolderHandler, ZIP.ZIPHandler, file.CompressedFileHandler, "
                "file.FileHandler]")
CONFIG = {
    "handlers.HandlerMultiplexer": {"handlers": ZIP_HANDLERS},
    "handlers.ZIP.ZIPHandler": {"enabled": "true"},
    # served decompressed by an external program (a child process per request)
    "handlers.file.CompressedFileHandler": {"decompressors": "{'gzip': 'zcat'}"},
}


def gz(data):
    import gzip
    return lat(gzip.compress(data, mtime=0))


def lat(b):
    return b.decode("latin-1")


def make_zip():
    buf = io.BytesIO()
    with zipfile.ZipFile(buf, "w", zipfile.ZIP_DEFLATED) as z:
        z.writestr("inner.txt", ("z" * 3499 + "\n") * 3)      # several 4096-byte chunks, few lines
        z.writestr("sub/deep.txt", "deep\n")
    return lat(buf.getvalue())


def tree(tier="quick"):
    t = 1_700_000_000
    tr = [
        # 10240 bytes: three chunks of copyto (quick); 1 MiB + 1: 257 chunks (thorough)
        {"path": "doc.txt", "data": lat(b"0123456789abcdef" * (640 if tier == "quick" else 65536) + (b"" if tier == "quick" else b"x"))},
        {"path": "small.txt", "data": "hello\n"},
        {"path": "doc.txt.abstract", "data": "about doc\nsecond line\n"},
        {"path": "page.html", "data": "<html><head><title>Page</title></head><body>x</body></html>\n"},
        {"path": "menu", "kind": "dir"},
        {"path": "menu/a.txt", "data": "a\n"},
        {"path": "menu/b.txt", "data": "b\n"},
        {"path": "menu/sub", "kind": "dir"},
        {"path": "menu/.Links", "data": "Name=Elsewhere\nType=1\nPath=/x\nHost=other.example\nPort=70\n"},
        {"path": "menu/.abstract", "data": "about the menu\n"},
        {"path": "gm", "kind": "dir"},
        {"path": "gm/gophermap", "data": "iwelcome\n0small\t/small.txt\n1menu\t/menu\n"},
        {"path": "mail.mbox", "data": MBOX},
        {"path": "arch.zip", "data": make_zip()},
        # 210 KB once decompressed (more than a pipe holds), in three long lines
        {"path": "big.txt.gz", "data": gz((b"c" * 69999 + b"\n") * 3)},
    ]
    for e in tr:
        e["mtime"] = t
    return tr


# (kind, selector, extra) — requested through every protocol family
KINDS = [
    ("document", "/doc.txt", {}),
    ("menu", "/menu", {}),
    ("gophermap", "/gm", {}),
    ("error-page", "/no-such-thing", {}),
    ("mailbox-folder", "/mail.mbox", {}),
    ("mailbox-message", "/mail.mbox|/MBOX-MESSAGE/2", {}),
    ("zip-member", "/arch.zip/inner.txt", {}),
    ("zip-listing", "/arch.zip", {}),
    ("html-document", "/page.html", {}),
    ("decompressed-document", "/big.txt.gz", {}),
]
PROTOS = ["gopher", "gopherplus", "http", "wap", "gemini", "spartan", "sgopher", "https"]


def build_requests(tier):
    reqs = []
    for proto in PROTOS:
        secure_variant = proto in ("sgopher", "https")
        for kind, sel, _ in KINDS:
            if secure_variant and tier == "quick" and kind not in ("document", "error-page"):
                continue
            if proto in ("gopherplus", "sgopherplus"):
                forms = [("+", kind), ("!", kind + ":info"), ("$", kind + ":dirinfo")] if kind in ("document", "menu", "error-page") \
                    else [("+", kind)]
                for g, nm in forms:
                    if g == "$" and kind == "document":
                        continue
                    data, tls = gen.request_bytes(proto, sel, gplus=g)
                    reqs.append({"name": f"{proto}:{nm}", "proto": proto, "kind": nm, "data": lat(data), "tls": tls,
                                 "outside": False})
            else:
                data, tls = gen.request_bytes(proto, sel)
                reqs.append({"name": f"{proto}:{kind}", "proto": proto, "kind": kind, "data": lat(data), "tls": tls,
                             "outside": False})
    # responses written outside the protocol's try block
    reqs.append({"name": "http:icon", "proto": "http", "kind": "icon", "tls": False, "outside": True,
                 "data": "GET /PYGOPHERD-HTTPPROTO-ICONS/generic.gif HTTP/1.0\r\n\r\n"})
    reqs.append({"name": "gemini:input-prompt", "proto": "gemini", "kind": "input-prompt", "tls": True, "outside": True,
                 "data": "gemini://gopher.example/GEMINI-QUERY/menu\r\n"})
    # requests that make the CLASSIFICATION phase (ProtocolMultiplexer.getProtocol, before the try of
    # GopherRequestHandler.handle) read from the connection: header blocks of various sizes, an
    # oversized header line, the WAP auto-detection headers
    def headers(n, width=20):
        return "".join("X-Header-%d: %s\r\n" % (i, "v" * width) for i in range(n))
    for label, block in [("0", ""), ("1", headers(1)), ("100", headers(100)), ("101", headers(101)),
                         ("1000", headers(1000)), ("long-line", headers(1, 70000)),
                         ("wap-accept", "Accept: text/html, text/vnd.wap.wml\r\n"),
                         ("wap-profile", "X-Wap-Profile: http://example/p.xml\r\n")]:
        for sel, kind in (("/small.txt", "document"), ("/no-such-thing", "error-page")):
            is_wap = label.startswith("wap-")
            reqs.append({"name": f"http:{kind}:headers-{label}", "proto": "wap" if is_wap else "http",
                         "kind": f"{kind}+headers-{label}", "tls": False, "outside": False,
                         "data": "GET %s HTTP/1.0\r\n%s\r\n" % (sel, block)})
    reqs.append({"name": "gopher:search", "proto": "gopher", "kind": "menu", "tls": False, "outside": False,
                 "data": "/menu\tneedle\r\n"})
    return reqs


# classes under which CPython reports a connection that went away / timed out
CONNECTION_CLASSES = {"BrokenPipeError", "ConnectionResetError", "ConnectionAbortedError", "TimeoutError", "timeout",
                      "BlockingIOError", "SSLEOFError", "SSLError", "SSLZeroReturnError", "SSLSyscallError",
                      "SSLWantWriteError", "OSError"}
LIVE_DOC = "big.bin"


def live_job(tier):
    size = (6 << 20) if tier == "quick" else (24 << 20)
    t = tree(tier) + [{"path": LIVE_DOC, "data": "x" * size},
                      {"path": "huge.txt.gz", "data": gz(b"g" * size)},
                      {"path": "big.html", "data": "<html><head><title>Big</title></head><body>" + "y" * size + "</body></html>"}]
    clients = []
    protos = ["gopher", "gopherplus", "http", "spartan", "gemini", "https"] + (["sgopher", "wap"] if tier != "quick" else [])
    for proto in protos:
        for sel in ["/" + LIVE_DOC] + (["/big.html"] if proto in ("gopher", "http") else []):
            data, tls = gen.request_bytes(proto, sel)
            for how, before in [("reset", 65536), ("close", 0)] + ([("reset", 0)] if tier != "quick" else []):
                clients.append({"name": f"{proto}:{sel}:{how}@{before}", "proto": proto, "selector": sel, "data": lat(data),
                                "tls": tls, "how": how, "read_before": before})
            if sel == "/" + LIVE_DOC:
                # the same from 127.0.0.2 while a client from 127.0.0.3 comes and goes (overlapping connections)
                clients.append({"name": f"{proto}:{sel}:reset@65536:overlapped", "proto": proto, "selector": sel,
                                "data": lat(data), "tls": tls, "how": "reset", "read_before": 65536,
                                "source": "127.0.0.2", "overlap": "127.0.0.3"})
    data, tls = gen.request_bytes("gopher", "/" + LIVE_DOC)
    clients.append({"name": "gopher:/big.bin:stall", "proto": "gopher", "selector": "/" + LIVE_DOC, "data": lat(data),
                    "tls": False, "how": "stall", "read_before": 1000})
    data, tls = gen.request_bytes("http", "/" + LIVE_DOC)
    clients.append({"name": "http:/big.bin:stall", "proto": "http", "selector": "/" + LIVE_DOC, "data": lat(data),
                    "tls": False, "how": "stall", "read_before": 1000})
    # a document that an external decompressor produces, over TLS (there the server relays the child's output itself)
    for proto in ("gemini", "https"):
        data, tls = gen.request_bytes(proto, "/huge.txt.gz")
        for how, before in (("reset", 65536), ("close", 0)):
            clients.append({"name": f"{proto}:/huge.txt.gz:{how}@{before}", "proto": proto, "selector": "/huge.txt.gz",
                            "data": lat(data), "tls": tls, "how": how, "read_before": before})
    # a client that floods the header block (read during classification) and goes away
    for n in (101, 2000):
        flood = "GET /%s HTTP/1.0\r\n%s\r\n" % (LIVE_DOC, "".join("X-H%d: v\r\n" % i for i in range(n)))
        clients.append({"name": "http:/big.bin:headers-%d:reset@0" % n, "proto": "http", "selector": "/" + LIVE_DOC,
                        "data": flood, "tls": False, "how": "reset", "read_before": 0})
    return {"op": "c20_live", "tree": t, "config": CONFIG, "clients": clients, "timeout": 1}


def live_oracle(client, c):
    """(tag, what) for one real connection that the client abandoned."""
    hits = []
    if c["escaped"]:
        hits.append((f"live-escapes:{client['proto']}", "an exception reached socketserver.handle_error: " + c["escaped"][0][-300:]))
    if not c["settled"]:
        hits.append((f"live-handler-stuck:{client['proto']}", "the handler thread did not finish after the client went away"))
    if not c["records"]:
        hits.append((f"live-not-logged:{client['proto']}", "the abandoned transfer left no EXCEPTION record"))
    src = client.get("source", "127.0.0.1")
    for cls, addr, pname in c["records"]:
        if cls not in CONNECTION_CLASSES:
            hits.append((f"live-logged-as-other-class:{client['proto']}:{cls}",
                         f"the connection failure is logged as {cls}"))
        if addr != src:
            hits.append((f"live-wrong-client-address:{client['proto']}",
                         f"a record of the failure names {addr}; the connection that failed came from {src}"))
        # the protocol is judged against what the server says it received on this connection (its
        # access-log line): a client that resets at once may go away before its request line has
        # arrived, and an empty line IS a (secure) Gopher request for "/".  No access line: not judged.
        served = c.get("served_by")
        if served is not None and pname != served:
            hits.append((f"live-wrong-protocol-in-log:{client['proto']}",
                         f"a record of the failure names protocol {pname}; the server logged the request of this "
                         f"connection as {served}"))
    if c.get("children"):
        hits.append((f"live-child-left:{client['proto']}", "child processes of the server are still there after the "
                     "connection: " + ", ".join("%s[%s]" % (x[2], x[1]) for x in c["children"])))
    if c["fd_left"]:
        hits.append((f"live-fd-leak:{client['how']}",
                     "descriptors of the server process still open after the connection (after gc.collect()): "
                     + ", ".join(c["fd_left"])))
    return hits


def coq_case(rq, entry, case):
    ev = entry["events"]
    cut = ev.index("|") + 1 if "|" in ev else 0
    def lit_(chars):
        items = [ACT[ch] for ch in chars if ch in ACT]
        return "[" + "; ".join(items) + "]" if items else "(@nil action)"
    acts = "(%s, %s)" % (lit_(ev[:cut]), lit_(ev[cut:]))
    recs = "[" + "; ".join("(%s, %s)" % (LOGCLS.get(c, "LOther"), "true" if a else "false")
                           for c, a, _ in (case["records"] or [])) + "]"
    span = "None" if case.get("span") is None else "(Some %d%%nat)" % case["span"]
    return "(((%s, %s), (%s, ((%d%%nat, %s), %s))), (%s, (%s, %d%%nat)))" % (
        CLASS_PCLASS.get(entry.get("served_by"), PCLASS[rq["proto"]]), "true" if rq["outside"] else "false", acts, case["k"], span, case["cls"],
        "true" if case["exc"] else "false", recs, len(case["fd_gc"]))


def fixup_discharged(chk):
    """common.discharged_count accepts a stale .vo; count only files whose .vo is
    at least as new as the .vo of everything they depend on."""
    import common
    files = chk.coverage.get("proof_files", [])
    n = 0
    for f in files:
        vo = os.path.join(common.COQ, f) + "o"
        if not os.path.exists(vo) or os.path.getmtime(vo) < os.path.getmtime(os.path.join(common.COQ, f)):
            continue
        deps = [d for d in common.deps_closure(f) if d != f]
        if all(os.path.exists(os.path.join(common.COQ, d) + "o")
               and os.path.getmtime(os.path.join(common.COQ, d) + "o") <= os.path.getmtime(vo) + 1e-6 for d in deps):
            n += common.count_obligations([f])[0]
    chk.coverage["discharged"] = n
    # when an unrelated file of the development fails, common.proofs() re-runs Print
    # Assumptions for the verdict but does not record its output: record it
    pa = chk.coverage.get("print_assumptions", {})
    if getattr(chk, "proof_ok", False) and not pa.get("closed_theorems"):
        rc, out = common.print_assumptions(chk.prop)
        closed, axioms = common.parse_assumptions(out)
        chk.coverage["print_assumptions"] = {"closed_theorems": closed, "axioms": axioms}
        chk.coverage["trusted_base"] = [t for t in chk.coverage.get("trusted_base", []) if not t.startswith("Print Assumptions")] + [
            "Print Assumptions for Props/%s.v: %d theorem(s) 'Closed under the global context'; axioms: %s"
            % (chk.prop, closed, ", ".join(axioms) if axioms else "none")]


def run(tier):
    chk = Check("C20", tier)
    chk.proofs(extra_files=["Corr/K20.v"])
    fixup_discharged(chk)
    found = False
    cov = chk.coverage

    reqs = build_requests(tier)
    groups = {}
    for rq in reqs:
        groups.setdefault(rq["proto"], []).append(rq)
    jobs = [{"op": "c20_sweep", "tree": tree(tier), "config": CONFIG, "requests": g, "classes": CLASSES, "every_index": True,
             "spans": SPANS[tier]}
            for g in groups.values()]
    ljob = live_job(tier)
    res = impl_run_parallel(jobs + [ljob], chunks=len(jobs) + 1)
    entries = []
    for job, r in zip(jobs, res):
        if not r["ok"]:
            raise RuntimeError(r["err"] + "\n" + r.get("tb", ""))
        for rq, e in zip(job["requests"], r["res"]):
            entries.append((rq, e))
    lres = res[-1]
    if not lres["ok"]:
        raise RuntimeError(lres["err"] + "\n" + lres.get("tb", ""))
    live = list(zip(ljob["clients"], lres["res"]["clients"]))

    # ---------------- oracle ----------------
    hits = {}
    lits, index = [], []
    nogc_only = 0
    shape_problems = []
    for rq, e in entries:
        if e["exc"] or e["fd_left"] or e["writes"] == 0:
            shape_problems.append({"request": rq["name"], "exception": e["exc"], "descriptors": e["fd_left"],
                                   "writes": e["writes"], "log": e["log"]})
        for cs in e["cases"]:
            own = OWN[cs["cls"]]
            chk.count((rq["name"], cs["k"], cs.get("span"), cs["cls"]), nontrivial=True)

            def hit(tag, what):
                hits.setdefault(tag, []).append((rq, e, cs, what))
            if cs["exc"]:
                hit(f"escapes:{PCLASS[rq['proto']]}", "an exception propagates out of GopherRequestHandler.handle: " + cs["exc"])
            recs = cs["records"]
            if recs is None:
                hit("fault-not-reached", "the failing write was never reached")
            else:
                if not recs:
                    hit(f"not-logged:{PCLASS[rq['proto']]}", "the failed connection left no EXCEPTION record")
                served = e.get("served_by") or PROTO_CLASS[rq["proto"]]
                for c, addr, pname in recs:
                    if pname != served:
                        hit(f"wrong-protocol-in-log:{PCLASS[rq['proto']]}",
                            f"a record of the failure names protocol {pname}, the connection was served by {served}")
                    if c != own and not (own == "TimeoutError" and c == "timeout"):
                        hit(f"logged-as-other-class:{PCLASS[rq['proto']]}:{c}",
                            f"the failure ({own}) is logged as {c}")
                    if not addr:
                        hit(f"no-client-address:{PCLASS[rq['proto']]}", "an EXCEPTION record after the fault lacks the client address")
            if cs.get("children"):
                hit(f"child-left:{rq['kind']}", "child processes of the request are still there (live or zombie) after "
                    "handle() returned: " + ", ".join("%s[%s]" % (c[2], c[1]) for c in cs["children"]))
            if cs["fd_gc"]:
                hit(f"fd-leak:{rq['kind']}", "descriptors still open after the request: " + ", ".join(cs["fd_gc"]))
            elif cs["fd_nogc"]:
                # the reference-counted resources (mailbox, ZIP archive and its index) may live until the
                # exception's traceback cycle is collected; a file opened in a with block may not
                late = [d for d in cs["fd_nogc"] if not d.endswith(REF_RELEASED)]
                if late:
                    hit(f"fd-open-until-gc:{rq['kind']}",
                        "a file of the request is still open when handle() returns (closed only by gc): " + ", ".join(late))
                nogc_only += 1
            lits.append(coq_case(rq, e, cs))
            index.append((rq, e, cs))
    for tag, lst in sorted(hits.items()):
        found = True
        rq, e, cs, what = min(lst, key=lambda t: (t[2]["k"], t[2].get("span") or 0, len(t[0]["data"])))
        chk.violation({"what": what, "request_latin1": rq["data"], "tls": rq["tls"], "protocol": rq["proto"],
                       "response_kind": rq["kind"], "fail_at_write": cs["k"],
                       "failing_writes": "every write from %d on" % cs["k"] if cs.get("span") is None
                       else "writes %d..%d, later writes succeed" % (cs["k"], cs["k"] + cs["span"] - 1),
                       "fail_span": cs.get("span"), "error_class": cs["cls"],
                       "error": {"EPIPE": "OSError(EPIPE, 'Broken pipe')", "ECONNRESET": "OSError(ECONNRESET, ...)",
                                 "TIMEOUT": "socket.timeout('timed out')"}[cs["cls"]],
                       "escaping_exception": cs["exc"], "records_after_fault": cs["records"], "log_tail": cs["log"],
                       "descriptors_left": cs["fd_gc"], "children_left": cs.get("children"),
                       "writes_of_unfaulted_response": e["writes"],
                       "cases_with_this_finding": len(lst), "tree": "harness/c20.py tree(tier)", "tier": tier, "config": CONFIG}, tag=tag)
    # ---------------- live leg: real server, real sockets ----------------
    lhits = {}
    for cl, c in live:
        chk.count(("live", cl["name"]), nontrivial=True)
        for tag, what in live_oracle(cl, c):
            lhits.setdefault(tag, []).append((cl, c, what))
    for tag, lst in sorted(lhits.items()):
        found = True
        cl, c, what = lst[0]
        chk.violation({"what": what, "leg": "live", "client": cl, "server": "pygopherd.server.ThreadingTCPServer on 127.0.0.1, "
                       "ephemeral port, send/receive timeout 1 s, demo certificate", "bytes_received_by_client": c["received"],
                       "records": c["records"], "escaped": c["escaped"], "descriptors_left": c["fd_left"],
                       "children_left": c.get("children"),
                       "log_tail": c["log"], "cases_with_this_finding": len(lst), "tier": tier,
                       "tree": "harness/c20.py live_job(tier)"}, tag=tag)
    cov["live"] = {"connections": len(live), "findings": {t: len(v) for t, v in lhits.items()},
                   "classes_seen": sorted({r[0] for _, c in live for r in c["records"]}),
                   "released_only_by_gc": sum(1 for _, c in live if c["fd_nogc"] and not c["fd_left"])}
    if shape_problems:
        found = True
        chk.violation({"what": "a request of the fault-free baseline misbehaves (no fault injected)",
                       "detail": shape_problems[:5]}, tag="baseline")

    # ---------------- K ----------------
    mism, err, nsh = coq_eval("C20", "k_fault", "Lib.Str Model.Conn Corr.K20", "chk_fault", lits, shard=400,
                              pre="From Coq Require Import List. Import ListNotations.")
    cov["correspondence"] = {"cases": len(lits), "requests": len(entries), "shards": nsh, "mismatches": len(mism),
                             "fault_patterns_per_index": ["forever" if x is None else "%d write(s)" % x for x in SPANS[tier]],
                             "errors": [err] if err else [], "every_write_index": True, "classes": CLASSES}
    cov["oracle"] = {"faulted_runs": len(lits), "findings": {t: len(v) for t, v in hits.items()},
                     "descriptor_released_only_by_gc": nogc_only,
                     "responses": {rq["name"]: {"writes": e["writes"], "shape": e["events"][:60]} for rq, e in entries}}
    for rq, e in entries[:3]:
        chk.sample({"request": rq["name"], "request_latin1": rq["data"], "writes": e["writes"], "shape": e["events"][:80],
                    "one_case": {k: e["cases"][0][k] for k in ("k", "cls", "exc", "records")} if e["cases"] else None})
    if mism or err:
        detail = {"errors": err, "count": len(mism), "mismatching_cases": [
            {"request": index[i][0]["name"], "request_latin1": index[i][0]["data"], "shape": index[i][1]["events"],
             "k": index[i][2]["k"], "span": index[i][2].get("span"), "class": index[i][2]["cls"], "implementation": {
                 "escaped": index[i][2]["exc"], "records_after_fault": index[i][2]["records"],
                 "descriptors_left": index[i][2]["fd_gc"]}} for i in mism[:6]]}
        chk.correspondence_broken("K20 (Model/Conn.v with the generated except-clause specs vs the real handler)",
                                  detail, found)
    chk.finish_proofs(found)
    cov["rule"] = ("every write index of every response kind (document, menu, gophermap, error page, Gopher+ info / "
                   "directory info, mailbox folder and message, ZIP member and listing, HTML document, HTTP icon, Gemini "
                   "prompt) x {EPIPE, ECONNRESET, one-argument timeout} x protocol families (gopher, gopher+, http, wap, "
                   "gemini, spartan + TLS variants of two) x fault patterns (gone for good, failing for 1 or 2 writes then "
                   "recovering); exhaustive over write indices; plus real connections to the live server abandoned mid-document "
                   "(reset, close, stall until the send timeout); every case non-trivial")
    chk.assumptions += [
        "the connection is a file object whose write() raises from index k on (flush() too); reads never fail",
        "OSError(EPIPE/ECONNRESET, msg) and socket.timeout('timed out') as raised by CPython's socket layer",
        "descriptor release of non-with resources (mailbox, ZIP archive) is reference counting / gc: checked on "
        "/proc/self/fd after gc.collect(); cases released only by gc are counted in oracle.descriptor_released_only_by_gc",
        "files opened through VFS_Real.open are tracked by substituting the module-level open of handlers/base.py",
        "live leg: pygopherd's ThreadingTCPServer in the harness process on 127.0.0.1 with real client sockets (plaintext "
        "and TLS) that reset / close / stall in the middle of a document larger than the socket buffers; there the "
        "failure's class is whatever the kernel reports, so the oracle asks for a connection-failure class "
        "(OSError family) on every record instead of one given class; /proc/self/fd of the server process is compared "
        "with the baseline taken after a warm-up",
        "file.CompressedFileHandler with {'gzip': 'zcat'} is in the handler list: after every faulted request the "
        "children of the process (/proc/*/stat, live or zombie) must be none; exec / PYG handlers are not in the list",
    ]
    return chk.finish("proof")


def replay(path):
    with open(path) as f:
        rep = json.load(f)
    if rep.get("leg") == "live":
        job = live_job(rep.get("tier", "quick"))
        job["clients"] = [rep["client"]]
        r = impl_run([job])[0]
        if not r["ok"]:
            print(r["err"])
            return 2
        c = r["res"]["clients"][0]
        hits = live_oracle(rep["client"], c)
        print(json.dumps({"connection": c, "findings": hits}, indent=1))
        return 1 if hits else 0
    job = {"op": "c20_sweep", "tree": tree(rep.get("tier", "quick")), "config": CONFIG, "classes": [rep["error_class"]], "every_index": True,
           "spans": [rep.get("fail_span")],
           "requests": [{"name": "replay", "data": rep["request_latin1"], "tls": rep["tls"]}]}
    r = impl_run([job])[0]
    if not r["ok"]:
        print(r["err"])
        return 2
    e = r["res"][0]
    cs = [c for c in e["cases"] if c["k"] == rep["fail_at_write"]]
    print(json.dumps({"writes": e["writes"], "case": cs[0] if cs else None}, indent=1))
    if not cs:
        return 2
    c = cs[0]
    own = OWN[c["cls"]]
    bad = bool(c["exc"]) or not c["records"] or any(x[0] != own or not x[1] for x in c["records"]) or bool(c["fd_gc"])
    return 1 if bad else 0
