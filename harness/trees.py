"""Content-tree generators for the site-level checks (C03, C05, C06, C13)."""

MBOX = ("From alice@example.com Mon Jan  1 00:00:00 2024\nSubject: first <b>msg</b> & co\n\nbody one\n\n"
        "From bob@example.com Tue Jan  2 00:00:00 2024\nSubject: second\n\nbody two\n")

MBOX_DELETED = ("From a@example.com Mon Jan  1 00:00:00 2024\nSubject: m1\n\none\n\n"
                "From b@example.com Tue Jan  2 00:00:00 2024\nSubject: m2 deleted\nStatus: RO\nX-Status: D\n\ntwo\n\n"
                "From c@example.com Wed Jan  3 00:00:00 2024\nSubject: m3\n\nthree\n\n"
                "From d@example.com Thu Jan  4 00:00:00 2024\nSubject: m4\nX-Status: A\n\nfour\n")

HOSTILE_NAMES = ["sp ace.txt", "pct%41.txt", "q?mark.txt", "pipe|bar.txt", "hash#.txt", "amp&er.txt", "semi;colon.txt",
                 "plus+.txt", "eq=.txt", "lt<gt>.txt", "quo\"te.txt", "apos'.txt", "at@.txt", "tilde~x.txt", "col:on.txt",
                 "\xae.txt", "caf\xc3\xa9.txt", "\xe2\x82\xac.txt", "star*.txt", "br[ack].txt", "comma,.txt", "bang!.txt",
                 "dollar$.txt", "back\\slash.txt", "pct%zz.txt", "%2e%2e.txt", "a b  c.txt", "UPPER.TXT", "x.tar.gz"]


def rich_tree(rng, hostile=True, n_hostile=8, umn=True, mtime=1_700_000_000, part=None):
    """part=(i, n): take every n-th hostile name starting at i (so that n trees cover all names)"""
    """latin-1 path strings stand for raw bytes."""
    t = [
        {"path": "a.txt", "data": "alpha\n"},
        {"path": "b.html", "data": "<html><head><title>Bee &amp; <i>Co</i></title></head><body>x</body></html>\n"},
        {"path": "dir1", "kind": "dir"},
        {"path": "dir1/c.txt", "data": "charlie\n"},
        {"path": "dir1/.abstract", "data": "about dir1\nsecond line <x> & y\n"},
        {"path": "dir1/sub", "kind": "dir"},
        {"path": "dir1/sub/d.txt", "data": "delta\n"},
        {"path": "dir1/sub/deep", "kind": "dir"},
        {"path": "dir1/sub/deep/e.bin", "data": "".join(chr(i) for i in range(256))},
        {"path": "a.txt.abstract", "data": "about a\n"},
        {"path": "empty.txt", "data": ""},
        {"path": "emptydir", "kind": "dir"},
        {"path": "maps", "kind": "dir"},
        {"path": "maps/gophermap", "data": "iwelcome to maps\n\n0alpha\t/a.txt\n1dir one\t/dir1\n0relative\tn.txt\n"
                                           "1remote\t/r\tgopher.other.example\t7070\nhweb\tURL:http://www.example.com/\n0nosel\n"
                                           "hWrite to the admin\tURL:mailto:admin@example.org\n1other daemon on this host\t/dir1/sub\tgopher.example\t70\n"
                                           "1this server by name\t/dir1\tgopher.example\t7070\n"},
        {"path": "maps/n.txt", "data": "note\n"},
        {"path": "mail.mbox", "data": MBOX},
        {"path": "md", "kind": "dir"}, {"path": "md/new", "kind": "dir"}, {"path": "md/cur", "kind": "dir"},
        {"path": "md/tmp", "kind": "dir"},
        {"path": "md/new/1.msg", "data": "Subject: md one\n\nhello\n"},
        {"path": "md/cur/2.msg:2,S", "data": "Subject: md two\n\nworld\n"},
        {"path": "img.gif", "data": "GIF89a"},
    ]
    if umn:
        t += [
            {"path": "umn", "kind": "dir"},
            {"path": "umn/one.txt", "data": "1\n"},
            {"path": "umn/two.txt", "data": "2\n"},
            {"path": "umn/three.txt", "data": "3\n"},
            {"path": "umn/.Links", "data": "Name=Remote thing\nType=1\nPath=/pub\nHost=gopher.remote.example\nPort=70\n\n"
                                          "Name=Local alias\nType=0\nPath=/a.txt\nHost=+\nPort=+\nNumb=1\n\n"
                                          "Name=A web link\nType=h\nPath=URL:http://www.example.org/x?y=1&z=2\n\n"
                                          "Name=Mail link\nType=h\nPath=URL:mailto:someone@example.org\n\n"
                                          "Name=Port seventy\nType=1\nPath=/dir1\nHost=gopher.example\nPort=70\n"},
            {"path": "umn/.names", "data": "Path=./two.txt\nName=Second file\nNumb=2\nAbstract=about two\n"},
            {"path": "umn/.cap", "kind": "dir"},
            {"path": "umn/.cap/three.txt", "data": "Name=Third <file>\n"},
        ]
    if hostile:
        names = list(HOSTILE_NAMES)
        if part is not None:
            names = names[part[0]::part[1]]
        else:
            rng.shuffle(names)
            names = names[:n_hostile]
        t.append({"path": "odd", "kind": "dir"})
        # mailboxes and Maildirs whose own names contain the virtual-argument separators
        t.append({"path": "odd/why?.mbox", "data": MBOX})
        t.append({"path": "odd/ann|2019.mbox", "data": MBOX})
        t.append({"path": "odd/m|d", "kind": "dir"})
        t.append({"path": "odd/m|d/new", "kind": "dir"})
        t.append({"path": "odd/m|d/cur", "kind": "dir"})
        t.append({"path": "odd/m|d/new/1.msg", "data": "Subject: piped\n\nx\n"})
        # a gophermap that links (relative and absolute) to names with non-UTF-8 and reserved bytes
        t.append({"path": "odd/gm", "kind": "dir"})
        t.append({"path": "odd/gm/caf\xe9.txt", "data": "latin1 name\n"})
        t.append({"path": "odd/gm/sp ace?.txt", "data": "space and qmark\n"})
        t.append({"path": "odd/gm/gophermap", "data": "0latin\tcaf\xe9.txt\n0abs latin\t/odd/gm/caf\xe9.txt\n0spaced\tsp ace?.txt\n"
                                                     "1up\t/odd\n0pct\t/odd/pct%41.txt\n"})
        t.append({"path": "odd/pct%41.txt", "data": "content of pct%41.txt\n"})
        for nm in names:
            t.append({"path": "odd/" + nm, "data": "content of " + nm + "\n"})
        t.append({"path": "odd/dir with space", "kind": "dir"})
        t.append({"path": "odd/dir with space/in&side.txt", "data": "inside\n"})
        # names the selector filter refuses: they must simply not be advertised
        t.append({"path": "odd/notes..old.txt", "data": "dotdot in name\n"})
        t.append({"path": "odd/sub..dir", "kind": "dir"})
        t.append({"path": "odd/sub..dir/x.txt", "data": "x\n"})
        t.append({"path": "odd/back.\\slash.txt", "data": "dot backslash\n"})
        # mailboxes with messages marked deleted / trashed in the middle
        t.append({"path": "odd/del.mbox", "data": MBOX_DELETED})
        for sub in ("new", "cur", "tmp"):
            t.append({"path": "odd/trash.md/" + sub, "kind": "dir"})
        t.append({"path": "odd/trash.md/cur/1.a:2,S", "data": "Subject: kept one\n\n1\n"})
        t.append({"path": "odd/trash.md/cur/2.b:2,ST", "data": "Subject: trashed\n\n2\n"})
        t.append({"path": "odd/trash.md/cur/3.c:2,", "data": "Subject: kept three\n\n3\n"})
        # a deep path of long non-ASCII names (percent-encoding triples every byte)
        cjk = "\u6f22\u5b57\u30c6\u30b9\u30c8" * 8          # 40 characters, 120 UTF-8 bytes
        deep = "/".join([cjk + str(i) for i in range(3)])
        t.append({"path": ("odd/" + deep).encode("utf-8").decode("latin-1"), "kind": "dir"})
        t.append({"path": ("odd/" + deep + "/" + cjk + ".txt").encode("utf-8").decode("latin-1"), "data": "deep\n"})
        # names that collide with in-band prefixes the protocols use
        t.append({"path": "GEMINI-QUERY.txt", "data": "not a query\n"})
        t.append({"path": "GEMINI-QUERYdir", "kind": "dir"})
        t.append({"path": "GEMINI-QUERYdir/inner.txt", "data": "inner\n"})
        t.append({"path": "wapfile.txt", "data": "not the wap prefix\n"})
        t.append({"path": "PYGOPHERD-HTTPPROTO-ICONS", "kind": "dir"})
        t.append({"path": "PYGOPHERD-HTTPPROTO-ICONS/readme.txt", "data": "icons?\n"})
    for e in t:
        e["mtime"] = mtime
    return t


SITE_CONFIG = {
    "protocols.gemini.GeminiProtocol": {"footer": None},
    "protocols.gemini.SpartanProtocol": {"footer": None},
    "protocols.http.HTTPProtocol": {"pagetopper": None},
}


# selectors of entries that live on ANOTHER server: nothing obliges them to look like paths
REMOTE_SELECTORS = ["users/bob", "0/users/alice/.plan", "", "?query", "a b", "caf\xc3\xa9/x", "\xae raw", "/abs/path", "~user",
                    "a?b=c&d", "%41pct", "x#frag", "1/dir", "waisdocid:12:/x y", "//double", "dot./x", "sel;v=1", "back\\slash",
                    "plus+sign", "q\"uote<>", "/trailing/", "GEMINI-QUERY/x", "wap/x"]
REMOTE_HOSTS = [("gopher.example.org", "70"), ("gopher.example.org", "7070"), ("+", "7071"), ("other.example", "+"),
                ("gopher.example", "7072"), ("10.1.2.3", "70"), ("[2001:db8::1]", "70")]


def remote_links(rng, n=None, mtime=1_700_000_000):
    """A directory `far` (UMN link file) and a directory `farmap` (gophermap) whose entries all point at
    other servers (other host and/or other port), with selectors of every shape.  latin-1 strings = raw bytes."""
    sels = list(REMOTE_SELECTORS)
    if n is not None:
        rng.shuffle(sels)
        sels = sels[:n] + [s for s in ("users/bob", "") if s not in sels[:n]]
    links, gmap = [], ["ientries on other servers"]
    for i, sel in enumerate(sels):
        host, port = REMOTE_HOSTS[i % len(REMOTE_HOSTS)]
        typ = "0179h"[i % 5]
        links.append("Name=far %d\nType=%s\nPath=%s\nHost=%s\nPort=%s\nNumb=%d\n" % (i, typ, sel, host, port, i + 1))
        ghost = "gopher.example" if host == "+" else host
        gport = "70" if port == "+" else port
        gmap.append("%sfarmap %d\t%s\t%s\t%s" % (typ, i, sel, ghost, gport))
    return [dict(e, mtime=mtime) for e in _remote_links_entries(links, gmap)]


def _remote_links_entries(links, gmap):
    return [
        {"path": "far", "kind": "dir"},
        {"path": "far/near.txt", "data": "a local file next to the far links\n"},
        {"path": "far/.Links", "data": "\n".join(links)},
        {"path": "farmap", "kind": "dir"},
        {"path": "farmap/gophermap", "data": "\n".join(gmap) + "\n"},
    ]
