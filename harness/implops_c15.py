"""Implementation-side operations for C15 (run inside the implementation's interpreter)."""
import base64


def dump_entry(e):
    return {
        "selector": e.selector, "type": e.type, "name": e.name, "host": e.host, "port": e.port,
        "mimetype": e.mimetype, "encodedmimetype": e.encodedmimetype, "size": e.size, "encoding": e.encoding,
        "language": e.language, "mtime": e.mtime, "gopherpsupport": bool(e.gopherpsupport),
        "populated": bool(e.populated), "ea": [[k, v] for k, v in e.ea.items()],
    }


def register(OPS, drv):
    def op_world(job):
        """World + requests; for every request also what the protocol object rendered:
        the entries handed to GopherPlusProtocol.renderobjinfo (in order) and the arguments of writedir."""
        from pygopherd.protocols import gopherp
        from pygopherd.protocols import base as pbase
        w = drv.World(job)
        orig_render = gopherp.GopherPlusProtocol.renderobjinfo
        orig_writedir = pbase.BaseGopherProtocol.writedir
        rendered = []
        dirs = []

        def rec_render(self, entry):
            rendered.append(dump_entry(entry))
            return orig_render(self, entry)

        def rec_writedir(self, entry, dirlist):
            dl = list(dirlist)
            opt = self.config.get("pygopherd", "abstract_entries")
            dirs.append({"dir": dump_entry(entry), "entries": [dump_entry(x) for x in dl],
                         "abstract_headers": self.config.getboolean("pygopherd", "abstract_headers"),
                         "doabstracts": opt == "always" or (opt == "unsupported" and not self.groksabstract())})
            return orig_writedir(self, entry, dl)

        gopherp.GopherPlusProtocol.renderobjinfo = rec_render
        pbase.BaseGopherProtocol.writedir = rec_writedir
        try:
            res = []
            for r in job["requests"]:
                del rendered[:]
                del dirs[:]
                o = drv.serve_once(w.config, drv.s2b(r["data"]), tls=r.get("tls", False))
                res.append({"out": o["out"], "exc": o["exc"], "log": o["log"][-3:],
                            "rendered": list(rendered), "writedir": list(dirs)})
            return {"root": w.root, "results": res}
        finally:
            gopherp.GopherPlusProtocol.renderobjinfo = orig_render
            pbase.BaseGopherProtocol.writedir = orig_writedir
            w.close()

    def op_splitlines(job):
        return [s.splitlines() for s in job["inputs"]]

    def op_eavalue(job):
        """what the real handleeaext stores for a sidecar file with the given content"""
        import os
        import shutil
        import tempfile
        from pygopherd import gopherentry
        import pygopherd.handlers.base as hbase
        out = []
        d = tempfile.mkdtemp(prefix="pgverif-ea-")
        try:
            config = drv.make_config(d)
            drv.init_process(config)
            vfs = hbase.VFS_Real(config)
            p = os.path.join(d, "f.abstract")
            for s in job["inputs"]:
                with open(p, "wb") as f:
                    f.write(drv.s2b(s))
                e = gopherentry.GopherEntry("/f", config)
                e.handleeaext("/f", vfs)
                out.append(e.getea("ABSTRACT"))
        finally:
            shutil.rmtree(d, ignore_errors=True)
            drv.reset_lazies()
        return out

    OPS["c15_world"] = op_world
    OPS["c15_splitlines"] = op_splitlines
    OPS["c15_eavalue"] = op_eavalue
