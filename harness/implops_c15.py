"""Implementation-side operations for C15 (run inside the implementation's interpreter)."""
import base64


def dump_entry(e):
    return {
        "selector": e.selector, "type": e.type, "name": e.name, "host": e.host, "port": e.port,
        "mimetype": e.mimetype, "encodedmimetype": e.encodedmimetype, "size": e.size, "encoding": e.encoding,
        "language": e.language, "mtime": e.mtime, "gopherpsupport": bool(e.gopherpsupport),
        "populated": bool(e.populated), "ea": [[k, v] for k, v in e.ea.items()],
    }


def register(OPS, drv):
    def op_world(job):
        """World + requests; for every request also what the protocol object rendered:
        the entries handed to GopherPlusProtocol.renderobjinfo (in order) and the arguments of writedir."""
        from pygopherd.protocols import gopherp
        from pygopherd.protocols import base as pbase
        w = drv.World(job)
        orig_render = gopherp.GopherPlusProtocol.renderobjinfo
        orig_writedir = pbase.BaseGopherProtocol.writedir
        rendered = []
        dirs = []

        def rec_render(self, entry):
            rendered.append(dump_entry(entry))
            return orig_render(self, entry)

        def rec_writedir(self, entry, dirlist):
            dl = list(dirlist)
            opt = self.config.get("pygopherd", "abstract_entries")
            dirs.append({"dir": dump_entry(entry), "entries": [dump_entry(x) for x in dl],
                         "abstract_headers": self.config.getboolean("pygopherd", "abstract_headers"),
                         "doabstracts": opt == "always" or (opt == "unsupported" and not self.groksabstract())})
            return orig_writedir(self, entry, dl)

        gopherp.GopherPlusProtocol.renderobjinfo = rec_render
        pbase.BaseGopherProtocol.writedir = rec_writedir
        try:
            res = []
            for r in job["requests"]:
                del rendered[:]
                del dirs[:]
                o = drv.serve_once(w.config, drv.s2b(r["data"]), tls=r.get("tls", False))
                res.append({"out": o["out"], "exc": o["exc"], "log": o["log"][-3:],
                            "rendered": list(rendered), "writedir": list(dirs)})
            return {"root": w.root, "results": res}
        finally:
            gopherp.GopherPlusProtocol.renderobjinfo = orig_render
            pbase.BaseGopherProtocol.writedir = orig_writedir
            w.close()

    def op_history(job):
        """ONE World in ONE process: steps
             {op: req, requests: [{data, tls}]}
             {op: write|remove, path, data, keep_mtime}
           keep_mtime: the rewritten file gets the mtime it (or its predecessor at that path) had, and
           the directory that holds it gets its previous mtime back, as cp -p / rsync -t / tar do."""
        import os
        from pygopherd.protocols import gopherp
        w = drv.World(job)
        orig_render = gopherp.GopherPlusProtocol.renderobjinfo
        rendered = []

        def rec_render(self, entry):
            rendered.append(dump_entry(entry))
            return orig_render(self, entry)

        gopherp.GopherPlusProtocol.renderobjinfo = rec_render
        try:
            broot = os.fsencode(w.root)
            last = {}
            out = []
            for st in job["steps"]:
                if st["op"] == "req":
                    res = []
                    for r in st["requests"]:
                        del rendered[:]
                        o = drv.serve_once(w.config, drv.s2b(r["data"]), tls=r.get("tls", False))
                        res.append({"out": o["out"], "exc": o["exc"], "log": o["log"][-3:], "rendered": list(rendered)})
                    out.append({"results": res})
                    continue
                p = os.path.join(broot, drv.s2b(st["path"]))
                d = os.path.dirname(p)
                dbefore = os.stat(d)
                if os.path.lexists(p):
                    fs = os.stat(p)
                    last[p] = (fs.st_atime_ns, fs.st_mtime_ns)
                if st["op"] == "write":
                    with open(p, "wb") as f:
                        f.write(drv.s2b(st.get("data", "")))
                    if st.get("keep_mtime") and p in last:
                        os.utime(p, ns=last[p])
                elif st["op"] == "remove":
                    os.unlink(p)
                else:
                    raise ValueError("unknown step " + st["op"])
                if st.get("keep_mtime"):
                    os.utime(d, ns=(dbefore.st_atime_ns, dbefore.st_mtime_ns))
                out.append({})
            return {"steps": out}
        finally:
            gopherp.GopherPlusProtocol.renderobjinfo = orig_render
            w.close()

    def op_faults(job):
        """Requests served while opening ONE path fails (after isfile()/stat succeeded):
        cases {fault: eacces|eio|emfile|enoent|vanish|none, path: selector, requests, nth (default 1), call: open|listdir}.
        Within each request the first nth-1 calls on the path succeed; the nth and every later one fails
        (vanish: the file is really removed at the nth call, and put back after the request)."""
        import errno
        import os
        import pygopherd.handlers.base as hbase
        w = drv.World(job)
        orig_open = hbase.VFS_Real.open
        orig_listdir = hbase.VFS_Real.listdir
        res = []
        try:
            for case in job["cases"]:
                target, fault = case["path"], case["fault"]
                nth = int(case.get("nth", 1))
                call = case.get("call", "open")
                saved = {}
                calls = [0]

                def hit(self, selector):
                    if selector != target:
                        return
                    calls[0] += 1
                    if calls[0] < nth or fault == "none":      # none: the fault-free reference
                        return
                    fsp = self.getfspath(selector)
                    if fault == "eacces":
                        raise PermissionError(errno.EACCES, "Permission denied", fsp)
                    if fault == "eio":
                        raise OSError(errno.EIO, "Input/output error", fsp)
                    if fault == "emfile":
                        raise OSError(errno.EMFILE, "Too many open files", fsp)
                    if fault == "enoent":
                        raise FileNotFoundError(errno.ENOENT, "No such file or directory", fsp)
                    if fault == "vanish":
                        fp = os.fsencode(fsp)
                        if os.path.isfile(fp):
                            st = os.stat(fp)
                            with open(fp, "rb") as fh:
                                saved[fp] = (fh.read(), (st.st_atime_ns, st.st_mtime_ns))
                            os.unlink(fp)

                def f_open(self, selector, *a, **k):
                    if call == "open":
                        hit(self, selector)
                    return orig_open(self, selector, *a, **k)

                def f_listdir(self, selector, *a, **k):
                    if call == "listdir":
                        hit(self, selector)
                    return orig_listdir(self, selector, *a, **k)

                outs = []
                for r in case["requests"]:
                    hbase.VFS_Real.open = f_open
                    hbase.VFS_Real.listdir = f_listdir
                    calls[0] = 0
                    try:
                        o = drv.serve_once(w.config, drv.s2b(r["data"]), tls=r.get("tls", False))
                    finally:
                        hbase.VFS_Real.open = orig_open
                        hbase.VFS_Real.listdir = orig_listdir
                        for fp, (data, times) in saved.items():
                            dst = os.stat(os.path.dirname(fp))
                            with open(fp, "wb") as fh:
                                fh.write(data)
                            os.utime(fp, ns=times)
                            os.utime(os.path.dirname(fp), ns=(dst.st_atime_ns, dst.st_mtime_ns))
                        saved.clear()
                    outs.append({"out": o["out"], "exc": o["exc"], "log": o["log"][-3:], "calls": calls[0]})
                res.append({"results": outs})
            return {"cases": res}
        finally:
            hbase.VFS_Real.open = orig_open
            hbase.VFS_Real.listdir = orig_listdir
            w.close()

    def op_fresh(job):
        """Reference answers: every tree state is served by a process that has never served anything
        (a fork of this driver, which only runs c15_fresh jobs)."""
        import json
        import os
        outs = []
        for stt in job["states"]:
            rfd, wfd = os.pipe()
            pid = os.fork()
            if pid == 0:
                try:
                    os.close(rfd)
                    w = drv.World(stt)
                    try:
                        res = [drv.serve_once(w.config, drv.s2b(q["data"]), tls=q.get("tls", False))["out"]
                               for q in stt["requests"]]
                    finally:
                        w.close()
                    payload = json.dumps({"ok": True, "outs": res})
                except BaseException as e:  # noqa
                    payload = json.dumps({"ok": False, "err": repr(e)})
                with os.fdopen(wfd, "w") as f:
                    f.write(payload)
                os._exit(0)
            os.close(wfd)
            with os.fdopen(rfd) as f:
                data = f.read()
            os.waitpid(pid, 0)
            outs.append(json.loads(data))
        return outs

    def op_splitlines(job):
        return [s.splitlines() for s in job["inputs"]]

    def op_eavalue(job):
        """what the real handleeaext stores for a sidecar file with the given content"""
        import os
        import shutil
        import tempfile
        from pygopherd import gopherentry
        import pygopherd.handlers.base as hbase
        out = []
        d = tempfile.mkdtemp(prefix="pgverif-ea-")
        try:
            config = drv.make_config(d)
            drv.init_process(config)
            vfs = hbase.VFS_Real(config)
            p = os.path.join(d, "f.abstract")
            for s in job["inputs"]:
                with open(p, "wb") as f:
                    f.write(drv.s2b(s))
                e = gopherentry.GopherEntry("/f", config)
                e.handleeaext("/f", vfs)
                out.append(e.getea("ABSTRACT"))
        finally:
            shutil.rmtree(d, ignore_errors=True)
            drv.reset_lazies()
        return out

    OPS["c15_history"] = op_history
    OPS["c15_faults"] = op_faults
    OPS["c15_fresh"] = op_fresh
    OPS["c15_world"] = op_world
    OPS["c15_splitlines"] = op_splitlines
    OPS["c15_eavalue"] = op_eavalue
