"""Shared machinery for every check: build (translator + make), model evaluation
inside Coq (correspondence shards), the implementation driver, evidence,
violation reporting and known findings."""
import fcntl
import hashlib
import json
import os
import random
import re
import shutil
import subprocess
import sys
import time

VERIF = os.path.dirname(os.path.dirname(os.path.abspath(__file__)))
REPO = os.environ.get("VERIF_REPO", "/repo")
COQ = os.path.join(VERIF, "coq")
BUILD = os.path.join(VERIF, "build")
PY_IMPL = os.environ.get("VERIF_IMPL_PYTHON", "/venv/bin/python")
NPROC = int(os.environ.get("VERIF_JOBS", "16"))

TRUSTED_BASE_COMMON = [
    "Coq 8.16.1 kernel (coqc); vm_compute for finite sweeps, refuted-witnesses and for evaluating the model in correspondence shards; no native_compute",
    "no Axiom/Parameter/Admitted in the development (grep-checked every run); Print Assumptions output of each property theorem is recorded below",
    "translator /verif/translate/gen*.py (Python ast -> Gen/*.v), fail-closed",
    "correspondence harness: case writer (Python values -> Gallina literals), canonicalisation, seeded PRNG; CPython's UTF-8/surrogateescape codec used to turn bytes into code points",
]


def seed():
    try:
        return int(os.environ.get("VERIF_SEED", "20260930"))
    except ValueError:
        return 20260930


def tier_from_env(default="quick"):
    return os.environ.get("VERIF_TIER", default)


# ----------------------------------------------------------------------------
# build
# ----------------------------------------------------------------------------
class Lock:
    def __init__(self, name="build"):
        os.makedirs(BUILD, exist_ok=True)
        self.path = os.path.join(BUILD, "." + name + ".lock")

    def __enter__(self):
        self.f = open(self.path, "w")
        fcntl.flock(self.f, fcntl.LOCK_EX)
        return self

    def __exit__(self, *a):
        fcntl.flock(self.f, fcntl.LOCK_UN)
        self.f.close()


def run(cmd, cwd=None, timeout=1800, env=None, input=None):
    p = subprocess.run(cmd, cwd=cwd, timeout=timeout, env=env, input=input,
                       stdout=subprocess.PIPE, stderr=subprocess.STDOUT, text=True)
    return p.returncode, p.stdout


FORBIDDEN = re.compile(r"\b(Admitted|admit|Axiom|Parameter|Conjecture|Unset Guard Checking|bypass_check|Admit Obligations)\b")


def grep_forbidden():
    hits = []
    for root, _, files in os.walk(COQ):
        for fn in files:
            if fn.endswith(".v"):
                p = os.path.join(root, fn)
                with open(p) as f:
                    txt = f.read()
                # strip comments (non-nested approximation is enough: we never nest)
                txt = re.sub(r"\(\*.*?\*\)", "", txt, flags=re.S)
                for i, line in enumerate(txt.splitlines(), 1):
                    if FORBIDDEN.search(line):
                        hits.append(f"{os.path.relpath(p, COQ)}:{i}: {line.strip()}")
    return hits


def build(targets=None):
    """Regenerate Gen/*.v from REPO, then make.  Returns dict(ok, log, gen_status, failed_file)."""
    with Lock():
        os.makedirs(BUILD, exist_ok=True)
        status_file = os.path.join(BUILD, "gen_status.json")
        rc, out = run([sys.executable, os.path.join(VERIF, "translate", "gen.py"), REPO,
                       os.path.join(COQ, "Gen"), status_file])
        if rc != 0:
            return {"ok": False, "log": "translator crashed:\n" + out, "gen_status": {}, "failed_file": "translate/gen.py"}
        with open(status_file) as f:
            gen_status = json.load(f)
        mk = os.path.join(COQ, "Makefile")
        cp = os.path.join(COQ, "_CoqProject")
        if not os.path.exists(mk) or os.path.getmtime(mk) < os.path.getmtime(cp):
            rc, out = run(["coq_makefile", "-f", "_CoqProject", "-o", "Makefile"], cwd=COQ)
            if rc != 0:
                return {"ok": False, "log": out, "gen_status": gen_status, "failed_file": "_CoqProject"}
        cmd = ["timeout", "1700", "make", "-k", f"-j{NPROC}", "COQC=timeout 600 coqc"] + (targets or [])
        rc, out = run(cmd, cwd=COQ, timeout=1800)
        failed = re.findall(r'File "\./([^"]+)", line', out) if rc != 0 else []
        if rc != 0:
            # a missing source is a failure of the files that need it, not of the whole build
            for missing, needer in re.findall(r"No rule to make target '([^']+)\.vo', needed by '([^']+)\.vo'", out):
                failed += [missing + ".v", needer + ".v"]
            for t in re.findall(r"\*\*\* \[[^\]]*: ([A-Za-z0-9_/]+)\.vo\] Error", out):
                failed.append(t + ".v")
        return {"ok": rc == 0, "log": out[-20000:], "gen_status": gen_status,
                "failed_file": failed[0] if failed else None, "failed_files": sorted(set(failed)),
                "cmd": "python3 translate/gen.py %s coq/Gen build/gen_status.json && (cd coq && coq_makefile -f _CoqProject -o Makefile && make -k -j%d)" % (REPO, NPROC)}


def deps_closure(vfile):
    """Files of the development that Props/<x>.v depends on (transitively), by Require lines."""
    seen = set()
    todo = [vfile]
    while todo:
        f = todo.pop()
        if f in seen:
            continue
        p = os.path.join(COQ, f)
        if not os.path.exists(p):
            continue
        seen.add(f)
        with open(p) as fh:
            txt = fh.read()
        for m in re.finditer(r"From PG Require(?: Import| Export)?\s+(.*?)\.(?=\s|$)", txt, re.S):
            for mod in m.group(1).split():
                todo.append(mod.replace(".", "/") + ".v")
    return sorted(seen)


STMT = re.compile(r"^\s*(?:Local |Global |#\[[^\]]*\]\s*)?(Theorem|Lemma|Example|Corollary|Fact|Proposition|Remark)\s+([A-Za-z_][A-Za-z0-9_']*)", re.M)


def count_obligations(files):
    n = 0
    names = []
    for f in files:
        with open(os.path.join(COQ, f)) as fh:
            txt = re.sub(r"\(\*.*?\*\)", "", fh.read(), flags=re.S)
        for m in STMT.finditer(txt):
            n += 1
            names.append(f"{f}:{m.group(2)}")
    return n, names


def discharged_count(files):
    """Statements in files whose .vo exists and is newer than the source."""
    n = 0
    for f in files:
        p = os.path.join(COQ, f)
        vo = p + "o"
        if os.path.exists(vo) and os.path.getmtime(vo) >= os.path.getmtime(p):
            n += count_obligations([f])[0]
    return n


def print_assumptions(prop):
    """Recompile Props/<prop>.v to capture its Print Assumptions output."""
    outdir = os.path.join(BUILD, prop)
    os.makedirs(outdir, exist_ok=True)
    with Lock():
        rc, out = run(["timeout", "600", "coqc", "-Q", ".", "PG", "-w", "-notation-overridden",
                       f"Props/{prop}.v", "-o", os.path.join(outdir, f"{prop}.vo")], cwd=COQ, timeout=700)
    return rc, out


def parse_assumptions(out):
    """Return list of axiom lines (empty when every theorem is closed)."""
    axioms = []
    closed = out.count("Closed under the global context")
    blocks = re.split(r"\n(?=Axioms:|Closed under)", out)
    for b in blocks:
        if b.startswith("Axioms:"):
            for line in b.splitlines()[1:]:
                m = re.match(r"^([A-Za-z_][\w.']*)\s*:", line)
                if m:
                    axioms.append(m.group(1))
    return closed, sorted(set(axioms))


# ----------------------------------------------------------------------------
# model evaluation in Coq
# ----------------------------------------------------------------------------
def coq_str(s):
    """Python str (code points, may contain surrogates) -> Gallina list N literal."""
    if not s:
        return "(@nil N)"      # an untyped [] cannot be inferred when every case of a shard has it
    return "[" + ";".join(str(ord(c)) for c in s) + "]"


def coq_bytes(b):
    if not b:
        return "(@nil N)"
    return "[" + ";".join(str(x) for x in b) + "]"


def coq_bool(b):
    return "true" if b else "false"


def coq_list(items):
    return "[" + "; ".join(items) + "]"


def coq_opt(x, f=lambda v: v):
    return "None" if x is None else "(Some %s)" % f(x)


def coq_eval(prop, name, imports, chk, cases, shard=400, timeout=600, pre=""):
    """Evaluate `mismatches chk cases` inside Coq for a list of case literals.
    Returns (list of mismatching global indices, error text or None, shard count)."""
    outdir = os.path.join(BUILD, prop, "shards")
    os.makedirs(outdir, exist_ok=True)
    files = []
    for k in range(0, max(len(cases), 1), shard):
        part = cases[k:k + shard]
        fn = os.path.join(outdir, f"{name}_{k // shard}.v")
        with open(fn, "w") as f:
            f.write(f"From PG Require Import {imports}.\nLocal Open Scope N_scope.\n{pre}\n")
            f.write("Definition cases := [\n" + ";\n".join(part) + "\n].\n")
            f.write(f"Eval vm_compute in (mismatches ({chk}) cases).\n")
        files.append((k, fn))
    procs = []
    results = []
    err = None
    running = []

    def reap(block):
        nonlocal err
        for item in list(running):
            k, fn, p = item
            if block:
                try:
                    out, _ = p.communicate(timeout=timeout)
                except subprocess.TimeoutExpired:
                    p.kill()
                    out = "TIMEOUT"
            elif p.poll() is None:
                continue
            else:
                out, _ = p.communicate()
            running.remove(item)
            if p.returncode != 0:
                err = (err or "") + f"\n{fn}: coqc failed:\n{out[-3000:]}"
                continue
            m = re.search(r"=\s*\[(.*?)\]\s*:\s*list N", out, re.S)
            if not m:
                err = (err or "") + f"\n{fn}: cannot parse output:\n{out[-2000:]}"
                continue
            body = m.group(1).strip()
            if body:
                for tok in body.split(";"):
                    tok = tok.strip().replace("%N", "")
                    results.append(k + int(tok))

    for k, fn in files:
        while len(running) >= NPROC:
            reap(False)
            time.sleep(0.05)
        p = subprocess.Popen(["timeout", str(timeout), "coqc", "-Q", COQ, "PG", "-w", "none", fn, "-o", fn + "o"],
                             stdout=subprocess.PIPE, stderr=subprocess.STDOUT, text=True, cwd=outdir)
        running.append((k, fn, p))
    while running:
        reap(True)
    return sorted(results), err, len(files)


def coq_compute(prop, name, imports, expr, timeout=300, pre=""):
    """Evaluate one expression with vm_compute; returns raw output text."""
    outdir = os.path.join(BUILD, prop, "shards")
    os.makedirs(outdir, exist_ok=True)
    fn = os.path.join(outdir, name + ".v")
    with open(fn, "w") as f:
        f.write(f"From PG Require Import {imports}.\nLocal Open Scope N_scope.\n{pre}\nEval vm_compute in ({expr}).\n")
    rc, out = run(["timeout", str(timeout), "coqc", "-Q", COQ, "PG", "-w", "none", fn, "-o", fn + "o"], cwd=outdir,
                  timeout=timeout + 30)
    return rc, out


def parse_coq_str_list(out):
    """Parse `= [a; b; ...]` of N numerals (possibly with %N) into a list of ints."""
    m = re.search(r"=\s*\[(.*?)\]\s*:\s*(?:str|list N)", out, re.S)
    if not m:
        return None
    body = m.group(1).strip()
    if not body:
        return []
    return [int(t.strip().replace("%N", "")) for t in body.split(";")]


# ----------------------------------------------------------------------------
# implementation driver
# ----------------------------------------------------------------------------
def impl_env():
    env = dict(os.environ)
    env["PYTHONPATH"] = REPO
    env["PYTHONHASHSEED"] = "0"
    env["PYGOPHERD_VERIF"] = "1"
    env["VERIF_REPO"] = REPO
    env["PYTHONDONTWRITEBYTECODE"] = "1"
    return env


def impl_run(jobs, timeout=1800):
    """Run a batch of jobs in ONE process of the implementation's interpreter.
    jobs: list of dicts with an 'op' key.  Returns list of results."""
    data = json.dumps(jobs)
    p = subprocess.run([PY_IMPL, os.path.join(VERIF, "harness", "impl_driver.py")],
                       input=data, stdout=subprocess.PIPE, stderr=subprocess.PIPE, text=True,
                       cwd=REPO, env=impl_env(), timeout=timeout)
    if p.returncode != 0:
        raise RuntimeError("impl driver failed (rc=%d):\n%s" % (p.returncode, p.stderr[-4000:]))
    # the driver prints one JSON document on the last line
    line = p.stdout.strip().splitlines()[-1]
    return json.loads(line)


def impl_run_parallel(jobs, chunks=None, timeout=1800):
    """Split jobs across several driver processes (order preserved)."""
    import concurrent.futures
    n = chunks or NPROC
    if len(jobs) <= 1 or n <= 1:
        return impl_run(jobs, timeout)
    size = (len(jobs) + n - 1) // n
    parts = [jobs[i:i + size] for i in range(0, len(jobs), size)]
    with concurrent.futures.ThreadPoolExecutor(max_workers=len(parts)) as ex:
        outs = list(ex.map(lambda part: impl_run(part, timeout), parts))
    res = []
    for o in outs:
        res.extend(o)
    return res


# ----------------------------------------------------------------------------
# known findings, violations, evidence
# ----------------------------------------------------------------------------
def known_findings(prop):
    p = os.path.join(VERIF, "known_findings.json")
    if not os.path.exists(p):
        return []
    with open(p) as f:
        data = json.load(f)
    return [e for e in data.get("findings", []) if e.get("property") == prop]


class Check:
    """Collects what a run did; prints VIOLATION / KNOWN-FINDING lines; writes evidence."""

    def __init__(self, prop, tier):
        self.prop = prop
        self.tier = tier
        self.t0 = time.time()
        self.seed = seed()
        self.rng = random.Random(self.seed)
        self.violations = []        # (replay_path, no_input)
        self.known_printed = []
        self.coverage = {"evaluations": 0, "distinct_nontrivial": 0, "rule": "", "samples": []}
        self.assumptions = []
        self.notes = {}
        self._distinct = set()
        self.build_info = None
        os.makedirs(os.path.join(VERIF, "replays"), exist_ok=True)
        os.makedirs(os.path.join(VERIF, "evidence"), exist_ok=True)
        # replay files of an earlier run of this property would only confuse
        for fn in os.listdir(os.path.join(VERIF, "replays")):
            if fn.startswith(prop + "-") and fn.endswith(".json"):
                try:
                    os.unlink(os.path.join(VERIF, "replays", fn))
                except OSError:
                    pass

    # -- counting -----------------------------------------------------------
    def count(self, case_key, nontrivial=True, n=1):
        self.coverage["evaluations"] += n
        if nontrivial:
            h = hashlib.sha1(repr(case_key).encode("utf-8", "surrogatepass")).hexdigest()
            self._distinct.add(h)

    def sample(self, obj, limit=6):
        if len(self.coverage["samples"]) < limit:
            self.coverage["samples"].append(obj)

    # -- findings -------------------------------------------------------------
    def match_known(self, tag):
        for e in known_findings(self.prop):
            if e.get("kind") == "known" and e.get("tag") == tag:
                return e
        return None

    def violation(self, replay, tag=None, no_input=False):
        """replay: dict written to replays/.  tag: stable identifier of the failing
        site/input class used to match known findings."""
        if tag is not None:
            e = self.match_known(tag)
            if e is not None:
                if tag not in self.known_printed:
                    self.known_printed.append(tag)
                    print(f"KNOWN-FINDING: property={self.prop} {e.get('what', tag)}")
                return
        n = len(self.violations)
        path = os.path.join(VERIF, "replays", f"{self.prop}-{self.seed}-{n}.json")
        replay = dict(replay)
        replay.setdefault("property", self.prop)
        replay["tag"] = tag
        replay["no_failing_input_found"] = bool(no_input)
        with open(path, "w") as f:
            json.dump(replay, f, indent=1, ensure_ascii=True, default=repr)
        self.violations.append((path, no_input))
        if len(self.violations) <= 20:
            print(f"VIOLATION property={self.prop} replay={path}" + (" no-failing-input-found" if no_input else ""))
        sys.stdout.flush()

    # -- proof side -----------------------------------------------------------
    def proofs(self, extra_files=()):
        """Build everything; record obligations for Props/<prop>.v's closure.
        A broken proof/translation is reported by the caller after the search
        for a concrete input (see finish_proofs)."""
        if os.environ.get("VERIF_SKIP_PROOFS") == "1":   # development aid only; never set by registered commands
            self.proof_ok = True
            self.coverage["proofs_skipped"] = True
            self.coverage.update({"obligations": 0, "discharged": 0, "checker_cmd": "skipped", "trusted_base": []})
            return True
        b = build()
        self.build_info = b
        files = deps_closure(f"Props/{self.prop}.v")
        for f in extra_files:
            files = sorted(set(files) | set(deps_closure(f)))
        nob, names = count_obligations(files)
        ndis = discharged_count(files)
        self.coverage["obligations"] = nob
        self.coverage["discharged"] = ndis
        self.coverage["proof_files"] = files
        self.coverage["checker_cmd"] = b.get("cmd", "make")
        self.coverage["translator_tie"] = {k: v for k, v in b["gen_status"].items()}
        forb = grep_forbidden()
        self.coverage["forbidden_constructs_found"] = forb
        # a failure in a file this property does not depend on is not this property's business
        relevant = [f for f in b.get("failed_files", []) if f in files]
        if not b["ok"] and not b.get("failed_files"):
            relevant = ["<build>"]          # make itself failed (translator crash, _CoqProject ...)
        rc, out = (1, "")
        if not relevant:
            rc, out = print_assumptions(self.prop)
            if rc != 0:
                relevant = [f"Props/{self.prop}.v"]
            for f in extra_files:
                if f.startswith("Props/") and rc == 0:
                    rc2, out2 = print_assumptions(f[len("Props/"):-2])
                    out += "\n" + out2
                    if rc2 != 0:
                        rc = rc2
                        relevant = [f]
        closed, axioms = parse_assumptions(out)
        self.coverage["print_assumptions"] = {"closed_theorems": closed, "axioms": axioms}
        self.coverage["unrelated_build_failures"] = [f for f in b.get("failed_files", []) if f not in files]
        ok = not relevant and not forb and nob == ndis
        self.proof_ok = ok
        self.proof_failure = None
        if not ok:
            self.proof_failure = {
                "failed_files": b.get("failed_files", []), "relevant_failed_files": relevant,
                "forbidden": forb, "obligations": nob, "discharged": ndis,
                "log_tail": (b["log"] if relevant and relevant != [f"Props/{self.prop}.v"] else out)[-4000:],
            }
        if self.tier == "thorough" and ok:
            # independent re-check of the compiled theory and everything it depends on
            rcq, outq = run(["timeout", "1500", "coqchk", "-silent", "-o", "-Q", ".", "PG", f"PG.Props.{self.prop}"],
                            cwd=COQ, timeout=1600)
            m = re.search(r"\* Axioms:(.*?)\n\s*\n\* Constants/Inductives relying on type-in-type", outq, re.S)
            ax = " ".join(m.group(1).split()) if m else "?"
            self.coverage["coqchk"] = {"rc": rcq, "axioms": ax, "tail": outq[-600:] if rcq else ""}
            if rcq != 0:
                self.proof_ok = ok = False
                self.proof_failure = {"failed_files": [], "relevant_failed_files": [f"coqchk PG.Props.{self.prop}"],
                                      "forbidden": [], "log_tail": outq[-3000:]}
        tb = list(TRUSTED_BASE_COMMON)
        tb.append("Print Assumptions for Props/%s.v: %d theorem(s) 'Closed under the global context'; axioms: %s"
                  % (self.prop, closed, ", ".join(axioms) if axioms else "none"))
        self.coverage["trusted_base"] = tb
        return self.proof_ok

    def finish_proofs(self, found_concrete):
        """Call after the oracle search: if a proof obligation / translator tie is
        broken and no concrete failing input was reported, report it as such."""
        if not getattr(self, "proof_ok", True) and not found_concrete:
            self.violation({"what": "a proof obligation or the translation no longer checks",
                            "detail": self.proof_failure}, tag=None, no_input=True)

    def correspondence_broken(self, name, detail, found_concrete):
        if not found_concrete:
            self.violation({"what": f"correspondence {name} between model and implementation no longer holds",
                            "detail": detail}, tag=None, no_input=True)

    # -- evidence ------------------------------------------------------------
    def finish(self, level="proof"):
        self.coverage["distinct_nontrivial"] = len(self._distinct)
        ev = {
            "property_id": self.prop,
            "tier": self.tier,
            "seed": self.seed,
            "level": level,
            "coverage": self.coverage,
            "assumptions": self.assumptions,
            "wall_s": round(time.time() - self.t0, 2),
            "violations": len(self.violations),
            "known_findings_printed": self.known_printed,
            "notes": self.notes,
            "repo": REPO,
        }
        path = os.path.join(VERIF, "evidence", f"{self.prop}.json")
        with open(path, "w") as f:
            json.dump(ev, f, indent=1, ensure_ascii=True, default=repr)
        if self.violations:
            return 1
        return 0
