"""Correspondence K06 / K13: the Coq renderers (Model/RenderUrl.v) and client-side
readers (Model/ClientView.v) against the real code.

run_k06(chk, tier) / run_k13(chk, tier) -> (mismatches, err, details)
  mismatches: list of dicts describing the cases on which model and implementation differ
  err:        text when a Coq shard could not be evaluated, else None
  details:    counts per checker

Generated entries cover every combination class of the fields (None / empty / set name,
host, port; selectors with spaces, reserved URL characters, non-UTF-8 bytes as lone
surrogates, URL: forms including "URL:" followed by a newline; types i 7 0 1 h, missing
and malformed; names with markup metacharacters).  They are rendered by the REAL
renderobjinfo / getrenderstr / writedir / renderdirstart / renderdirend / filenotfound /
HTMLURLHandler.write and compared with the Coq renderers inside Coq."""
import html as _html

from common import coq_eval, coq_str, coq_bool, coq_list, impl_run, impl_run_parallel
import gen
import pgsite
import trees
import validators as V

SRV = "gopher.example"
IMPORTS06 = "Lib.Str Model.Entry Model.RenderUrl Model.ClientView Corr.K06"
IMPORTS13 = "Lib.Str Model.Entry Model.GopherPlus Model.RenderUrl Model.ClientView Corr.K06 Corr.K13"
PRE = "From Coq Require Import ZArith.\n"


# ----------------------------------------------------------------------------
# literals
# ----------------------------------------------------------------------------
def L(s):
    return None if s is None else [ord(c) for c in s]


def S(cps):
    return None if cps is None else "".join(map(chr, cps))


def cq_z(n):
    return "(%d)%%Z" % n if n < 0 else "%d%%Z" % n


def cq_ostr(x):
    return "(@None str)" if x is None else "(Some %s)" % coq_str(x)


def cq_oz(x):
    return "(@None Z)" if x is None else "(Some %s)" % cq_z(x)


def cq_entry(f):
    ea = coq_list("(%s, %s)" % (coq_str(k), coq_str(v)) for k, v in f.get("ea", []))
    return "(mk_e %s %s %s %s %s %s %s %s)" % (
        coq_str(f["selector"]), cq_ostr(f.get("type")), cq_ostr(f.get("name")), cq_ostr(f.get("host")),
        cq_oz(f.get("port")), cq_ostr(f.get("mimetype")), coq_bool(f.get("gplus", False)), ea)


def js_entry(f):
    return {"selector": L(f["selector"]), "type": L(f.get("type")), "name": L(f.get("name")), "host": L(f.get("host")),
            "port": f.get("port"), "mimetype": L(f.get("mimetype")), "gplus": bool(f.get("gplus")),
            "ea": [[L(k), L(v)] for k, v in f.get("ea", [])]}


def cq_pairs(pairs):
    return coq_list("(%s, %s)" % (coq_str(k), coq_str(v)) for k, v in pairs)


# ----------------------------------------------------------------------------
# generators
# ----------------------------------------------------------------------------
TYPES = [None, "i", "7", "0", "1", "h", "I", "", "10", "9"]
NAMES = [None, "", "plain", "a<b>&\"'c", "caf\u00e9", "\udcae.txt", "x\udcc3\udca9y", "tab\there", "=> gemini://x y",
         "two\nlines", "cr\rlf", "\ud800", "&amp;&lt;", "-->", "sp ace  s", "\\xae literal", "\udcff\udcfe", "\U0001F600",
         "=: /x y", "trailing\n"]
HOSTS = [None, "", SRV, "other.example", 'h"x<y>', "h st", "\udcae.host"]
PORTS = [None, 0, 70, 7070, -1]
SELECTORS = ["/a.txt", "", "/", "/dir with space/f.txt", "/q?x=1&y=2#frag", "/\udcae", "/caf\u00e9", "URL:http://x.example/",
             "/URL:http://x.example/a b", "URL:", "URL:\n", "URL:a\n", "URL:a\nb", "URL:a\n\n", "URL:x://y", "/URL:\nx://",
             "URL:http://x/\"><script>alert(1)</script>", "/%41", "//double", "noslash", "/\ud800", "/a\nb", "/URL:", "/URLx",
             "URL:/local/path", "URL:://", "URL:a://b\nc", "/1/typed", "/a\tb", "/~user/_x-y.z", "/\udcc3\udca9", "URL:\nhttp://x/",
             "URL:gopher://h:70/1/x", "/URL:https://e.example/?q=<\"'&>", "/x\u2028y", "/\x00"]
MIMES = [None, "", "text/plain", "application/gopher-menu", "a/b/c", "x/y\n", "noslash", "a/<b>&", "a/\nb/c", "/", "a/", "/z",
         "image/gif", "a/b\nc"]


def gen_entries(rng, n):
    """systematic sweep of the decision fields plus random combinations"""
    out = []
    k = 0
    for sel in SELECTORS:
        for t in (None, "i", "7", "0", "1"):
            for (h, p) in ((None, None), ("", 0), ("other.example", 7070), (SRV, 70), (None, 7070), ("other.example", None), (None, 0)):
                k += 1
                if len(SELECTORS) * 35 > n and rng.random() > n / (len(SELECTORS) * 35.0):
                    continue
                out.append({"selector": sel, "type": t, "name": NAMES[k % len(NAMES)], "host": h, "port": p,
                            "mimetype": MIMES[k % len(MIMES)], "gplus": k % 3 == 0})
    while len(out) < n:
        out.append({"selector": rng.choice(SELECTORS), "type": rng.choice(TYPES), "name": rng.choice(NAMES),
                    "host": rng.choice(HOSTS), "port": rng.choice(PORTS), "mimetype": rng.choice(MIMES),
                    "gplus": rng.random() < 0.5})
    return out


def encodable(s):
    if s is None:
        return True
    try:
        s.encode("utf-8", "surrogateescape")
        return True
    except UnicodeEncodeError:
        return False


def canonical(s):
    """is s what bytes.decode("utf-8", "surrogateescape") returns for some bytes?"""
    return s is None or (encodable(s) and s.encode("utf-8", "surrogateescape").decode("utf-8", "surrogateescape") == s)


def entry_encodable(f):
    return all(encodable(f.get(k)) for k in ("selector", "type", "name", "host", "mimetype"))


ICONS_DEFAULT = None  # read from the shipped configuration by the implementation


def shipped_icons():
    """the iconmapping of the shipped configuration (the model takes it as a parameter)"""
    import configparser
    import os
    from common import REPO
    cp = configparser.ConfigParser(interpolation=None)
    cp.read(os.path.join(REPO, "conf", "pygopherd.conf"))
    d = eval(cp.get("protocols.http.HTTPProtocol", "iconmapping"))
    return list(d.items()), cp.get("protocols.http.HTTPProtocol", "pagetopper")


def _rows_job(cases, config=None):
    return {"op": "c06_rows", "config": config or {}, "srvname": L(SRV), "srvport": 70, "cases": cases}


def _split(jobs_cases, op, extra, nchunks=8):
    """split a case list over several driver processes"""
    size = max(1, (len(jobs_cases) + nchunks - 1) // nchunks)
    jobs = []
    for i in range(0, len(jobs_cases), size):
        j = dict(extra)
        j["op"] = op
        j["cases"] = jobs_cases[i:i + size]
        jobs.append(j)
    res = impl_run_parallel(jobs, chunks=len(jobs))
    out = []
    for r in res:
        if not r["ok"]:
            raise RuntimeError(r["err"] + "\n" + r.get("tb", ""))
        out.extend(r["res"])
    return out


def probe_default_port():
    """which port does renderobjinfo hand to geturl for an entry with a host but no port of its own:
    the server's (repaired, /repo ee294ab) or the constant 70 (pinned)?"""
    f = {"selector": "/p", "type": "1", "name": "n", "host": "x.example"}
    r = impl_run([{"op": "c06_rows", "config": {}, "srvname": L(SRV), "srvport": 7070,
                   "cases": [{"proto": "http", "entry": js_entry(f)}]}])[0]
    if not r["ok"]:
        raise RuntimeError(r["err"] + r.get("tb", ""))
    return "x.example:7070/" in (S(r["res"][0]["out"]) or "")


def probe_pinned():
    """does the code under test escape the link target in HREF (repaired) or not (pinned)?
    The model variant compared is the one the code implements; the defect itself is the
    oracle's business."""
    f = {"selector": "URL:http://x/\"y", "type": "h", "name": "n"}
    r = impl_run([_rows_job([{"proto": "http", "entry": js_entry(f)}, {"proto": "wap", "entry": js_entry(f)}])])[0]
    if not r["ok"]:
        raise RuntimeError(r["err"] + r.get("tb", ""))
    outs = [S(x["out"]) or "" for x in r["res"]]
    return ['HREF="http://x/"y"' in outs[0], 'href="http://x/"y"' in outs[1]]


# ----------------------------------------------------------------------------
# K06
# ----------------------------------------------------------------------------
def run_k06(chk, tier):
    rng = chk.rng
    n = 1500 if tier == "thorough" else 500
    icons, _ = shipped_icons()
    mism, errs, details = [], [], {}
    pin_http, pin_wap = probe_pinned()
    details["variant"] = {"http_row": "pinned" if pin_http else "repaired", "wap_row": "pinned" if pin_wap else "repaired"}

    def evaluate(name, chkname, cases, raw, imports=IMPORTS06, shard=250):
        if not cases:
            details[name] = {"cases": 0, "mismatches": 0}
            return
        m, e, _ = coq_eval(chk.prop, name, imports, chkname, cases, shard=shard, pre=PRE)
        details[name] = {"cases": len(cases), "mismatches": len(m)}
        for i in m[:5]:
            mism.append({"checker": chkname, "case": raw[i]})
        if len(m) > 5:
            mism.append({"checker": chkname, "more": len(m) - 5})
        if e:
            errs.append(e)

    entries = gen_entries(rng, n)
    # ---- geturl ----
    gcases = [{"entry": js_entry(f), "dhost": L(dh), "dport": dp}
              for f in entries[: n // 2] for (dh, dp) in ((SRV, 70), ("d.example", 7071))]
    gres = _split(gcases, "c06_geturl", {})
    cases, raw = [], []
    k = 0
    for f in entries[: n // 2]:
        for (dh, dp) in ((SRV, 70), ("d.example", 7071)):
            o = gres[k]
            k += 1
            cases.append("(((%s, %s), %s), %s)" % (coq_str(dh), cq_z(dp), cq_entry(f), cq_ostr(S(o["out"]))))
            raw.append({"entry": f, "default": [dh, dp], "impl": S(o["out"]), "exc": o["exc"]})
            chk.count(("geturl", repr(f), dh), nontrivial=o["out"] is not None)
    evaluate("k_geturl", "chk_geturl", cases, raw)

    # ---- rows of every protocol ----
    rcases = []
    for i, f in enumerate(entries):
        for proto in ("gopher", "gopherplus", "http", "gemini", "spartan"):
            rcases.append({"proto": proto, "entry": js_entry(f)})
        rcases.append({"proto": "wap", "entry": js_entry(f), "key": (i * 5) % 15, "post": (i * 7) % 23})
    RPORT = 7070   # the rows are rendered by a server that is not on port 70
    port_fixed = probe_default_port()
    dport = RPORT if port_fixed else 70
    details["variant"]["default_port"] = "server port (repaired)" if port_fixed else "70 (pinned)"
    rres = _split(rcases, "c06_rows", {"config": {}, "srvname": L(SRV), "srvport": RPORT})
    per = {"gopher": ([], []), "gopherplus": ([], []), "http": ([], []), "wap": ([], []), "gemini": ([], []), "spartan": ([], [])}
    for c, o in zip(rcases, rres):
        proto = c["proto"]
        f = {k2: (S(v) if isinstance(v, list) and k2 != "ea" else v) for k2, v in c["entry"].items()}
        f["ea"] = []
        out = S(o["out"])
        cs, rw = per[proto]
        if proto in ("gopher", "gopherplus"):
            cs.append("(((%s, %s), %s), %s)" % (coq_str(SRV), cq_z(RPORT), cq_entry(f), cq_ostr(out)))
        elif proto == "http":
            cs.append("(((%s, (icons, (%s, %s))), %s), %s)" % (coq_bool(pin_http), coq_str(SRV), cq_z(dport), cq_entry(f), cq_ostr(out)))
        elif proto == "wap":
            res = "None" if out is None else "(Some (%s, (%d%%nat, %d%%nat)))" % (coq_str(out), o["key"], o["post"])
            cs.append("((((%s, (%s, (%s, %s))), (%d%%nat, %d%%nat)), %s), %s)" % (
                coq_bool(pin_wap), coq_str("/wap"), coq_str(SRV), cq_z(dport), c["key"], c["post"], cq_entry(f), res))
        else:
            cs.append("(((%s, (%s, %s)), %s), %s)" % (coq_bool(proto == "spartan"), coq_str(SRV), cq_z(dport), cq_entry(f), cq_ostr(out)))
        rw.append({"protocol": proto, "entry": f, "impl": out, "exc": o["exc"]})
        chk.count(("row", proto, repr(f)), nontrivial=out is not None)
    pre_icons = PRE + "Definition icons : list (str * str) := %s.\n" % cq_pairs(icons)
    for proto, chkname in (("gopher", "chk_gopher_row"), ("gopherplus", "chk_gopher_row"), ("http", "chk_http_row"),
                           ("wap", "chk_wap_row"), ("gemini", "chk_gem_row"), ("spartan", "chk_gem_row")):
        cs, rw = per[proto]
        m, e, _ = coq_eval(chk.prop, "k_row_" + proto, IMPORTS06, chkname, cs, shard=200, pre=pre_icons)
        details["k_row_" + proto] = {"cases": len(cs), "mismatches": len(m),
                                     "raising": sum(1 for r in rw if r["impl"] is None)}
        for i in m[:5]:
            mism.append({"checker": chkname, "case": rw[i]})
        if e:
            errs.append(e)

    # ---- whole directories through writedir, and the client-side readers on the result ----
    good = [f for f in entries if entry_encodable(f)]
    settings = [("always", "on"), ("never", "off"), ("unsupported", "on"), ("always", "off")]
    dcases, dmeta = [], []
    ndirs = 24 if tier == "thorough" else 8
    abstracts = ["one line", "two\nlines <b> & \"q\"", "", "x\r\ny\x0bz\u2028w", "=> /fake link", "tab\tin abstract"]
    for di in range(ndirs):
        ae, ah = settings[di % len(settings)]
        es = []
        for _ in range(rng.randrange(0, 9)):
            f = dict(rng.choice(good))
            if rng.random() < 0.8 and f.get("name") is None:
                f["name"] = "named"
            if rng.random() < 0.4:
                f["ea"] = [("ABSTRACT", rng.choice(abstracts))]
            es.append(f)
        d = {"selector": rng.choice(["/", "/dir1", "/d x/\udcae", "/a&b<c>"]), "type": "1",
             "name": rng.choice([None, "", "dir <name> & \"co\"", "d\udcae"]), "mimetype": "application/gopher-menu",
             "ea": [("ABSTRACT", rng.choice(abstracts))] if rng.random() < 0.6 else []}
        for proto in ("gopher", "gopherplus", "http", "wap", "gemini", "spartan"):
            dcases.append({"proto": proto, "dir": js_entry(d), "entries": [js_entry(f) for f in es]})
            dmeta.append((proto, ae, ah, d, es))
    # wellformed directories (every view hypothesis holds) so that the readers see full listings
    wf_names = ["plain", "a<b>&\"'c", "caf\u00e9", "\udcae.txt", "sp ace", "\\xae", "&amp;"]
    wf_sels = ["/a.txt", "/dir with space/f.txt", "/q?x=1&y=2#frag", "/\udcae", "/caf\u00e9", "/%41", "/~u/_x-y.z"]
    for di in range(ndirs):
        ae, ah = settings[di % len(settings)]
        es = []
        for _ in range(rng.randrange(1, 10)):
            kind = rng.randrange(5)
            f = {"name": rng.choice(wf_names), "type": rng.choice(["0", "1", "7", "h", "9"]), "selector": rng.choice(wf_sels)}
            if kind == 0:
                f.update(type="i", selector="fake", host="(NULL)", port=0)
            elif kind == 1:
                f.update(host="other.example", port=rng.choice([70, 7070]))
            elif kind == 2:
                f.update(type="h", selector=rng.choice(["URL:http://www.example.org/x?y=1&z=2", "/URL:https://e.example/%22"]))
            if rng.random() < 0.4:
                f["ea"] = [("ABSTRACT", rng.choice(abstracts[:4]))]
            es.append(f)
        d = {"selector": "/dir1", "type": "1", "name": rng.choice(["dir1", "d <1>"]), "mimetype": "application/gopher-menu",
             "ea": [("ABSTRACT", "about dir1\nsecond <x> & y")] if di % 2 else []}
        for proto in ("gopher", "gopherplus", "http", "wap", "gemini", "spartan"):
            dcases.append({"proto": proto, "dir": js_entry(d), "entries": [js_entry(f) for f in es]})
            dmeta.append((proto, ae, ah, d, es))
    # one job per configuration
    jobs, order = [], []
    for (ae, ah) in settings:
        idx = [i for i, m in enumerate(dmeta) if (m[1], m[2]) == (ae, ah)]
        cfg = {"pygopherd": {"abstract_entries": ae, "abstract_headers": ah},
               "protocols.gemini.GeminiProtocol": {"footer": None}, "protocols.gemini.SpartanProtocol": {"footer": None},
               "protocols.http.HTTPProtocol": {"pagetopper": None}}
        jobs.append({"op": "c06_dirs", "config": cfg, "srvname": L(SRV), "srvport": 70, "cases": [dcases[i] for i in idx]})
        order.append(idx)
    res = impl_run_parallel(jobs, chunks=len(jobs))
    dres = [None] * len(dcases)
    for r, idx in zip(res, order):
        if not r["ok"]:
            raise RuntimeError(r["err"] + "\n" + r.get("tb", ""))
        for i, o in zip(idx, r["res"]):
            dres[i] = o
    PROTO = {"gopher": "LGopher", "gopherplus": "LGopherPlus", "http": "LHttp", "wap": "LWap", "gemini": "LGemini",
             "spartan": "LSpartan"}
    AE = {"always": "AeAlways", "unsupported": "AeUnsupported", "never": "AeNever"}

    def cq_cfg(ae, ah):
        return "(mkLcfg %s %s %s %s icons %s None None None)" % (coq_str(SRV), cq_z(70), coq_bool(ah == "on"), AE[ae],
                                                                 coq_str("/wap"))

    cases, raw, vcases, vraw = [], [], [], []
    for (proto, ae, ah, d, es), o in zip(dmeta, dres):
        out = o["out"]
        lit_out = "None" if out is None else "(Some %s)" % coq_str(out)   # latin-1 str = bytes
        cases.append("(((%s, %s), (%s, (%s : list entry))), %s)" % (PROTO[proto], cq_cfg(ae, ah), cq_entry(d),
                                                                   coq_list(cq_entry(f) for f in es), lit_out))
        raw.append({"protocol": proto, "abstract_entries": ae, "abstract_headers": ah, "dir": d, "entries": es,
                    "impl_latin1": out, "exc": o["exc"]})
        chk.count(("dir", proto, ae, ah, repr(d), repr(es)), nontrivial=out is not None and len(es) > 0)
        if out is None:
            continue
        body = out.encode("latin-1")
        try:
            if proto in ("gopher", "gopherplus"):
                view = pgsite.view_gopher(V.parse_gopher_menu(body))
            elif proto == "http":
                view = pgsite.view_html(body)
            elif proto == "wap":
                view = pgsite.view_wml(body)
            else:
                view = pgsite.view_gemtext(body)
        except Exception:  # noqa  (Malformed, or a reader that cannot cope: compared as None)
            view = None
        if view is None and proto not in ("gopher", "gopherplus"):
            continue  # only the Gopher reader of the model has a notion of "malformed"
        text = body.decode("utf-8", "surrogateescape")
        vcases.append("(((%s, %s), %s), %s)" % (PROTO[proto], cq_cfg(ae, ah), coq_str(text), cq_view(view)))
        vraw.append({"protocol": proto, "body_latin1": out, "pgsite_view": repr(view)})
    evaluate_pre = pre_icons
    m, e, _ = coq_eval(chk.prop, "k_dir", IMPORTS06, "chk_dir", cases, shard=12, pre=evaluate_pre)
    details["k_dir"] = {"cases": len(cases), "mismatches": len(m), "raising": sum(1 for r in raw if r["impl_latin1"] is None)}
    for i in m[:5]:
        mism.append({"checker": "chk_dir", "case": raw[i]})
    if e:
        errs.append(e)
    m, e, _ = coq_eval(chk.prop, "k_view", IMPORTS06, "chk_view", vcases, shard=12, pre=evaluate_pre)
    details["k_view"] = {"cases": len(vcases), "mismatches": len(m)}
    for i in m[:5]:
        mism.append({"checker": "chk_view", "case": vraw[i]})
    if e:
        errs.append(e)

    # ---- `view` (what every client should see of an entry) against the reader of the real Gopher line ----
    cases, raw = [], []
    for c, o in zip(rcases, rres):
        if c["proto"] != "gopher" or o["out"] is None:
            continue
        f = {k2: (S(v) if isinstance(v, list) and k2 != "ea" else v) for k2, v in c["entry"].items()}
        f["ea"] = []
        if not entry_encodable(f) or f["type"] is None or len(f["type"]) != 1:
            continue
        # `view` is stated on decoded text: fields that are what decoding some bytes gives
        if not all(canonical(f.get(k2)) for k2 in ("selector", "name", "host")):
            continue
        if any(ch in (f["name"] or "") + f["selector"] + (f["host"] or "") for ch in "\t\r\n"):
            continue
        line = S(o["out"]).encode("utf-8", "surrogateescape")
        try:
            v = pgsite.view_gopher(V.parse_gopher_menu(line), RPORT)
        except V.Malformed:
            continue
        cases.append("(((%s, %s), %s), %s)" % (coq_str(SRV), cq_z(RPORT), cq_entry(f), "(Some %s)" % cq_vitem(v[0])))
        raw.append({"entry": f, "pgsite_view": repr(v[0])})
    evaluate("k_entry_view", "chk_entry_view", cases, raw)

    # ---- the view theorems' conclusion on the real code, wherever their hypothesis (entry_wf, evaluated in Coq) holds ----
    wf_names = ["plain", "a<b>&\"'c", "caf\u00e9", "\udcae.txt", "sp ace", "\\xae", "&amp;", "=> not a link", "=>  x", "tab\tname",
                "=> gemini://x y"]
    wf_sels = ["/a.txt", "/dir with space/f.txt", "/q?x=1&y=2#frag", "/\udcae", "/caf\u00e9", "/%41", "/~u/_x-y.z", "/GEMINI-QUERY/x",
               "URL:http://www.example.org/x?y=1&z=2", "/URL:https://e.example/%22", "URL:/local", "URL:http://x/a b", "noslash", "//dbl",
               "fake", "URL:", "/wap/inside", "/a\nb"]
    cand = list(entries[: n // 2])
    for _ in range(n // 2):
        cand.append({"selector": rng.choice(wf_sels), "type": rng.choice(["0", "1", "7", "h", "i", "9"]), "name": rng.choice(wf_names),
                     "host": rng.choice([None, None, None, "other.example", "(NULL)", SRV, "h st"]),
                     "port": rng.choice([None, None, None, 70, 7070, 0]), "mimetype": rng.choice(MIMES), "gplus": rng.random() < 0.5})
    cand = [f for f in cand if entry_encodable(f)]
    protos6 = ("gopher", "gopherplus", "http", "wap", "gemini", "spartan")
    wcases = [{"proto": proto, "dir": js_entry({"selector": "/d", "type": "1", "name": "d"}), "entries": [js_entry(f)]}
              for f in cand for proto in protos6]
    cfg1 = {"pygopherd": {"abstract_entries": "never", "abstract_headers": "off"},
            "protocols.gemini.GeminiProtocol": {"footer": None}, "protocols.gemini.SpartanProtocol": {"footer": None},
            "protocols.http.HTTPProtocol": {"pagetopper": None}}
    wres = _split(wcases, "c06_dirs", {"config": cfg1, "srvname": L(SRV), "srvport": RPORT})

    def one_view(proto, out):
        if out is None:
            return None
        body = out.encode("latin-1")
        try:
            if proto in ("gopher", "gopherplus"):
                v = pgsite.view_gopher(V.parse_gopher_menu(body), RPORT)
            elif proto == "http":
                v = pgsite.view_html(body)
            elif proto == "wap":
                v = pgsite.view_wml(body)
            else:
                v = pgsite.view_gemtext(body)
        except Exception:  # noqa
            return None
        return v[0] if len(v) == 1 else None

    # ---- oracle (implementation level, independent of the model): each protocol's own mechanism is offered ----
    # The (kind, name, target) views cannot tell a WAP link that lost the WAP prefix (the client would leave the
    # WML rendering) or a search entry rendered as a plain link (the client could not submit a query) from a
    # correct one; these two rules can.  They are stated on the real output with the readers of validators.py.
    import re as _re
    hits = 0
    nsearch = {}
    for i, f in enumerate(cand):
        simple_local = (f.get("host") is None and f.get("port") is None and f["selector"].startswith("/")
                        and not f["selector"].startswith("//") and not _re.match(r"/?URL:", f["selector"])
                        and f.get("name") is not None and f.get("type") is not None and len(f["type"]) == 1
                        and f["type"] != "i" and not any(ch in f["name"] + f["selector"] for ch in "\t\r\n")
                        and canonical(f["selector"]) and not f["selector"].startswith("/GEMINI-QUERY"))
        if not simple_local:
            continue
        outs = {proto: wres[i * 6 + j]["out"] for j, proto in enumerate(protos6)}
        if any(o is None for o in outs.values()):
            continue
        chk.count(("mechanism", repr(f)), nontrivial=True)
        bodies = {k_: v_.encode("latin-1") for k_, v_ in outs.items()}
        wtext = bodies["wap"].decode("utf-8", "surrogateescape")
        whrefs = [_html.unescape(h) for h in _re.findall(r'<(?:a|go)\b[^>]*\bhref="([^"]*)"', wtext)]
        bad = [h for h in whrefs if h.startswith("/") and not h.startswith("/wap/")]
        if bad or not whrefs:
            hits += 1
            if hits <= 3:
                chk.violation({"what": "a link in a WAP listing does not stay inside the WAP rendering (no waptop prefix)",
                               "entry": f, "hrefs": whrefs, "wap_listing": wtext[-400:]}, tag="wap-link-without-prefix")
        if f["type"] == "7":
            problems = {}
            rows = V.html_rows(bodies["http"])
            if not rows or rows[0]["form"] is None:
                problems["http"] = "no FORM with an ACTION in the row"
            if not _re.search(r'<input\b[^>]*>.*<go\b[^>]*\bhref="[^"]*"', wtext, _re.S):
                problems["wap"] = "no input field with a go element"
            gl = V.gemtext_links(bodies["gemini"])
            if not gl or not gl[0]["href"].startswith("/GEMINI-QUERY/"):
                problems["gemini"] = "link does not go through the /GEMINI-QUERY prompt"
            sl = V.gemtext_links(bodies["spartan"])
            if not sl or not sl[0]["search"]:
                problems["spartan"] = "not an input link (=:)"
            for proto, why in problems.items():
                hits += 1
                nsearch[proto] = nsearch.get(proto, 0) + 1
                if nsearch[proto] <= 2:
                    chk.violation({"what": "a search entry is not offered with the protocol's own query mechanism: " + why,
                                   "protocol": proto, "entry": f, "listing_latin1": outs[proto][-400:]},
                                  tag=f"search-entry-not-submittable:{proto}")
    details["oracle_hits"] = hits

    cases, raw = [], []
    for i, f in enumerate(cand):
        vs = [one_view(proto, wres[i * 6 + j]["out"]) for j, proto in enumerate(protos6)]
        cases.append("(((%s, %s), %s), %s)" % (coq_str(SRV), cq_z(RPORT), cq_entry(f),
                                               coq_list("(@None vitem)" if v is None else "(Some %s)" % cq_vitem(v) for v in vs)))
        raw.append({"entry": f, "pgsite_views": dict(zip(protos6, map(repr, vs)))})
    evaluate("k_wf_views", "chk_wf_views", cases, raw)
    m_, e_, _ = coq_eval(chk.prop, "k_wf_count", IMPORTS06, "is_wf_case", cases, shard=250, pre=PRE)
    details["k_wf_views"]["hypothesis_holds_on"] = len(m_)
    if e_:
        errs.append(e_)
    for i in m_:
        chk.count(("wf-entry", repr(cand[i])), nontrivial=True)

    # ---- MIME adjusters ----
    mimes = MIMES + ["text/html", "text/gemini", "text/vnd.wap.wml", "application/gopher+-menu", "application/octet-stream"]
    r = impl_run([{"op": "c06_mime", "config": {}, "inputs": [L(m_) for m_ in mimes]}])[0]
    if not r["ok"]:
        raise RuntimeError(r["err"] + r.get("tb", ""))
    cases = ["(%s, (%s, (%s, (%s, %s))))" % (cq_ostr(m_), coq_str(S(o[0])), coq_str(S(o[1])), coq_str(S(o[2])), coq_str(S(o[3])))
             for m_, o in zip(mimes, r["res"])]
    evaluate("k_mime", "chk_mime", cases, [{"mimetype": m_} for m_ in mimes],
             imports="Lib.Str Model.Entry Model.Copy Corr.K06")
    chk.coverage.setdefault("correspondence", {})["K06"] = details
    return mism, ("\n".join(errs) if errs else None), details


def _dec(b):
    return None if b is None else b.decode("utf-8", "surrogateescape")


def cq_vitem(v):
    kind = {"info": "KInfo", "link": "KLink", "url": "KUrl"}[v[0]]
    return "(mkVitem %s %s %s)" % (kind, coq_str(_dec(v[1])), cq_ostr(_dec(v[2])))


def cq_view(view):
    if view is None:
        return "None"
    return "(Some (%s : list vitem))" % coq_list(cq_vitem(v) for v in view)


# ----------------------------------------------------------------------------
# K13
# ----------------------------------------------------------------------------
PAYLOADS13 = ['<script>alert(1)</script>', '"><img src=x onerror=alert(1)>', "'><svg onload=1>", '&lt;b&gt;', 'a"b\'c', '-->',
              '<!--', ']]><x>', '" onmouseover="x', '&', '<', '>', '"', "'", '</TT></A><H1>x', '$(x)', '</p></card><card id="e">',
              'plain', '', 'caf\u00e9 \udcae', 'two\nlines', 'GOPHERURL', '\\1\\g<0>', "a\r\nSet-Cookie: x=1"]


def cq_event(ev):
    if ev[0] == "start":
        return "(EStart %s %s)" % (coq_str(ev[1]), coq_list(coq_str(a) for a in ev[2]))
    return "(EEnd %s)" % coq_str(ev[1])


def run_k13(chk, tier):
    rng = chk.rng
    icons, topper = shipped_icons()
    mism, errs, details = [], [], {}

    def evaluate(name, chkname, cases, raw, shard=12, pre=PRE):
        if not cases:
            details[name] = {"cases": 0, "mismatches": 0}
            return
        m, e, _ = coq_eval(chk.prop, name, IMPORTS13, chkname, cases, shard=shard, pre=pre)
        details[name] = {"cases": len(cases), "mismatches": len(m)}
        for i in m[:5]:
            mism.append({"checker": chkname, "case": raw[i]})
        if e:
            errs.append(e)

    payloads = list(PAYLOADS13)
    if tier == "thorough":
        atoms = ['<', '>', '&', '"', "'", 'a', ' ', '=', ';', '#', '-', '!', '/', '\n', 'x', '%', '\udcae']
        for _ in range(60):
            payloads.append("".join(rng.choice(atoms) for _ in range(rng.randrange(1, 14))))
    # ---- page builders ----
    pc, meta = [], []
    for p in payloads:
        for nm in (p, None):
            d = {"selector": "/d" + p.replace("\n", " "), "type": "1", "name": nm, "mimetype": "application/gopher-menu"}
            for what in ("http_dirstart", "http_dirend", "wap_dirstart", "wap_dirend"):
                pc.append({"what": what, "dir": js_entry(d)})
                meta.append((what, d))
        pc.append({"what": "http_404", "msg": L(p)})
        meta.append(("http_404", p))
        pc.append({"what": "wap_404", "msg": L(p)})
        meta.append(("wap_404", p))
        for pre in ("URL:", "/URL:"):
            pc.append({"what": "url_page", "selector": L(pre + "http://www.example.com/" + p)})
            meta.append(("url_page", pre + "http://www.example.com/" + p))
        pc.append({"what": "wap_deck", "text": L("line " + p + "\n\n" + p + "  \n<p>&amp;</p>")})
        meta.append(("wap_deck", "line " + p + "\n\n" + p + "  \n<p>&amp;</p>"))
        for gv in ("A " + p + "\nsecond\x0b+X:\x85" + p + "\u2028+INFO: x", p + "\n", "x\n\n+" + p + ":\r\n", p):
            pc.append({"what": "gplus_block", "name": L("ABSTRACT"), "value": L(gv)})
            meta.append(("gplus_block", ("ABSTRACT", gv)))
    cfg_nt = {"protocols.http.HTTPProtocol": {"pagetopper": None}}
    r_nt = _split(pc, "c13_pages", {"config": cfg_nt, "srvname": L(SRV), "srvport": 70})
    # which getblock does the code under test implement: with or without the final blank line of a value
    # that ends in a newline (fixed in /repo 3d93275)?  The model of Model/GopherPlus.v has both.
    pr = impl_run([{"op": "c13_pages", "config": cfg_nt, "srvname": L(SRV), "srvport": 70,
                    "cases": [{"what": "gplus_block", "name": L("ABSTRACT"), "value": L("a\n")}]}])[0]
    if not pr["ok"]:
        raise RuntimeError(pr["err"] + pr.get("tb", ""))
    keep_blank = S(pr["res"][0]["out"]) == "+ABSTRACT:\r\n a\r\n \r\n"
    details["gplus_block_variant"] = "keeps final blank line" if keep_blank else "pinned (plain splitlines)"
    # the directory start once more with the shipped page topper (GOPHERURL substituted)
    pc_t = [c for c in pc if c["what"] == "http_dirstart"]
    meta_t = [m for m in meta if m[0] == "http_dirstart"]
    r_t = _split(pc_t, "c13_pages", {"config": {}, "srvname": L(SRV), "srvport": 7070})
    by = {}
    pages = []    # generated pages for the tokenizer comparison

    def add(name, case, raw):
        by.setdefault(name, ([], []))
        by[name][0].append(case)
        by[name][1].append(raw)

    for (what, x), o in zip(meta, r_nt):
        out = S(o["out"])
        chk.count(("page", what, repr(x)), nontrivial=out is not None)
        rawc = {"builder": what, "input": x, "impl": out, "exc": o["exc"]}
        if what == "http_dirstart":
            add("chk_http_dirstart", "((((%s, %s), %s), %s), %s)" % ("(@None str)", coq_str(SRV), cq_z(70), cq_entry(x), cq_ostr(out)), rawc)
        elif what == "http_dirend":
            add("chk_http_dirend", "(((%s, %s), %s), %s)" % (coq_str(SRV), cq_z(70), cq_entry(x), cq_ostr(out)), rawc)
        elif out is None:
            mism.append({"checker": what, "case": rawc, "note": "the real builder raised"})
            continue
        elif what == "wap_dirstart":
            add("chk_wap_dirstart", "(%s, %s)" % (cq_entry(x), coq_str(out)), rawc)
        elif what == "wap_dirend":
            add("chk_wap_dirend", "(tt, %s)" % coq_str(out), rawc)
        elif what in ("http_404", "wap_404", "wap_deck", "url_page"):
            add("chk_" + what, "(%s, %s)" % (coq_str(x), coq_str(out)), rawc)
        elif what == "gplus_block":
            add("chk_gplus_block", "((%s, (%s, %s)), %s)" % (coq_bool(keep_blank), coq_str(x[0]), coq_str(x[1]), coq_str(out)), rawc)
        if out is not None and what not in ("gplus_block",):
            pages.append((what, out.split("\r\n\r\n", 1)[1] if what in ("http_404", "wap_404") else out))
    for (what, x), o in zip(meta_t, r_t):
        out = S(o["out"])
        rawc = {"builder": what + "+pagetopper", "input": x, "impl": out, "exc": o["exc"]}
        add("chk_http_dirstart", "((((%s, %s), %s), %s), %s)" % (cq_ostr(topper), coq_str(SRV), cq_z(7070), cq_entry(x), cq_ostr(out)), rawc)
        if out is not None:
            pages.append((what, out))
    for name, (cs, rw) in sorted(by.items()):
        evaluate("k_" + name[4:], name, cs, rw)

    # ---- directory rows with the payload in every slot (HTTP and WAP getrenderstr through renderobjinfo) ----
    pin_http, pin_wap = probe_pinned()
    details["variant"] = {"http_row": "pinned" if pin_http else "repaired", "wap_row": "pinned" if pin_wap else "repaired"}
    rents = []
    for p in payloads:
        q = p.replace("\n", " ")
        rents += [{"selector": "/s" + p, "type": "0", "name": p, "mimetype": "a/" + p},
                  {"selector": "URL:http://www.example.com/" + q, "type": "h", "name": "U " + p},
                  {"selector": "/r" + p, "type": "1", "name": "R " + p, "host": "h" + p + ".example", "port": 7070},
                  {"selector": "/q" + p, "type": "7", "name": "Q " + p, "mimetype": p},
                  {"selector": "fake", "type": "i", "name": p, "host": "(NULL)", "port": 0},
                  {"selector": "/n" + p, "type": "0", "name": None}]
    rc = []
    for i, f in enumerate(rents):
        rc.append({"proto": "http", "entry": js_entry(f)})
        rc.append({"proto": "wap", "entry": js_entry(f), "key": i % 14, "post": i % 5})
    rr = _split(rc, "c06_rows", {"config": {}, "srvname": L(SRV), "srvport": 70})
    hc, hraw, wc, wraw = [], [], [], []
    for c, o in zip(rc, rr):
        f = rents[len(hc) if c["proto"] == "http" else len(wc)]
        out = S(o["out"])
        chk.count(("row13", c["proto"], repr(f)), nontrivial=out is not None)
        if c["proto"] == "http":
            hc.append("(((%s, (icons, (%s, %s))), %s), %s)" % (coq_bool(pin_http), coq_str(SRV), cq_z(70), cq_entry(f), cq_ostr(out)))
            hraw.append({"protocol": "http", "entry": f, "impl": out, "exc": o["exc"]})
        else:
            res_ = "None" if out is None else "(Some (%s, (%d%%nat, %d%%nat)))" % (coq_str(out), o["key"], o["post"])
            wc.append("((((%s, (%s, (%s, %s))), (%d%%nat, %d%%nat)), %s), %s)" % (
                coq_bool(pin_wap), coq_str("/wap"), coq_str(SRV), cq_z(70), c["key"], c["post"], cq_entry(f), res_))
            wraw.append({"protocol": "wap", "entry": f, "impl": out, "exc": o["exc"]})
        if out is not None:
            pages.append((c["proto"] + ":row", out))
    pre_icons = PRE + "Definition icons : list (str * str) := %s.\n" % cq_pairs(icons)
    evaluate("k_http_row", "chk_http_row", hc, hraw, pre=pre_icons)
    evaluate("k_wap_row", "chk_wap_row", wc, wraw, pre=pre_icons)

    # ---- the tokenizer on real traffic: pages of the C13 worlds and the rows / pages built above ----
    import c13
    wp = ['"><img src=x onerror=alert(1)>', "a&b <i>x</i> 'q'", c13.INERT]
    if tier == "thorough":
        wp += ["</TT></A><H1>x", "-->", "&lt;b&gt;"]
    jobs, wmeta = [], []
    for p in wp:
        reqs = [r_ for r_ in c13.mk_requests(p) if r_[0].split(":")[0] in ("http", "wap") and not r_[0].endswith(":head")]
        jobs.append({"op": "world", "tree": c13.mk_tree(p), "config": trees.SITE_CONFIG,
                     "requests": [{"data": gen.lat(d), "tls": t} for _, d, t in reqs]})
        wmeta.append((p, reqs))
    res = impl_run_parallel(jobs, chunks=len(jobs))
    listing_pages = []
    for (p, reqs), r in zip(wmeta, res):
        if not r["ok"]:
            raise RuntimeError(r["err"] + "\n" + r.get("tb", ""))
        for (label, _, _), o in zip(reqs, r["res"]["results"]):
            proto = label.split(":")[0]
            try:
                v = V.validate(proto, o["out"].encode("latin-1"))
            except V.Malformed:
                continue
            ctype = dict((n.lower(), val) for n, val in v["headers"]).get("content-type", b"")
            if ctype.startswith((b"text/html", b"text/vnd.wap.wml")):
                text = v["body"].decode("utf-8", "surrogateescape")
                pages.append((label, text))
                if ":listing:" in label:
                    listing_pages.append((proto, text, v["body"]))
    cases, raw = [], []
    seen = set()
    for label, text in pages:
        if text in seen:
            continue
        seen.add(text)
        evs = V.html_skeleton(text.encode("utf-8", "surrogateescape"))
        cases.append("(%s, (%s : list event))" % (coq_str(text), coq_list(cq_event(ev) for ev in evs)))
        raw.append({"page_from": label, "page": text[:600], "html_parser_skeleton": repr(evs)[:600]})
        chk.count(("skeleton", text), nontrivial=len(evs) > 0)
    evaluate("k_skeleton", "chk_skeleton", cases, raw, shard=36)
    # rows of the HTTP listings as validators.html_rows reads them
    cases, raw = [], []
    for proto, text, body in listing_pages:
        if proto != "http":
            continue
        rows = V.html_rows(body)
        cases.append("(%s, (%s : list (option str * (str * option str))))" % (
            coq_str(text), coq_list("(%s, (%s, %s))" % (cq_ostr(r_["href"]), coq_str(r_["text"]), cq_ostr(r_["form"])) for r_ in rows)))
        raw.append({"page": text[:600], "rows": repr(rows)[:600]})
    evaluate("k_html_rows", "chk_html_rows", cases, raw, shard=4)
    details["k_skeleton"]["real_listing_pages"] = len(listing_pages)
    chk.coverage.setdefault("correspondence", {})["K13"] = details
    return mism, ("\n".join(errs) if errs else None), details
