"""Seeded generators shared by the checks: protocol request syntaxes, hostile
selectors, content trees.  All randomness comes from the rng passed in."""
import urllib.parse

PROTOCOLS = ["gopher", "sgopher", "gopherplus", "sgopherplus", "http", "https", "wap", "gemini", "spartan"]
TLS = {"gopher": False, "sgopher": True, "gopherplus": False, "sgopherplus": True, "http": False,
       "https": True, "wap": False, "gemini": True, "spartan": False}


def sel_bytes(sel):
    """selector str (code points, lone surrogates = raw bytes) -> bytes"""
    return sel.encode("utf-8", "surrogateescape")


def sel_bytes_to_str(b):
    """bytes -> selector str (inverse of sel_bytes)"""
    return b.decode("utf-8", "surrogateescape")


def lat(b):
    return b.decode("latin-1")


def pct(b, layers=1, safe=b"/", upper=True):
    """percent-encode bytes `layers` times"""
    out = b
    for _ in range(layers):
        q = urllib.parse.quote_from_bytes(out, safe=safe.decode())
        if not upper:
            q = q.lower()
        out = q.encode("ascii")
    return out


def request_bytes(proto, sel, layers=1, gplus="+", search=None, force_encode=False):
    """The protocol's own request syntax for selector `sel` (str).  Returns (bytes, tls)."""
    raw = sel_bytes(sel)
    tls = TLS[proto]
    if proto in ("gopher", "sgopher"):
        line = raw if search is None else raw + b"\t" + sel_bytes(search)
        return line + b"\r\n", tls
    if proto in ("gopherplus", "sgopherplus"):
        line = raw + (b"\t" + sel_bytes(search) if search is not None else b"") + b"\t" + gplus.encode()
        return line + b"\r\n", tls
    enc = pct(raw, layers, safe=b"" if force_encode else b"/")
    if force_encode:
        # every byte as %XX except the leading slash (without it a URL has no path at all)
        enc = raw[:1] + b"".join(b"%%%02X" % c for c in raw[1:])
        for _ in range(layers - 1):
            enc = pct(enc, 1, safe=b"/")
    q = b""
    if proto in ("http", "https", "wap"):
        if search is not None:
            q = b"?searchrequest=" + pct(sel_bytes(search), 1, safe=b"")
        pre = b"/wap" if proto == "wap" else b""
        return b"GET " + pre + enc + q + b" HTTP/1.0\r\n\r\n", tls
    if proto == "gemini":
        if search is not None:
            q = b"?" + pct(sel_bytes(search), 1, safe=b"")
        return b"gemini://gopher.example" + enc + q + b"\r\n", tls
    if proto == "spartan":
        body = sel_bytes(search) if search is not None else b""
        return b"gopher.example " + (enc or b"/") + b" " + str(len(body)).encode() + b"\r\n" + body, tls
    raise ValueError(proto)


def notfound_class(proto, out):
    """Is the response the protocol's own not-found answer? out: bytes"""
    if proto in ("gopher", "sgopher"):
        return out.startswith(b"3") and out.endswith(b"\r\n") and out.count(b"\r\n") == 1
    if proto in ("gopherplus", "sgopherplus"):
        return out.startswith(b"--2\r\n")
    if proto in ("http", "https"):
        return out.startswith(b"HTTP/1.0 404 ")
    if proto == "wap":
        return out.startswith(b"HTTP/1.0 200 Not Found\r\n") and b'title="404 Error"' in out
    if proto == "gemini":
        return out.startswith(b"51 ") and out.endswith(b"\r\n") and out.count(b"\n") == 1
    if proto == "spartan":
        return out.startswith(b"4 ") and out.endswith(b"\r\n") and out.count(b"\n") == 1
    raise ValueError(proto)


CLIMB_ATOMS = ["..", "./", "//", ".\\", "\\\\", "\x00", "../", "/..", "/../", "..\\", "/./", "\\..\\"]


def climber_selectors(rng, names, n):
    """Selectors that try to leave the root: climber atoms mixed with real names and
    names of things planted outside."""
    targets = ["secret.txt", "outside/secret.txt", "etc/passwd", "secret.txt.abstract", "secretdir", "secretdir/x.txt"]
    out = []
    for _ in range(n):
        kind = rng.randrange(8)
        nm = rng.choice(names) if names else "a.txt"
        tg = rng.choice(targets)
        up = "/".join([".."] * rng.randrange(1, 5))
        if kind == 0:
            s = "/" + up + "/" + tg
        elif kind == 1:
            s = "/" + nm + "/" + up + "/" + tg
        elif kind == 2:
            s = "/" + nm + rng.choice(CLIMB_ATOMS) + tg
        elif kind == 3:
            s = "/" + rng.choice(CLIMB_ATOMS) + nm
        elif kind == 4:
            s = "/" + nm + rng.choice(["|", "?"]) + "/" + up + "/" + tg
        elif kind == 5:
            s = "/" + nm + "\x00" + rng.choice(["", ".txt", "/" + tg])
        elif kind == 6:
            s = "/" + rng.choice(["1", "0", "x"]) + "/" + up + "/" + tg
        else:
            s = "/" + nm + "/" + rng.choice(["MBOX-MESSAGE", "x.zip"]) + "/" + up + "/" + tg
        out.append(s)
    # climbing in the REAL part of a virtual selector (argument suffix after | or ?)
    for up in ("..", "../..", "dir1/../.."):
        out.append("/" + up + "/mail.mbox|/MBOX-MESSAGE/1")
        out.append("/" + up + "/md|/MAILDIR-MESSAGE/1")
        out.append("/" + up + "/script.sh?hello")
        out.append("/" + up + "/script.sh|x y")
    return out


# characters and byte sequences that some normalisation (Unicode NFKC/NFKD, case folding, overlong UTF-8 decoding,
# Windows path rules) would turn into "." or "/": a server must treat them as ordinary name characters
DOT_ALIKES = ["\uff0e", "\u2024", "\ufe52", "\udcc0\udcae", "\u3002", "\uff61", "%u002e"]
DOTDOT_ALIKES = ["\u2025", "\uff0e\uff0e", "\u2024\u2024", ".\u2024", "\uff0e.", "\udcc0\udcae\udcc0\udcae", ".\u200b.", ".\u00ad.",
                 "\ufe52\ufe52", "\u2026"]
SLASH_ALIKES = ["\uff0f", "\u2215", "\u2044", "\udcc0\udcaf", "\u29f8", "\uff3c"]


def lookalike_selectors(rng, names):
    """Selectors that spell a climb with look-alikes of '.' and '/'.  None of them contains a real climbing component."""
    targets = ["secret.txt", "secretdir/x.txt", "secret.txt.abstract", "secretdir", "root2/secret.txt", "mail.mbox|/MBOX-MESSAGE/1",
               "script.sh?x"]
    out = []
    for dd in DOTDOT_ALIKES:
        tg = rng.choice(targets)
        out.append("/" + dd + "/" + tg)
        out.append("/" + rng.choice(names) + "/" + dd + "/" + dd + "/" + rng.choice(targets))
    for sl in SLASH_ALIKES:
        out.append("/dir1" + sl + ".." + sl + ".." + sl + rng.choice(targets))     # contains "..": must be not-found anyway
        out.append("/" + rng.choice(DOTDOT_ALIKES) + sl + rng.choice(targets))
    for d in DOT_ALIKES:
        out.append("/" + d + d + "/" + rng.choice(targets))
        out.append("/dir1/" + d + d + "/" + d + d + "/secret.txt")
        out.append("/" + d + "/a.txt")
    return out


SHELL_SUFFIXES = ["x;cat secret.txt", "$(cat secret.txt)", "`cat secret.txt`", "x|cat secret.txt", "x&&cat secret.txt", "x\ncat secret.txt",
                  "x>pwned.txt", "x;cat${IFS}secret.txt", "x;cat secretdir/x.txt", "-c cat secret.txt", "x';cat secret.txt;'",
                  "x\";cat secret.txt;\"", "x;ls", "x;pwd", "$HOME", "x*", "~"]


def shell_selectors(scripts):
    """Virtual-argument suffixes full of shell syntax for every script: arguments are data, never a command line."""
    out = []
    for sc in scripts:
        for suf in SHELL_SUFFIXES:
            for sep in ("?", "|"):
                out.append("/" + sc + sep + suf)
    return out


def literal_percent_forms(rng, s):
    """The selector with its dangerous characters written as percent escapes in the TEXT of
    the selector (for protocols that do not percent-decode, and as the second layer for those
    that do): a server must treat these as plain characters."""
    full = "".join("%%%02X" % b for b in sel_bytes(s)[1:])
    part = s.replace("..", "%2E%2E").replace("|", "%7C").replace("?", "%3F")
    part2 = "/" + s[1:].replace("..", "%2e%2e").replace("/", "%2f")
    return ["/" + full, part, part2]


def benign_names(rng, n):
    pool = ["a.txt", "b.html", "notes", "data.bin", "read me.txt", "x%41.txt", "café.txt", "q?.txt", "w|v.txt",
            "dir1", "dir2", "deep", "img.gif", "t.tar.gz", "z.zip", "mail.mbox", "UP.TXT", "a+b.txt", "#frag.txt",
            "am&p.txt", "semi;colon.txt", "\udcae.txt", "sp ace", "per%cent", "eq=ual.txt", "tilde~", "at@.txt"]
    rng.shuffle(pool)
    return pool[:n]


import re as _re

_TIME_PATTERNS = [
    (_re.compile(rb"Last-Modified: [^\r\n]*"), b"Last-Modified: <T>"),
    (_re.compile(rb" Mod-Date: [^\r\n]*"), b" Mod-Date: <T>"),
]


def mask_times(b):
    for pat, rep in _TIME_PATTERNS:
        b = pat.sub(rep, b)
    return b
