"""Implementation-side crawler: browses a scratch site the way a client of each
protocol would, following the links the server itself advertises."""
import os
import sys


def register(OPS, drv):
    here = os.path.dirname(os.path.abspath(__file__))
    if here not in sys.path:
        sys.path.insert(0, here)
    import gen
    import validators as V

    def fetch(w, proto, sel_bytes, search=None, gplus="+"):
        sel = sel_bytes.decode("utf-8", "surrogateescape")
        data, tls = gen.request_bytes(proto, sel, gplus=gplus, search=search)
        r = drv.serve_once(w.config, data, tls=tls)
        return data, r

    def links_of(proto, resp, server_name="gopher.example", server_port=None, follow_urls=False):
        server_port = drv.SERVER_PORT if server_port is None else server_port
        """-> list of (selector_bytes or None, advertised_type or None, raw link info)"""
        out = []
        try:
            v = V.validate(proto, resp)
        except V.Malformed:
            return out
        if v["kind"] != "success":
            return out
        body = v["body"]
        if proto in ("gopher", "sgopher", "gopherplus", "sgopherplus"):
            try:
                menu = V.parse_gopher_menu(body)
            except V.Malformed:
                return out
            for m in menu:
                if m["type"] == "i":
                    continue
                local = m["host"] == server_name.encode() and m["port"] == server_port
                is_url = m["selector"].startswith((b"URL:", b"/URL:"))
                # a URL: item that names this server's own host and port is a local link too: the client
                # sends the selector back and expects the redirect page (followed on request only: other
                # users of the crawl compare page sets)
                # (only URLs with an authority part, scheme://...: the redirect handler is documented as serving web
                # links; an item such as URL:mailto:x is content the server never claimed to serve)
                if local and ((follow_urls and b"://" in m["selector"]) or not is_url):
                    out.append((m["selector"], m["type"]))
        elif proto in ("http", "https"):
            for row in V.html_rows(body):
                href = row["href"] or row["form"]
                if V.is_local_href(href):
                    out.append((V.unquote_to_selector(href), "7" if row["form"] else None))
        elif proto == "wap":
            for l in V.wml_links(body):
                href = l["href"]
                if href.startswith("/wap"):
                    href = href[4:]
                    if V.is_local_href(href) or href == "":
                        out.append((V.unquote_to_selector(href or "/"), None))
        else:
            for l in V.gemtext_links(body):
                href = l["href"]
                t = "7" if l.get("search") else None
                # a client knows nothing about server-side prefixes: it follows the path as given
                if V.is_local_href(href):
                    out.append((V.unquote_to_selector(href), t))
        return out

    def crawl_world(w, job):
        if True:
            pages = []
            for proto in job["protos"]:
                seen = set()
                queue = [(b"/", "1", None)]
                n = 0
                while queue and n < job.get("max_pages", 200):
                    sel, typ, parent = queue.pop(0)
                    if sel in seen:
                        continue
                    seen.add(sel)
                    n += 1
                    if typ == "7":
                        data, r = fetch(w, proto, sel, search="needle")
                    else:
                        data, r = fetch(w, proto, sel)
                    out = r["out"].encode("latin-1")
                    if proto == "gemini":
                        # input prompt (1x): resubmit with a query; redirect (3x): follow it — as a client would
                        for _hop in range(3):
                            m10 = out[:2] in (b"10", b"11")
                            m30 = out[:2] in (b"30", b"31")
                            if m10:
                                data, r = fetch(w, proto, sel, search="needle")
                            elif m30:
                                import urllib.parse as _up
                                tgt = out.split(b"\r\n")[0][3:].decode("ascii", "surrogateescape")
                                cur = data.decode("ascii", "surrogateescape").strip()
                                joined = _up.urljoin("http" + cur[len("gemini"):], tgt)   # urljoin only knows http-like schemes
                                data = ("gemini" + joined[len("http"):]).encode("ascii", "surrogateescape") + b"\r\n"
                                r = drv.serve_once(w.config, data, tls=True)
                            else:
                                break
                            out = r["out"].encode("latin-1")
                    pages.append({"proto": proto, "selector": drv.b2s(sel), "type": typ, "parent": parent,
                                  "request": drv.b2s(data), "out": r["out"], "exc": r["exc"], "log": r["log"]})
                    is_menu_type = typ in ("1", None)
                    if typ == "1" or (typ is None):
                        for (s2, t2) in links_of(proto, out, follow_urls=bool(job.get("follow_url_links"))):
                            if s2 not in seen:
                                queue.append((s2, t2, drv.b2s(sel)))
            return pages


    def op_crawl(job):
        w = drv.World(job)
        try:
            return {"root": w.root, "pages": crawl_world(w, job)}
        finally:
            w.close()

    def age_tree(root, seconds):
        """Advance the clock by `seconds` as seen from every timestamp in the tree: all mtimes (files,
        directories, cache files) move into the past by the same amount, so every age and every ORDER
        between two timestamps is what it would be after a real wait."""
        paths = []
        for r, dirs, files in os.walk(root):
            paths.append(r)
            for fn in files:
                paths.append(os.path.join(r, fn))
        d = int(seconds) * 10 ** 9
        for p_ in paths:
            try:
                st = os.lstat(p_)
                os.utime(p_, ns=(st.st_atime_ns - d, st.st_mtime_ns - d), follow_symlinks=False)
            except OSError:
                pass

    def op_crawl_stages(job):
        """One world, several stages; each stage applies maintenance actions to the served tree (what an
        administrator does between two visits) and may then crawl it from / in every protocol.
        actions: {"do": "rename", "src", "dst"} (os.rename: the moved directory keeps its own mtime),
                 {"do": "copytree", "src", "dst"} (timestamps preserved, like cp -a / rsync -a),
                 {"do": "age", "seconds"} (let time pass), {"do": "write", "path", "data"}, {"do": "remove", "path"}.
        Paths are latin-1 strings standing for raw bytes, relative to the root."""
        import shutil
        w = drv.World(job)
        broot = os.fsencode(w.root)

        def P(rel):
            return os.path.join(broot, drv.s2b(rel).lstrip(b"/"))

        try:
            out = []
            for st in job["stages"]:
                for a in st.get("actions", []):
                    k = a["do"]
                    if k == "rename":
                        os.makedirs(os.path.dirname(P(a["dst"])), exist_ok=True)
                        os.rename(P(a["src"]), P(a["dst"]))
                    elif k == "copytree":
                        shutil.copytree(P(a["src"]), P(a["dst"]), symlinks=True)
                    elif k == "age":
                        age_tree(w.root, a["seconds"])
                    elif k == "write":
                        with open(P(a["path"]), "wb") as f:
                            f.write(drv.s2b(a["data"]))
                    elif k == "remove":
                        os.remove(P(a["path"]))
                    else:
                        raise ValueError("unknown action " + k)
                out.append({"name": st.get("name"), "pages": crawl_world(w, job) if st.get("crawl") else None})
            return {"root": w.root, "stages": out}
        finally:
            w.close()

    OPS["crawl_stages"] = op_crawl_stages
    OPS["crawl"] = op_crawl


def _serve_socket(drv, config, data, tls=False):
    """Like drv.serve_once but the handler writes to a real unbuffered socket file (as the
    real StreamRequestHandler does), so handlers that pass the descriptor to a subprocess work."""
    import io
    import socket
    import threading
    a, b = socket.socketpair()
    chunks = []

    def reader():
        while True:
            d = b.recv(65536)
            if not d:
                break
            chunks.append(d)

    th = threading.Thread(target=reader, daemon=True)
    th.start()
    wfile = a.makefile("wb", 0)
    r = drv.serve_once(config, data, tls=tls, wfile=wfile)
    try:
        wfile.close()
    except Exception:
        pass
    a.close()
    th.join(timeout=10)
    b.close()
    r["out"] = drv.b2s(b"".join(chunks))
    return r


def register_more(OPS, drv):
    import gen

    def op_requests_socket(job):
        """world + list of requests served over a real socket file"""
        w = drv.World(job)
        try:
            res = []
            for r in job["requests"]:
                res.append(_serve_socket(drv, w.config, drv.s2b(r["data"]), tls=r.get("tls", False)))
            return {"root": w.root, "results": res}
        finally:
            w.close()

    OPS["requests_socket"] = op_requests_socket


_old_register = register


def register(OPS, drv):  # noqa: F811
    _old_register(OPS, drv)
    register_more(OPS, drv)


def register_faults(OPS, drv):
    import builtins
    import errno
    import os
    import resource
    import pygopherd.handlers.base as hbase

    def op_world_faults(job):
        """Like op 'world', with injected I/O faults and an optional descriptor limit.
        faults: {"listdir": {name: errno_name}, "open": {name: errno_name}} — the fault hits any path whose
        last component equals name.  The wrappers live in the harness, not in the repository."""
        w = drv.World(job)
        faults = job.get("faults", {})
        orig_listdir = os.listdir
        orig_open = builtins.open

        def last(p):
            p = os.fsdecode(p) if isinstance(p, (bytes, str)) else ""
            return p.rstrip("/").rsplit("/", 1)[-1]

        def f_listdir(path="."):
            e = faults.get("listdir", {}).get(last(path))
            if e:
                code = getattr(errno, e)
                raise OSError(code, os.strerror(code), os.fsdecode(path))
            return orig_listdir(path)

        def f_open(path, *a, **k):
            if not isinstance(path, int):
                e = faults.get("open", {}).get(last(path))
                if e:
                    code = getattr(errno, e)
                    raise OSError(code, os.strerror(code), os.fsdecode(path))
            return orig_open(path, *a, **k)

        old_limit = None
        try:
            os.listdir = f_listdir
            hbase.open = f_open          # VFS_Real.open resolves `open` in its module first
            if job.get("nofile"):
                old_limit = resource.getrlimit(resource.RLIMIT_NOFILE)
                base = len(orig_listdir("/proc/self/fd"))
                resource.setrlimit(resource.RLIMIT_NOFILE, (base + int(job["nofile"]), old_limit[1]))
            res = []
            for r in job["requests"]:
                res.append(drv.serve_once(w.config, drv.s2b(r["data"]), tls=r.get("tls", False)))
            return {"root": w.root, "results": res}
        finally:
            os.listdir = orig_listdir
            try:
                del hbase.open
            except AttributeError:
                pass
            if old_limit is not None:
                resource.setrlimit(resource.RLIMIT_NOFILE, old_limit)
            w.close()

    OPS["world_faults"] = op_world_faults


_old_register2 = register


def register(OPS, drv):  # noqa: F811
    _old_register2(OPS, drv)
    register_faults(OPS, drv)
