"""Implementation-side operations for C01: which handler the real chain picks."""
import mimetypes


def register(OPS, drv):
    from pygopherd.handlers import HandlerMultiplexer
    from pygopherd import GopherExceptions

    def op_choose(job):
        w = drv.World(job)
        try:
            out = []
            hangs = 0
            for sel in job["selectors"]:
                drv.reset_lazies()
                if hangs >= 3:
                    out.append({"cls": "EXC:NotServed", "sel": None, "mime_html": False})
                    continue
                try:
                    with drv.time_limit():
                        h = HandlerMultiplexer.getHandler(sel, "", None, w.config)
                    out.append({"cls": type(h).__name__, "sel": h.selector,
                                "mime_html": mimetypes.guess_type(sel)[0] == "text/html"})
                except GopherExceptions.FileNotFound:
                    out.append({"cls": None, "sel": None, "mime_html": mimetypes.guess_type(sel)[0] == "text/html"})
                except drv.RequestTimeLimit:
                    hangs += 1
                    out.append({"cls": "EXC:RequestTimeLimit", "sel": None, "mime_html": False})
                except Exception as e:  # noqa
                    out.append({"cls": "EXC:" + type(e).__name__, "sel": None, "mime_html": False})
            return out
        finally:
            w.close()

    OPS["choose"] = op_choose
