"""Implementation-side operations for C01: which handler the real chain picks."""
import mimetypes


def register(OPS, drv):
    from pygopherd.handlers import HandlerMultiplexer
    from pygopherd import GopherExceptions

    def op_choose(job):
        w = drv.World(job)
        try:
            out = []
            for sel in job["selectors"]:
                drv.reset_lazies()
                try:
                    h = HandlerMultiplexer.getHandler(sel, "", None, w.config)
                    out.append({"cls": type(h).__name__, "sel": h.selector,
                                "mime_html": mimetypes.guess_type(sel)[0] == "text/html"})
                except GopherExceptions.FileNotFound:
                    out.append({"cls": None, "sel": None, "mime_html": mimetypes.guess_type(sel)[0] == "text/html"})
                except Exception as e:  # noqa
                    out.append({"cls": "EXC:" + type(e).__name__, "sel": None, "mime_html": False})
            return out
        finally:
            w.close()

    OPS["choose"] = op_choose
