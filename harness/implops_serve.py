"""Implementation-side operation for the end-to-end correspondence KServe: requests served
by the REAL code from the first byte (GopherRequestHandler.handle -> ProtocolMultiplexer ->
<protocol>.handle -> HandlerMultiplexer.getHandler -> handler) against a scratch tree.
Nothing is replaced; two recorders note (a) which protocol class getProtocol returned and
(b) the arguments and the result of the OUTERMOST call of getHandler.  Runs inside the
implementation's interpreter.  Strings cross JSON as lists of code points, bytes as latin-1
strings."""
import mimetypes
import signal

LIMIT_S = 5.0    # wall-clock limit per request; a request that exceeds it is reported, not waited for
MAX_TIMEOUTS = 3  # after that many in one job the remaining requests are reported as not served
TIMEOUT_NAMES = ("KServeTimeout", "RequestTimeLimit")


class KServeTimeout(BaseException):
    """not an Exception: it has to pass the `except Exception` of GopherRequestHandler.handle"""


def _alarm(signum, frame):
    raise KServeTimeout("request not answered within %.0f s" % LIMIT_S)


def register(OPS, drv):
    from pygopherd import GopherExceptions
    from pygopherd.handlers import HandlerMultiplexer
    from pygopherd.protocols import ProtocolMultiplexer

    def L(s):
        return None if s is None else [ord(c) for c in s]

    def is_html(sel):
        try:
            return mimetypes.guess_type(sel)[0] == "text/html"
        except Exception:  # noqa
            return False

    def serve(config, data, tls):
        picked = {}
        gh = {"depth": 0, "rec": None}
        orig_gp = ProtocolMultiplexer.getProtocol
        orig_gh = HandlerMultiplexer.getHandler

        def getProtocol(*a, **k):
            p = orig_gp(*a, **k)
            picked["cls"] = None if p is None else type(p).__name__
            return p

        def getHandler(selector, searchrequest, protocol, config_, *a, **k):
            outer = gh["depth"] == 0 and gh["rec"] is None
            gh["depth"] += 1
            try:
                try:
                    h = orig_gh(selector, searchrequest, protocol, config_, *a, **k)
                except GopherExceptions.FileNotFound as e:
                    if outer:
                        gh["rec"] = {"sel": L(selector), "search": L(searchrequest), "result": "notfound",
                                     "nf_selector": L(e.selector), "comments": e.comments}
                    raise
                except BaseException as e:  # noqa
                    if outer:
                        gh["rec"] = {"sel": L(selector), "search": L(searchrequest), "result": "exc:" + type(e).__name__}
                    raise
                if outer:
                    gh["rec"] = {"sel": L(selector), "search": L(searchrequest), "result": "handler",
                                 "cls": type(h).__name__, "hsel": L(h.selector)}
                return h
            finally:
                gh["depth"] -= 1

        ProtocolMultiplexer.getProtocol = getProtocol
        HandlerMultiplexer.getHandler = getHandler
        # the driver's own per-request limit (serve_once arms it) when it has one, else ours
        drv_limit = getattr(drv, "_alarm_ok", False) and hasattr(drv, "REQUEST_TIME_LIMIT")
        if drv_limit:
            old = drv.REQUEST_TIME_LIMIT
            drv.REQUEST_TIME_LIMIT = min(old, LIMIT_S)
        else:
            old = signal.signal(signal.SIGALRM, _alarm)
            signal.setitimer(signal.ITIMER_REAL, LIMIT_S)
        try:
            r = drv.serve_once(config, data, tls=tls)
        finally:
            if drv_limit:
                drv.REQUEST_TIME_LIMIT = old
            else:
                signal.setitimer(signal.ITIMER_REAL, 0)
                signal.signal(signal.SIGALRM, old)
            ProtocolMultiplexer.getProtocol = orig_gp
            HandlerMultiplexer.getHandler = orig_gh
            gh["depth"] = 0
        rec = gh["rec"]
        mime = []
        if rec is not None:
            sel = "".join(map(chr, rec["sel"]))
            mime = [[L(sel), is_html(sel)], [L(sel[2:]), is_html(sel[2:])]]
        return {"cls": picked.get("cls"), "out": r["out"], "exc": r["exc"], "log": [L(x) for x in r["log"]],
                "gh": rec, "mime": mime, "secs": r["secs"], "timeout": bool(r["exc"] and r["exc"].startswith(TIMEOUT_NAMES))}

    def op_serve_e2e(job):
        """job: tree, config (overrides), requests: [{data (latin-1), tls}] -> per request what the
        server did; plus the admin string and the WAP prefix of the configuration in force"""
        w = drv.World(job)
        try:
            res = []
            hung = 0
            for rq in job["requests"]:
                if hung >= MAX_TIMEOUTS:
                    res.append({"cls": None, "out": "", "exc": "not served: %d earlier requests hung" % hung, "log": [],
                                "gh": None, "mime": [], "secs": 0, "skipped": True})
                    continue
                r = serve(w.config, drv.s2b(rq["data"]), rq.get("tls", False))
                if r["exc"] and r["exc"].startswith(TIMEOUT_NAMES):
                    hung += 1
                    drv.reset_lazies()
                res.append(r)
            return {"results": res,
                    "admin": w.config.get("protocols.gopherp.GopherPlusProtocol", "admin"),
                    "waptop": w.config.get("protocols.wap.WAPProtocol", "waptop"),
                    "protocols": w.config.get("protocols.ProtocolMultiplexer", "protocols")}
        finally:
            w.close()

    OPS["serve_e2e"] = op_serve_e2e
