"""C17 — simpleTAL executes templates according to TAL/TALES semantics; compiled programs
are structurally well formed."""
import json
import sys

from common import Check, coq_eval, coq_str, impl_run
import talgen
import talref
import talcommon as tc

# hand-written cases that run first: the _refuted witness of the model (D13) and typical templates
CORPUS = [
    ("d13-text-keyword", '<p tal:content="text foo">d</p>', {"foo": ["s", "x<y"]}),
    ("d13-replace", '<p tal:replace="text foo">d</p>', {"foo": ["s", "x"]}),
    ("structure", '<p tal:content="structure foo">d</p>', {"foo": ["s", "<b>x</b>"]}),
    ("order", '<li tal:omit-tag="" tal:attributes="id i" tal:content="i" tal:repeat="i l" tal:condition="l" '
              'tal:define="l l1">x</li>', {"l1": ["l", [["s", "a"], ["s", "b"]]]}),
    ("exists-repeat", '<p tal:repeat="i l1"><b tal:condition="exists:repeat/i">e</b></p>', {"l1": ["l", [["n", 1]]]}),
    ("macro-extension", "", {}),
    ("macro", '<div metal:define-macro="m1"><span metal:define-slot="s">default</span> tail</div>'
              '<p metal:use-macro="macros/m1">zz<i metal:fill-slot="s" tal:content="v1">filled</i></p>',
     {"v1": ["s", "<V>"]}),
]


def corpus_nodes(name):
    """trees of the corpus templates for the reference evaluator"""
    E, T = talgen.Elem, talgen.Text
    if name == "d13-text-keyword":
        return [E("p", tal={"content": "text foo"}, children=[T("d")])]
    if name == "d13-replace":
        return [E("p", tal={"replace": "text foo"}, children=[T("d")])]
    if name == "structure":
        return [E("p", tal={"content": "structure foo"}, children=[T("d")])]
    if name == "order":
        return [E("li", tal={"define": "l l1", "condition": "l", "repeat": "i l", "content": "i",
                             "attributes": "id i", "omit-tag": ""}, children=[T("x")], order=[5, 4, 3, 2, 1, 0])]
    if name == "exists-repeat":
        return [E("p", tal={"repeat": "i l1"}, children=[E("b", tal={"condition": "exists:repeat/i"}, children=[T("e")])])]
    if name == "macro-extension":
        # the METAL idiom of extending a macro: use-macro and define-macro on one element; and a macro whose root is a slot
        return [E("b", metal={"define-macro": "m1"}, children=[T("M")]),
                E("p", metal={"use-macro": "macros/m1", "define-macro": "m2"}, children=[T("x")]),
                E("i", metal={"use-macro": "macros/m2"}, children=[T("y")]),
                E("div", metal={"define-macro": "m3", "define-slot": "s"}, children=[T("D")]),
                E("u", metal={"use-macro": "macros/m3"}, children=[T("z")])]
    if name == "macro":
        return [E("div", metal={"define-macro": "m1"},
                  children=[E("span", metal={"define-slot": "s"}, children=[T("default")]), T(" tail")]),
                E("p", metal={"use-macro": "macros/m1"},
                  children=[T("zz"), E("i", metal={"fill-slot": "s"}, tal={"content": "v1"}, children=[T("filled")])])]
    raise KeyError(name)


def per_item_corpus():
    """Exhaustive small cases: a repeat together with content / replace / attributes / omit-tag on the SAME
    element, over every sequence of three items whose key is a real value (V), `nothing` (N) or absent so that
    the expression falls through to `default` (D) — all 27 orders, plus a nested repeat."""
    import itertools
    E, T = talgen.Elem, talgen.Text
    item = {"V": ["d", [["t", ["s", "v<1>"]]]], "N": ["d", [["t", ["z"]]]], "D": ["d", []]}
    shapes = [
        ("content", lambda: E("li", tal={"repeat": "f m", "content": "f/t | default"}, children=[T("(untitled)"), E("b", children=[T("x")])])),
        ("replace", lambda: E("li", tal={"repeat": "f m", "replace": "f/t | default"}, children=[T("(untitled)")])),
        ("structure", lambda: E("li", tal={"repeat": "f m", "content": "structure f/t | default"}, children=[E("i", children=[T("none")])])),
        ("attributes", lambda: E("li", attrs=[("title", "orig"), ("id", "i")],
                                tal={"repeat": "f m", "attributes": "title f/t | default; id f/t | nothing"}, children=[T("x")])),
        ("omit-tag", lambda: E("li", tal={"repeat": "f m", "omit-tag": "f/t | nothing"}, children=[T("x")])),
        ("all", lambda: E("li", attrs=[("title", "orig")],
                         tal={"repeat": "f m", "content": "f/t | default", "attributes": "title f/t | default",
                              "omit-tag": "f/t | nothing"}, children=[T("(untitled)")])),
        # the same statements on a CHILD of the repeating element: executed once per iteration from the element's template
        # attributes / children (nothing an earlier iteration computed may be left)
        ("child-attributes", lambda: E("li", tal={"repeat": "f m"}, children=[
            E("a", attrs=[("href", "#none"), ("id", "i")], tal={"attributes": "href f/t | default; id f/t | nothing"}, children=[T("x")])])),
        ("child-all", lambda: E("li", tal={"repeat": "f m"}, children=[
            E("a", attrs=[("title", "orig")], tal={"content": "f/t | default", "attributes": "title f/t | default",
                                                  "omit-tag": "f/t | nothing"}, children=[T("(untitled)")]), T(";")])),
    ]
    out = []
    for order in itertools.product("VND", repeat=3):
        ctx = {"m": ["l", [item[o] for o in order]]}
        for name, mk in shapes:
            out.append(("per-item-%s-%s" % (name, "".join(order)), [E("ul", children=[mk()])], ctx))
    groups = ["l", [["l", [item["V"], item["D"]]], ["l", [item["D"], item["V"]]], ["l", [item["N"], item["D"], item["V"]]]]]
    out.append(("per-item-nested", [E("dl", tal={"repeat": "g groups"},
                                      children=[E("dt", tal={"repeat": "f g", "content": "f/t | default"}, children=[T("?")])])],
                {"groups": groups}))
    return out


def chain_corpus():
    """Exhaustive small cases: ONE tal:define with two or three definitions where each later definition is computed from the
    variable the previous one has just bound — every local/global combination x the first name fresh / re-binding the
    context variable it reads / shadowing a variable of an enclosing define / shadowing an enclosing loop variable x the
    statement that consumes the last name (content, attributes, condition, repeat on the same element; a child element);
    a probe after the element shows what is left (locals gone, globals kept, the enclosing binding back)."""
    import itertools
    E, T = talgen.Elem, talgen.Text
    leaf = ["d", [["k", ["s", "innermost"]]]]
    mid = ["d", [["k", ["s", "inner"]], ["sub", leaf]]]
    doc = ["d", [["k", ["s", "top"]], ["sub", mid]]]
    other = ["d", [["k", ["s", "other"]], ["sub", ["d", [["k", ["s", "other-inner"]], ["sub", leaf]]]]]]
    ctx = {"doc": doc, "docs": ["l", [doc, other]]}
    out = []
    for k0, k1, shadow, use, three in itertools.product(("", "global "), ("local ", "global "),
                                                        ("fresh", "self", "outer-define", "outer-repeat"),
                                                        ("content", "attributes", "condition", "repeat", "child"), (False, True)):
        if three and use not in ("content", "repeat"):
            continue
        a, src = ("doc", "doc/sub") if shadow == "self" else ("d", "doc/sub" if shadow == "fresh" else "d/sub")
        parts = ["%s%s %s" % (k0, a, src)]
        if three:
            parts.append("m %s/sub" % a)
            parts.append("%st m/k" % k1)
        else:
            parts.append("%st %s/k" % (k1, a))
        tal = {"define": "; ".join(parts)}
        kids = [T("x")]
        if use == "content":
            tal["content"] = "t"
        elif use == "attributes":
            tal["attributes"] = "title t; alt attrs/title"
        elif use == "condition":
            tal["condition"] = "t"
        elif use == "repeat":
            tal.update({"repeat": "c t", "content": "c"})
        else:
            kids = [E("b", tal={"replace": "string:${%s/k}/${t}" % a}, children=[T("y")])]
        e = E("p", attrs=[("title", "orig")], tal=tal, children=kids)
        after = E("i", tal={"content": "string:${t | string:no-t}/${%s/k | string:no-%s}" % (a, a)}, children=[T("z")])
        nodes = [e, after]
        if shadow == "outer-define":
            nodes = [E("div", tal={"define": "d doc"}, children=[e, after])]
        elif shadow == "outer-repeat":
            nodes = [E("div", tal={"repeat": "d docs"}, children=[e, after])]
        name = "chain-%s%s-%s-%s-%d" % ((k0 or "local ")[0], k1[0], shadow, use, 3 if three else 2)
        out.append((name, nodes, ctx))
    return out


def semi_corpus():
    """Exhaustive small cases: the escaped semicolon `;;` at every position of a tal:define / tal:attributes statement list —
    at the start, in the middle and at the END of an expression, doubled, in the first / the last / the only statement of the
    list, the list followed by blanks.  (`;;` is a literal `;` of the expression, a single `;` separates statements.)"""
    E, T = talgen.Elem, talgen.Text
    out = []
    lits = [";", "a;", ";a", "a;b", ";;", "a;;", "c:d; e:f;", "go(1);"]
    for li, lit in enumerate(lits):
        ex = talgen.esc_semi("string:" + lit)
        for pos in ("only", "first", "last"):
            for tail in ("", " ", "  "):
                if tail and pos == "first":
                    continue
                for stmt in ("define", "attributes"):
                    a, b = ("x", "y") if stmt == "define" else ("title", "alt")
                    mine, other = "%s %s" % (a, ex), "%s s1" % b
                    arg = {"only": mine, "first": mine + " ; " + other, "last": other + "; " + mine}[pos] + tail
                    tal = {stmt: arg}
                    if stmt == "define":
                        tal["content"] = "string:[${x}][${y | string:-}]"
                    nodes = [E("p", attrs=[("title", "orig")], tal=tal, children=[T("d")])]
                    out.append(("semi-%d-%s-%d-%s" % (li, pos, len(tail), stmt), nodes, {"s1": ["s", "S;1"]}))
    return out


def classify(case, nodes, lib_nodes, r):
    """Compare the real expansion with the reference evaluator.
    Returns (status, detail) with status in match | cosmetic | out_of_scope | compile_error |
    known:<tag> | mismatch | exception"""
    if case.get("unclosed"):
        if "compile_exc" in r:
            return "rejected_unclosed", None
        return "known:unclosed-tal-element", {"expected": "TemplateParseException (TAL/METAL elements must be balanced)"}
    if case.get("duplicate"):
        if "compile_exc" in r:
            return "rejected_duplicate", None
        leak = None
        if r.get("snap0") and r.get("snap1") and r["snap0"]["localStack"] != r["snap1"]["localStack"]:
            leak = {"localStack_before": r["snap0"]["localStack"], "localStack_after": r["snap1"]["localStack"]}
        return "known:duplicate-statement", {"expected": "TemplateParseException (statement given twice / content with replace)",
                                             "context_leak": leak}
    if case.get("corpus") == "macro-extension":
        try:
            exp = tc.reference(case, nodes, lib_nodes)
        except talref.OutOfScope:
            exp = None
        if "compile_exc" not in r and not r["exc"] and exp == r["out"]:
            return "match", None
        return "known:subtemplate-start", {"expected": exp, "exception": r.get("exc") or r.get("compile_exc")}
    if "compile_exc" in r:
        return "compile_error", {"exception": r["compile_exc"]}
    try:
        exp = tc.reference(case, nodes, lib_nodes)
    except talref.OutOfScope as e:
        return "out_of_scope", {"why": str(e)}
    if r["exc"]:
        if "realValue" in r["exc"]:
            return "known:nocall-contextvariable", {"expected": exp, "exception": r["exc"]}
        return "exception", {"expected": exp, "exception": r["exc"]}
    if exp == r["out"]:
        return "match", None
    if talref.canon(exp) == talref.canon(r["out"]):
        return "cosmetic", None
    # is the disagreement the pinned keyword defect (DESIGN D13)?
    try:
        exp13 = tc.reference(case, nodes, lib_nodes, pinned=("text_keyword",))
    except talref.OutOfScope:
        exp13 = None
    if exp13 is not None and (exp13 == r["out"] or talref.canon(exp13) == talref.canon(r["out"])):
        return "known:content-text-keyword", {"expected": exp}
    # ... or the unstripped first alternative of `exists:a | b` / `nocall:a | b`?
    try:
        exp_fa = tc.reference(case, nodes, lib_nodes, pinned=("first_alt_unstripped",))
    except talref.OutOfScope:
        exp_fa = None
    if exp_fa is not None and (exp_fa == r["out"] or talref.canon(exp_fa) == talref.canon(r["out"])):
        return "known:exists-nocall-first-alternative", {"expected": exp}
    return "mismatch", {"expected": exp}


def run(tier):
    chk = Check("C17", tier)
    chk.proofs(extra_files=["Corr/K17.v"])
    cov = chk.coverage
    rng = chk.rng
    found = False
    thorough = tier == "thorough"
    n_templates = 10000 if thorough else 600
    maxdepth = 7 if thorough else 4

    # ---------------- cases ----------------
    cases, trees = [], []
    for name, src, ctx in CORPUS:
        nodes = corpus_nodes(name)
        src = talgen.serialize(nodes)      # (the strings in CORPUS are for the reader)
        cases.append({"id": len(cases), "main": src, "lib": None, "ctx": ctx, "options": tc.OPTIONS_SPEC,
                      "allow_python": 0, "want": ["prog", "snap", "trace", "events"], "corpus": name})
        trees.append((nodes, None))
    for name, nodes, ctx in per_item_corpus():
        cases.append({"id": len(cases), "main": talgen.serialize(nodes), "lib": None, "ctx": ctx, "options": tc.OPTIONS_SPEC,
                      "allow_python": 0, "want": ["prog", "events"] + ([] if name.startswith("per-item-child-") else ["trace"]),
                      "corpus": name})
        trees.append((nodes, None))
    for name, nodes, ctx in chain_corpus():
        cases.append({"id": len(cases), "main": talgen.serialize(nodes), "lib": None, "ctx": ctx, "options": tc.OPTIONS_SPEC,
                      "allow_python": 0, "want": ["prog", "events"] + ([] if name.endswith("-3") else ["trace"]), "corpus": name})
        trees.append((nodes, None))
    for name, nodes, ctx in semi_corpus():
        cases.append({"id": len(cases), "main": talgen.serialize(nodes), "lib": None, "ctx": ctx, "options": tc.OPTIONS_SPEC,
                      "allow_python": 0, "want": ["prog", "events"], "corpus": name})
        trees.append((nodes, None))
    n_corpus = len(cases)
    while len(cases) < n_templates + n_corpus:
        i = len(cases)
        want = ["prog", "events"]
        if i % 4 == 0:
            want.append("bytes")
        d = maxdepth if rng.random() < 0.6 else rng.choice(range(1, maxdepth + 1))
        case, nodes, lib_nodes = tc.make_case(rng, i, d, want=want)
        if lib_nodes is None and (i % 2 == 0 or not thorough):
            case["want"].append("trace")
        q = rng.random()
        if q < 0.01:
            # a TAL element that is never closed (no enclosing end tag follows): must be rejected
            case["main"] += '<p tal:content="s1">tail'
            case["unclosed"] = True
            case["want"] = ["prog", "events"]
        elif q < 0.02:
            # a statement twice on one element / content together with replace: must be rejected
            case["main"] += rng.choice(['<p tal:define="x s1" tal:define="y s2">dup</p>', '<p tal:content="s1" tal:replace="s2">both</p>',
                                        '<p tal:repeat="i l1" tal:repeat="j l1">dup</p>', '<p tal:attributes="a s1" tal:attributes="b s2">dup</p>'])
            case["duplicate"] = True
            case["want"] = ["prog", "events", "snap"]
        cases.append(case)
        trees.append((nodes, lib_nodes))
    results = tc.run_cases(cases)
    variant = tc.probe_variant()

    # ---------------- oracle (a): reference evaluator vs real expand ----------------
    stats = {}
    fnd = tc.Findings(chk)
    cmdsets = {}
    depth_hist = {}
    for case, (nodes, lib_nodes), r in zip(cases, trees, results):
        status, detail = classify(case, nodes, lib_nodes, r)
        stats[status] = stats.get(status, 0) + 1
        case["_status"] = status
        talgen.command_sets(nodes, cmdsets)
        dp = talgen.depth_of(nodes)
        depth_hist[dp] = depth_hist.get(dp, 0) + 1
        nontrivial = status in ("match", "cosmetic") and nodes is not None and talgen.uses(nodes, lambda e: e.has_tal())
        chk.count(("tpl", case["main"], json.dumps(case["ctx"], sort_keys=True)), nontrivial=nontrivial)
        if status == "match" and nontrivial:
            chk.sample({"kind": "expand", "template": tc.short(case["main"], 300), "context": case["ctx"],
                        "output": tc.short(r["out"], 300)}, limit=4)
        if status.startswith("known:") or status in ("mismatch", "exception", "compile_error"):
            found_here = True
            tag = status.split(":", 1)[1] if status.startswith("known:") else "expand-" + status
            what = {"duplicate-statement": "the compiler accepts a TAL statement given twice on one element (or tal:content together with "
                                           "tal:replace) and emits both commands: two tal:define push the locals twice and pop them once "
                                           "(the caller's context keeps a frame), two tal:repeat loop once",
                    "subtemplate-start": "a macro / slot defined on an element that also carries use-macro or define-slot starts inside the "
                                         "element (after its START_SCOPE): using it raises IndexError (pop from empty list)",
                    "unclosed-tal-element": "the compiler accepts a template whose last TAL element is never closed: the program has "
                                            "an unbalanced scope and an undefined end-tag symbol (expansion raises KeyError)",
                    "content-text-keyword": "tal:content/replace with the `text` keyword evaluates the path \"text <expr>\" "
                                            "(compileCmdContent tests attProps[1] instead of attProps[0])",
                    "nocall-contextvariable": "exists:/nocall: on a path that ends at a repeat variable raises KeyError('realValue') "
                                              "(simpleTALES.traversePath reads val.realValue)",
                    }.get(tag, "expansion differs from what TAL/TALES prescribe")
            rep = {"what": what, "case": tc.replay_doc(case, nodes, lib_nodes),
                   "expected": tc.short((detail or {}).get("expected"), 2000),
                   "context_leak": (detail or {}).get("context_leak"),
                   "actual": tc.short(r.get("out"), 2000), "exception": r.get("exc") or r.get("compile_exc")}
            fnd.add(tag, rep, len(case["main"]))      # one replay per tag: the smallest template
            found = True
        if r.get("bytes_equal") is False:
            found = True
            fnd.add("bytes-output", {"what": "expansion into a bytes file differs from expansion into a text file",
                                     "case": tc.replay_doc(case, nodes, lib_nodes), "detail": r.get("bytes_exc")},
                    len(case["main"]))

    # ---------------- oracle: program well-formedness stated directly on the real commandList ----------------
    progs = []
    prog_src = []
    notwf = 0
    for case, r in zip(cases, results):
        for which in ("main", "lib"):
            p = (r.get("prog") or {}).get(which)
            if p is None:
                continue
            if case.get("unclosed") or case.get("duplicate") or case.get("corpus") == "macro-extension":
                continue          # reported above under their own tags
            progs.append(p)
            prog_src.append((case, which))
            why = tc.py_wf(p)
            if why is not None:
                notwf += 1
                found = True
                fnd.add("program-not-wf", {"what": "compiled program is not structurally well formed: " + why,
                                           "template": case[which], "commandList": p["cmds"], "symbolTable": p["sym"],
                                           "macros": p["macros"]}, len(case[which]))

    # ---------------- oracle (a'): templates SERVED by the real TALFileHandler ----------------
    # request -> GopherRequestHandler -> HandlerMultiplexer -> TALFileHandler (canhandlerequest, getentry, write): the
    # response is the UTF-8 encoding of what the reference evaluator writes for the file under the handler's context
    # (selector, talbasename, allowpythonpath)
    SERVED_NAMES = ["selector", "talbasename", "allowpythonpath"]
    sopts = talgen.GenOpts(maxdepth=min(maxdepth, 4), structure=True, metal=False)
    served = []
    for i in range(150 if thorough else 40):
        nodes, _ = talgen.gen_template(rng, sopts, ctx_names=SERVED_NAMES)
        if i % 3 == 0:
            nodes.append(talgen.Elem("p", attrs=[("title", "\u00e9")], tal={"content": "string:${selector} Gr\u00fc\u00df \u2713"},
                                     children=[talgen.Text("x")]))
        served.append(nodes)
    stree = [{"path": "t%d.html.tal" % i, "data": talgen.serialize(nodes).encode("utf-8").decode("latin-1"), "mtime": 1700000000}
             for i, nodes in enumerate(served)]
    sres = impl_run([{"op": "tal_handler", "worlds": [{
        "tree": stree, "config": {"handlers.HandlerMultiplexer": {"handlers": "[tal.TALFileHandler, file.FileHandler, dir.DirHandler]"}},
        "selectors": ["/t%d.html.tal" % i for i in range(len(served))], "label": "served"}]}])[0]
    if not sres["ok"]:
        raise RuntimeError(sres["err"] + sres.get("tb", ""))
    served_stats = {"templates": len(served), "match": 0, "cosmetic": 0, "out_of_scope": 0, "mismatch": 0}
    for i, (nodes, h) in enumerate(zip(served, sres["res"])):
        sel = "/t%d.html.tal" % i
        scase = {"main": talgen.serialize(nodes), "lib": None, "options": None, "allow_python": 0,
                 "ctx": {"selector": ["s", sel], "talbasename": ["s", sel[:-4]], "allowpythonpath": ["n", 1]}}
        try:
            exp = tc.reference(scase, nodes, None)
        except talref.OutOfScope:
            served_stats["out_of_scope"] += 1
            continue
        try:
            got = h["out"].encode("latin-1").decode("utf-8")
        except UnicodeDecodeError:
            got = None
        chk.count(("served", scase["main"]), nontrivial=True)
        if h["exc"] is None and got == exp:
            served_stats["match"] += 1
        elif h["exc"] is None and got is not None and talref.canon(got) == talref.canon(exp):
            served_stats["cosmetic"] += 1
        else:
            served_stats["mismatch"] += 1
            found = True
            fnd.add("expand-served", {"what": "a .html.tal file served through TALFileHandler is not the UTF-8 encoding of the expansion "
                                              "TAL defines for it under the handler's context (selector, talbasename, allowpythonpath)",
                                      "file_utf8": scase["main"], "selector": sel, "expected": exp, "response_latin1": h["out"],
                                      "exception": h["exc"], "tree": talgen.tree_json(nodes)}, len(scase["main"]))
    if served_stats["match"] + served_stats["cosmetic"] == 0:
        found = True
        chk.violation({"what": "served-template leg did not serve anything (harness problem)", "stats": served_stats,
                       "first": sres["res"][:1]}, tag=None, no_input=True)
    fnd.flush()

    # ---------------- K: wf_program on the real programs, inside Coq ----------------
    mism, err, nsh = tc.k_wf("C17", "k_wf", progs)
    k_broken = bool(mism or err)
    k_detail = {"wf_mismatches": [{"template": prog_src[i][0][prog_src[i][1]]} for i in mism[:5]], "errors": [err]}

    # ---------------- K: the compiler model, fed with the recorded parser events ----------------
    citems, csrc = [], []
    for case, r in zip(cases, results):
        ev = (r.get("events") or {}).get("main")
        if ev is None:
            continue
        if any(e[0] in ("CR", "ER") for e in ev):
            continue
        citems.append((ev, (r.get("prog") or {}).get("main")))
        csrc.append(case["main"])
    mal = tc.run_cases([{"id": i, "main": src, "lib": None, "ctx": {}, "options": None, "want": ["prog", "events"]}
                        for i, src in enumerate(tc.MALFORMED)])
    for src, r in zip(tc.MALFORMED, mal):
        citems.append((r["events"]["main"], (r.get("prog") or {}).get("main")))
        csrc.append(src)
    mism_c, err_c, nsh_c = tc.k_compile("C17", "k_compile", citems, variant)
    if mism_c or err_c:
        k_broken = True
        k_detail["compile_mismatches"] = [csrc[i] for i in mism_c[:5]]
        k_detail["errors"].append(err_c)

    # ---------------- K: abstract VM follows the real interpreter's control flow ----------------
    titems, tsrc = [], []
    skipped_trace = 0
    for case, r in zip(cases, results):
        tr = r.get("trace")
        if not tr or "entries" not in tr:
            continue
        ents = tr["entries"]
        if any(e is None for e in ents) or any(isinstance(e[1][-1], str) and e[1][-1] == "foreign" for e in ents) \
                or not tr["same_output"]:
            skipped_trace += 1
            continue
        titems.append((r["prog"]["main"], tr))
        tsrc.append(case)
    mism_t, err_t, nsh_t = tc.k_trace("C17", "k_trace", titems)
    if mism_t or err_t:
        k_broken = True
        k_detail["trace_mismatches"] = [{"template": tsrc[i]["main"], "context": tsrc[i]["ctx"]} for i in mism_t[:5]]
        k_detail["errors"].append(err_t)

    # ---------------- K: Context.evaluate (dispatch, alternation, not/exists/nocall/string) ----------------
    ecases = tc.eval_cases(rng, 120 if thorough else 30, 40)
    mism_e, err_e, nsh_e, esrc, eskipped = tc.k_eval("C17", "k_eval", ecases)
    if mism_e or err_e:
        k_broken = True
        k_detail["evaluate_mismatches"] = [esrc[i] for i in mism_e[:5]]
        k_detail["errors"].append(err_e)
    for sitem in esrc[::53]:
        chk.count(("eval", sitem["expression"], sitem["allow_python"]))
    chk.coverage["evaluations"] += len(esrc)

    # ---------------- K: tree-walking specification and data VM vs the real expansion ----------------
    mism_s, err_s, nsh_s, ssrc, sskipped = tc.k_spec("C17", "k_spec", rng, 1500 if thorough else 200, min(maxdepth, 5))
    if mism_s or err_s:
        k_broken = True
        k_detail["spec_mismatches"] = [ssrc[i] for i in mism_s[:5]]
        k_detail["errors"].append(err_s)
    chk.coverage["evaluations"] += len(ssrc)
    for x in ssrc[::17]:
        chk.count(("spec", x["template"]))
    mism_f, err_f, nsh_f, fsrc, fskipped = tc.k_spec_full("C17", "k_spec_full", rng, 1000 if thorough else 150, min(maxdepth, 5))
    if mism_f or err_f:
        k_broken = True
        k_detail["spec_full_mismatches"] = [fsrc[i] for i in mism_f[:5]]
        k_detail["errors"].append(err_f)
    kdoc = dict(tc.K_DOC)
    if kdoc.get("mismatches") or kdoc.get("error"):
        k_broken = True
        k_detail["document_tree_mismatches"] = [fsrc[i] for i in kdoc["mismatches"][:5]]
        k_detail["errors"].append(kdoc.get("error"))
    chk.coverage["evaluations"] += len(fsrc)
    for x in fsrc[::13]:
        chk.count(("specfull", x["template"]))

    # ---------------- K: RepeatVariable arithmetic, exhaustive for positions 0..5000 ----------------
    pairs = []
    for pos in range(0, 5001):
        pairs.append([pos, pos + 1])
        if pos % 7 == 0:
            pairs.append([pos, pos + 3])
    pairs += [[0, 0], [0, 1], [5, 5], [4100, 4101]]
    rres = impl_run([{"op": "tal_repeatvar", "pairs": pairs}])[0]
    if not rres["ok"]:
        raise RuntimeError(rres["err"] + rres.get("tb", ""))
    rcases = []
    for (pos, ln), v in zip(pairs, rres["res"]):
        rcases.append("((%d, %d), (%d, (%d, (%d, (%d, (%d, (%d, (%d, (%s, (%s, (%s, %s)))))))))))" % (
            pos, ln, v[0], v[1], v[2], v[3], v[4], v[5], v[6], coq_str(v[7]), coq_str(v[8]), coq_str(v[9]), coq_str(v[10])))
    mism_r, err_r, nsh_r = coq_eval("C17", "k_rv", tc.K_IMPORTS, "chk_rv", rcases, shard=700)
    for (pos, ln) in pairs[:: 97]:
        chk.count(("rv", pos, ln))
    chk.coverage["evaluations"] += len(pairs)
    # direct statement on the implementation (independent of the model): Zope's iterator laws
    rv_bad = []
    for (pos, ln), v in zip(pairs, rres["res"]):
        ok = (v[0] == pos and v[1] == pos + 1 and v[2] == (1 if pos % 2 == 0 else 0) and v[2] + v[3] == 1 and
              v[4] == (1 if pos == 0 else 0) and v[5] == (1 if pos == ln - 1 else 0) and v[6] == ln and
              v[7] == talref.letter(pos) and v[8] == talref.letter(pos).upper() and
              (pos > 3999 or (v[9] == talref.roman(pos + 1) and v[10] == v[9].upper())))
        if not ok:
            rv_bad.append({"position": pos, "length": ln, "methods": v})
    if rv_bad:
        found = True
        chk.violation({"what": "RepeatVariable arithmetic deviates from the repeat-variable laws", "first": rv_bad[:5]},
                      tag="repeat-variable")
    if mism_r or err_r:
        k_broken = True
        k_detail["rv_mismatches"] = [pairs[i] for i in mism_r[:10]]
        k_detail["errors"].append(err_r)

    cov["correspondence"] = {
        "programs_checked_wf_in_coq": len(progs), "wf_mismatches": len(mism), "wf_shards": nsh,
        "compile_model_cases": len(citems), "compile_mismatches": len(mism_c), "compile_shards": nsh_c,
        "compile_rejections_agreed": sum(1 for _, p in citems if p is None),
        "compiler_variant_detected": {"text_keyword_fixed": variant[0], "cdata_passthrough_fixed": variant[1],
                                      "unclosed_tal_rejected": variant[2], "duplicate_statements_rejected": variant[3],
                                      "subtemplates_start_at_element": variant[4]},
        "vm_traces_followed_in_coq": len(titems), "trace_mismatches": len(mism_t), "trace_shards": nsh_t,
        "traces_skipped": skipped_trace,
        "trace_steps": sum(len(t["entries"]) for _, t in titems),
        "evaluate_expressions": len(esrc), "evaluate_mismatches": len(mism_e), "evaluate_raised_skipped": eskipped,
        "evaluate_not_found_results": sum(1 for x in esrc if x["real"]["res"] is None),
        "evaluate_with_python_evaluations": sum(1 for x in esrc if x["real"]["evals"] > 0),
        "spec_and_data_vm_cases": len(ssrc), "spec_mismatches": len(mism_s), "spec_skipped": sskipped,
        "spec_full_cases": len(fsrc), "spec_full_mismatches": len(mism_f), "spec_full_skipped": fskipped,
        "document_tree_cases": kdoc.get("cases", 0), "document_tree_mismatches": len(kdoc.get("mismatches") or []),
        "spec_full_with_repeat": sum(1 for x in fsrc if "tal:repeat" in x["template"]),
        "spec_full_with_define": sum(1 for x in fsrc if "tal:define" in x["template"]),
        "repeat_variable_cases": len(pairs), "repeat_variable_mismatches": len(mism_r),
        "errors": [e for e in (err, err_t, err_r, err_c, err_e, err_s, err_f) if e],
    }
    cov["oracle"] = {"templates": len(cases), "status": stats, "served_through_TALFileHandler": served_stats, "programs_not_wf": notwf,
                     "depth_histogram": {str(k): v for k, v in sorted(depth_hist.items())},
                     "distinct_command_sets_per_element": len(cmdsets),
                     "command_set_examples": sorted(cmdsets.items(), key=lambda kv: -kv[1])[:12],
                     "grammar_exclusions": tc.GRAMMAR_EXCLUSIONS}
    cov["rule"] = ("templates from a TAL grammar (nesting depth <= %d; every subset of define/condition/repeat/content|replace/"
                   "attributes/omit-tag per element in shuffled attribute order; local/global defines; multi-part defines whose "
                   "later definitions read variables bound by earlier ones of the same statement (fresh names, names shadowing "
                   "context variables / enclosing defines / loop variables, local-global mixes: random chains + an exhaustive "
                   "small corpus); nested repeats; "
                   "structure/text keywords; METAL define-macro/use-macro/define-slot/fill-slot incl. a second template as "
                   "macro library) x contexts (strings with markup metacharacters, numbers, empty/non-empty sequences, "
                   "mappings, None, callables); real compileHTMLTemplate + expand vs an independent tree-walking reference "
                   "evaluator; real commandList/symbolTable/macros evaluated by wf_program inside Coq; the abstract VM "
                   "replayed in Coq along the real interpreter's recorded control flow; RepeatVariable exhaustive for "
                   "positions 0..5000; non-trivial = the template has TAL/METAL statements and the outputs agree" % maxdepth)
    if k_broken:
        chk.correspondence_broken("K17 (wf_program / compile model / VM trace / Context.evaluate / RepeatVariable)", k_detail, found)
    chk.finish_proofs(found)
    chk.assumptions += [
        "html.parser (event stream) and Python's eval are outside the model; path traversal into arbitrary Python objects is "
        "covered by the reference evaluator only for the value universe str/int/list/dict/None/callable",
        "the abstract VM (Model/TALVM.v) abstracts data: every data-dependent decision is a function of an arbitrary data state; "
        "its control flow is tied to the real interpreter by the trace correspondence (single-template programs)",
        "attribute order in start tags is compared exactly first and modulo order / quoting (`cosmetic`) second",
        "grammar exclusions: " + "; ".join(tc.GRAMMAR_EXCLUSIONS),
    ]
    return chk.finish("proof")


def replay(path):
    with open(path) as f:
        rep = json.load(f)
    if "case" not in rep:
        print(json.dumps(rep, indent=1)[:4000])
        return 1
    case, nodes, lib_nodes = tc.case_from_replay(rep["case"])
    r = tc.run_cases([case])[0]
    status, detail = classify(case, nodes, lib_nodes, r) if nodes is not None else ("no-tree", None)
    print("template:", case["main"])
    print("context :", json.dumps(case["ctx"]))
    print("actual  :", repr(r.get("out")), r.get("exc") or r.get("compile_exc") or "")
    print("expected:", repr((detail or {}).get("expected")))
    print("status  :", status)
    return 0 if status in ("match", "cosmetic", "out_of_scope") else 1
