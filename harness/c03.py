"""C03 — every request is answered with one well-formed response, whatever came before."""
import re

import concurrent.futures
import gzip

from common import Check, impl_run, impl_run_parallel, NPROC
import gen
import trees
import validators as V
import c03gen
from k03 import run_k03, validate_in_coq   # [agentH] K03: Model/Respond.v + Model/Wellformed.v against the real code

CLS = {"GopherProtocol": "gopher", "SecureGopherProtocol": "sgopher", "GopherPlusProtocol": "gopherplus",
       "SecureGopherPlusProtocol": "sgopherplus", "HTTPProtocol": "http", "HTTPSProtocol": "https",
       "WAPProtocol": "wap", "GeminiProtocol": "gemini", "SpartanProtocol": "spartan"}

FULL_HANDLERS = ("[url.HTMLURLHandler, gophermap.BuckGophermapHandler, mbox.MaildirFolderHandler, "
                 "mbox.MaildirMessageHandler, UMN.UMNDirHandler, tal.TALFileHandler, html.HTMLFileTitleHandler, "
                 "mbox.MBoxMessageHandler, mbox.MBoxFolderHandler, pyg.PYGHandler, "
                 "ZIP.ZIPHandler, file.FileHandler, url.URLTypeRewriter]")
FULL_CONFIG = {"handlers.HandlerMultiplexer": {"handlers": FULL_HANDLERS}, "handlers.ZIP.ZIPHandler": {"enabled": "true"}}


def impl_run_isolated(jobs):
    """Every job in a driver process of its own (order preserved): state that the implementation keeps
    in its process (module or class level) cannot travel from one job to another."""
    if not jobs:
        return []
    with concurrent.futures.ThreadPoolExecutor(max_workers=NPROC) as ex:
        outs = list(ex.map(lambda j: impl_run([j])[0], jobs))
    return outs


# ---- HTTP requests with varied header blocks (they select WAP, and they are state that must die with the request) ----
HEADER_BLOCKS = [
    b"Accept: text/html, text/vnd.wap.wml\r\nX-Wap-Profile: \"http://wap.example/p.xml\"\r\n\r\n",
    b"accept: */*, text/vnd.wap.wml\r\nx-up-devcap-max-pdu: 1024\r\n\r\n",
    b"ACCEPT: text/plain text/vnd.wap.wml;q=0.9\r\nX-WAP-PROFILE: 1\r\nUser-Agent: Nokia7110/1.0\r\n\r\n",
    b"Accept: image/gif, text/vnd-wap+wml\r\nX-Up-Devcap-Max-Pdu:1\r\n\r\n",
    b"Accept: text/html, text/vnd.wap.wml\r\n\r\n",                       # lists WML, no device field
    b"X-Wap-Profile: 1\r\nX-Up-Devcap-Max-Pdu: 2\r\n\r\n",               # device fields, no Accept
    b"Accept: text/html\r\nX-Wap-Profile: 1\r\n\r\n",                    # Accept without WML
    b"Accept:text/vnd.wap.wml\r\nX-Wap-Profile: 1\r\n\r\n",              # WML not preceded by ", " or " "
    b"Accept: text/plain\r\nHost: gopher.example\r\nUser-Agent: curl/8\r\nConnection: close\r\n\r\n",
    b"Accept: a\r\nAccept: b, text/vnd.wap.wml\r\nX-Wap-Profile: 1\r\nX-Wap-Profile: 2\r\n\r\n",   # duplicates
    b"Accept: b, text/vnd.wap.wml\r\nAccept: text/html\r\nX-Wap-Profile: 1\r\n\r\n",             # the later duplicate wins
    b"no colon in this line\r\n: empty name\r\n\xff\xfe: \x00\x01\r\nAccept\r\n\r\n",           # garbage
    b" Accept: , text/vnd.wap.wml\r\n\tX-Wap-Profile: 1\r\n\r\n",         # leading white space (continuation lines)
    b"Accept : , text/vnd.wap.wml\r\nX-Wap-Profile : 1\r\n\r\n",          # space before the colon
    b"Accept: , text/vnd.wap.wml\nX-Wap-Profile: 1\n\n",                   # bare LF line ends
    b"Accept: , text/vnd.wap.wml\r\nX-Wap-Profile: 1",                     # block ends at EOF, no blank line
    b"\r\nAccept: , text/vnd.wap.wml\r\nX-Wap-Profile: 1\r\n\r\n",         # fields after the blank line are body
    b"Host: h\r\n" * 400 + b"Accept: x, text/vnd.wap.wml\r\nX-Up-Devcap-Max-Pdu: 9\r\n\r\n",   # long block
    b"Accept: " + b"text/html, " * 3000 + b"text/vnd.wap.wml\r\nX-Wap-Profile: 1\r\n\r\n",       # one very long field
    b"Cookie: " + b"x" * 30000 + b"\r\n\r\n",
    b"Accept: text/vnd.wap.wml, text/vnd.wap.wml\r\nX-Wap-Profile:\r\n\r\n",
    b"Accept-Language: en\r\nAccept-Charset: , text/vnd.wap.wml\r\nX-Wap-Profile: 1\r\n\r\n",   # WML in another field
    b"",                                                                # nothing at all after the request line
    b"\r\n",
]
HEADER_TARGETS = [b"GET /", b"GET /a.txt", b"HEAD /dir1", b"GET /nonexistent", b"GET /wap/dir1", b"GET /b.html?searchrequest=x"]
# probes of the history leg: requests that carry no header field of their own, in every syntax
BARE_PROBES = [(b"GET / HTTP/1.0\r\n\r\n", False), (b"GET /a.txt HTTP/1.0\r\n\r\n", False), (b"GET /nonexistent HTTP/1.0\r\n\r\n", False),
               (b"HEAD /dir1 HTTP/1.0\r\n\r\n", False), (b"GET /dir1 HTTP/1.0\r\n", False), (b"GET /a.txt HTTP/1.0", False),
               (b"GET / HTTP/1.0\r\n\r\n", True), (b"GET /a.txt HTTP/1.0\r\nHost: gopher.example\r\n\r\n", False),
               (b"GET /wap/ HTTP/1.0\r\n\r\n", False), (b"/\r\n", False), (b"/a.txt\t+\r\n", False), (b"/dir1\t$\r\n", True),
               (b"gemini://gopher.example/dir1\r\n", True), (b"gopher.example /a.txt 0\r\n", False)]


def header_requests(rng):
    """(bytes, tls) HTTP requests with every header block; each block on a few targets"""
    out = []
    for hb in HEADER_BLOCKS:
        tg = [HEADER_TARGETS[0]] + rng.sample(HEADER_TARGETS[1:], 2)
        for t in tg:
            out.append((t + b" HTTP/1.0\r\n" + hb, False))
        out.append((rng.choice(HEADER_TARGETS) + b" HTTP/1.0\r\n" + hb, True))
    return out


# ---- long pathological-repetition lines: a long run of one unit followed by something else ----
RUN_UNITS = [b"/", b".", b"%", b"\t", b" ", b"?", b"|", b"a", b"../", b"%2F", b"%2f%2E", b"/./", b"//a", b"\\", b"&=", b"+", b"#",
             b"\r", b"\x00", b"\xff", b"\xc3", b"'", b"<", b"[", b":"]
RUN_SIZES = (8192, 32768)


def long_run_requests(rng, tier):
    """-> list of (bytes, tls, key, size): key identifies (syntax, shape) so that the two sizes of one shape can be compared.
    Shapes: run+tail, head+run+tail, nested/alternating runs.  10-60 kB lines in every protocol syntax; oracle only —
    these never go into a Coq literal."""
    out = []
    units = RUN_UNITS if tier != "quick" else RUN_UNITS[:12] + rng.sample(RUN_UNITS[12:], 4)
    for u in units:
        for shape in ("run-x", "docs-run-x", "alt"):
            if tier == "quick" and shape == "alt" and u not in (b"/", b".", b"%", b"?", b"|"):
                continue
            for size in RUN_SIZES:
                n = size // len(u)
                if shape == "run-x":
                    sel = b"/" + u * n + b"x"
                elif shape == "docs-run-x":
                    sel = b"/dir1" + u * n + b"x/" + u * 3
                else:
                    half = n // 2
                    sel = b"/" + (u * 7 + b"b") * (half // 7) + u * half + b"!"
                for proto in gen.PROTOCOLS:
                    tls = gen.TLS[proto]
                    if proto in ("gopher", "sgopher"):
                        data = sel + b"\r\n"
                    elif proto in ("gopherplus", "sgopherplus"):
                        data = sel.replace(b"\t", b" ") + b"\t+\r\n" if u != b"\t" else sel + b"\t+\r\n"
                    elif proto in ("http", "https", "wap"):
                        data = b"GET " + (b"/wap" if proto == "wap" else b"") + sel + b" HTTP/1.0\r\n\r\n"
                    elif proto == "gemini":
                        data = b"gemini://gopher.example" + sel + b"\r\n"
                    else:
                        data = b"gopher.example " + sel + b" 0\r\n"
                    out.append((data, tls, (proto, shape, u), size))
    # runs in the places other than the selector: search field, query string, header block, Spartan body length
    for size in RUN_SIZES:
        out.append((b"/a.txt\t" + b"q" * size + b"!\r\n", False, ("gopher", "search-run", b"q"), size))
        out.append((b"/a.txt" + b"\t" * size + b"+\r\n", False, ("gopher", "tab-fields", b"\t"), size))
        out.append((b"GET /a.txt?" + b"&" * size + b"x HTTP/1.0\r\n\r\n", False, ("http", "query-amp", b"&"), size))
        out.append((b"GET /a.txt?searchrequest=" + b"%" * size + b"x HTTP/1.0\r\n\r\n", False, ("http", "query-pct", b"%"), size))
        out.append((b"GET /a.txt?" + b"a=b&" * (size // 4) + b" HTTP/1.0\r\n\r\n", False, ("http", "query-pairs", b"a=b&"), size))
        out.append((b"GET /a.txt HTTP/1.0\r\n" + b"X: y\r\n" * (size // 6) + b"\r\n", False, ("http", "header-lines", b"X: y"), size))
        out.append((b"GET /a.txt HTTP/1.0\r\nAccept:" + b" ," * (size // 2) + b"x\r\nX-Wap-Profile: 1\r\n\r\n", False, ("http", "accept-run", b" ,"), size))
        out.append((b"gemini://" + b"h" * size + b"/a.txt\r\n", True, ("gemini", "host-run", b"h"), size))
        out.append((b"gemini://h/a.txt?" + b"%" * size + b"z\r\n", True, ("gemini", "query-pct", b"%"), size))
        out.append((b"gemini://h/GEMINI-QUERY/" + b"/" * size + b"x?q\r\n", True, ("gemini", "redirect-run", b"/"), size))
        out.append((b"h /a.txt " + b"0" * size + b"7\r\nabcdefg", False, ("spartan", "length-zeros", b"0"), size))
        out.append((b"/mail.mbox|/MBOX-MESSAGE/" + b"9" * size + b"\r\n", False, ("gopher", "message-digits", b"9"), size))
        out.append((b"/URL:" + b"x" * size + b":/\r\n", False, ("gopher", "url-run", b"x"), size))
    return out


def malformed_stream(rng):
    """(bytes, tls) pairs: deliberately broken or borderline requests in every syntax"""
    G = [b"", b"\r\n", b"\n", b"\t\t\t\r\n", b"/" + b"A" * 10000 + b"\r\n", bytes(range(1, 9)) + b"\r\n",
         b"/mail.mbox|/MBOX-MESSAGE/9999\r\n", b"/mail.mbox|/MBOX-MESSAGE/0\r\n", b"/mail.mbox|/MBOX-MESSAGE/x\r\n",
         b"/mail.mbox|/MBOX-MESSAGE/1x\r\n", b"/mail.mbox|/MBOX-MESSAGE/-1\r\n", b"/mail.mbox|\r\n", b"/mail.mbox?\r\n",
         b"/md|/MAILDIR-MESSAGE/99\r\n", b"/md|/MAILDIR-MESSAGE/3\r\n", b"/md|/MBOX-MESSAGE/1\r\n", b"/a.txt|/MBOX-MESSAGE/1\r\n",
         b"/dir1|/MAILDIR-MESSAGE/1\r\n", b"/a.txt|x\r\n", b"/a.txt?x\r\n", b"/dir1?x\r\n", b"/URL:\r\n", b"URL:http://\r\n",
         b"/URL:http://a\"b\r\n", b"URL:x://y\r\n", b"/1/\r\n", b"/1//\r\n", b"/1/1/1/a.txt\r\n", b"/1/a.txt\r\n", b"/x/dir1\r\n",
         b"/a.txt/\r\n", b"/a.txt/b\r\n", b"/dir1/c.txt/../c.txt\r\n", b"/\xff\xfe\r\n", b"/caf\xc3\xa9\r\n", b"/\xc2\x85\r\n",
         b"/a.txt\r", b"/a.txt", b"/a\rb\r\n", b"/maps/gophermap\r\n", b"/umn/.Links\r\n", b"/umn/.cap/three.txt\r\n",
         b"/dir1/.abstract\r\n", b"/.cache.pygopherd.dir\r\n", b"/md/new/1.msg\r\n", b"/emptydir\r\n", b"/empty.txt\r\n",
         b"/mail.mbox|/MBOX-MESSAGE/2\r\n", b"/mail.mbox|/MBOX-MESSAGE/3\r\n", b"/mail.mbox|/MBOX-MESSAGE/18446744073709551616\r\n",
         b"/mail.mbox|/MBOX-MESSAGE/" + b"7" * 5000 + b"\r\n", b"/md|/MAILDIR-MESSAGE/" + b"1" * 4301 + b"\r\n",
         b"/nope|/MBOX-MESSAGE/1\r\n", b"/nope|/MAILDIR-MESSAGE/1\r\n", b"/dir1/nope.mbox|/MBOX-MESSAGE/2\r\n", b"/dir1|/MBOX-MESSAGE/1\r\n",
         b"/a.txt|/MAILDIR-MESSAGE/1\r\n", b"/nope?/MBOX-MESSAGE/1\r\n"]
    out = [(g, False) for g in G] + [(g, True) for g in G[::3]]
    GP = [b"\t+\r\n", b"\t!\r\n", b"\t$\r\n", b"/a.txt\t+x\r\n", b"/a.txt\t$\r\n", b"/dir1\t!\r\n", b"/nonexist\t!\r\n",
          b"/nonexist\t$\r\n", b"/nonexist\t+\r\n", b"/mail.mbox|/MBOX-MESSAGE/9999\t+\r\n", b"/mail.mbox|/MBOX-MESSAGE/9999\t!\r\n",
          b"/a.txt\tq\t+\r\n", b"/a.txt\t\t!\r\n", b"/mail.mbox\t$\r\n", b"/md\t$\r\n", b"/maps\t$\r\n", b"/umn\t$\r\n", b"/\t$\r\n",
          b"/empty.txt\t+\r\n", b"/emptydir\t+\r\n", b"/b.html\t!\r\n", b"/a.txt\t!\r\n", b"/mail.mbox|/MBOX-MESSAGE/1\t!\r\n",
          b"/URL:http://x/\t!\r\n", b"/URL:http://x/\t+\r\n", b"/a.txt\t+application/x\r\n", b"/x\x00y\t+\r\n",
          # attribute selection (the whole space of it: content_legs below)
          b"/dir1\t$+ABSTRACT\r\n", b"/dir1\t!+VIEWS+ABSTRACT\r\n", b"/a.txt\t!+ABSTRACT\r\n", b"/\t$+ABSTRACT+VIEWS\r\n", b"/dir1\t$ +ABSTRACT\r\n",
          b"/dir1\t$+NOSUCH\r\n", b"/umn\t$+ABSTRACT\r\n", b"/mail.mbox\t$+INFO\r\n"]
    out += [(g, False) for g in GP] + [(g, True) for g in GP[::2]]
    H = [b"GET  HTTP/1.0\r\n\r\n", b"GET /%zz HTTP/1.0\r\n\r\n", b"GET /a.txt?%zz=1 HTTP/1.0\r\n\r\n", b"GET /a.txt?searchrequest HTTP/1.0\r\n\r\n",
         b"GET /?=&= HTTP/1.0\r\n\r\n", b"HEAD /nonexistent HTTP/1.0\r\n\r\n", b"GET /PYGOPHERD-HTTPPROTO-ICONS/nope.gif HTTP/1.0\r\n\r\n",
         b"GET /PYGOPHERD-HTTPPROTO-ICONS/ HTTP/1.0\r\n\r\n", b"GET /PYGOPHERD-HTTPPROTO-ICONS/text.gif HTTP/1.0\r\n\r\n",
         b"HEAD /PYGOPHERD-HTTPPROTO-ICONS/text.gif HTTP/1.0\r\n\r\n", b"GET /a.txt HTTP/1.0\r\nHost: x", b"GET /a.txt HTTP/1.0\r\n",
         b"GET /a.txt HTTP/1.0", b"GET /a.txt?a?b?c HTTP/1.0\r\n\r\n", b"GET ? HTTP/1.0\r\n\r\n", b"GET a.txt HTTP/1.0\r\n\r\n",
         b"GET /mail.mbox%7C/MBOX-MESSAGE/9999 HTTP/1.0\r\n\r\n", b"GET /nope%7C/MBOX-MESSAGE/1 HTTP/1.0\r\n\r\n", b"GET /mail.mbox|/MBOX-MESSAGE/1 HTTP/1.0\r\n\r\n",
         b"GET /wap HTTP/1.0\r\n\r\n", b"GET /wap/nonexistent HTTP/1.0\r\n\r\n", b"GET /wap/%00 HTTP/1.0\r\n\r\n",
         b"GET /wap/mail.mbox%7C/MBOX-MESSAGE/77 HTTP/1.0\r\n\r\n", b"HEAD /wap/a.txt HTTP/1.0\r\n\r\n", b"GET /a%0d%0ab HTTP/1.0\r\n\r\n",
         b"GET /%ff%fe HTTP/1.0\r\n\r\n", b"GET /a.txt?searchrequest=%ff HTTP/1.0\r\n\r\n", b"GET /dir1/ HTTP/1.0\r\nAccept: text/vnd.wap.wml\r\nx-wap-profile: 1\r\n\r\n",
         b"GET /nonexistent HTTP/1.0\r\nAccept: , text/vnd.wap.wml\r\nx-up-devcap-max-pdu: 1\r\n\r\n", b"GET /URL:http://x/%22 HTTP/1.0\r\n\r\n",
         b"GET /empty.txt HTTP/1.0\r\n\r\n", b"GET /wap/empty.txt HTTP/1.0\r\n\r\n"]
    out += [(h, False) for h in H] + [(h, True) for h in H[::2]]
    GM = [b"gemini://\r\n", b"gemini://h\r\n", b"gemini://[::1/x\r\n", b"gemini://h]/x\r\n", b"gemini://h/%zz\r\n",
          b"gemini://h/a%0D%0A20 text/plain%0D%0Ahi\r\n", b"gemini://h/x%0Ay\r\n", b"gemini://h/GEMINI-QUERY\r\n", b"gemini://h/GEMINI-QUERY?x\r\n",
          b"gemini://h/GEMINI-QUERY/a.txt?%0D%0A20 x\r\n", b"gemini://h:port/x\r\n", b"gemini://h/a.txt?%ff\r\n", b"gemini://h/a.txt#frag\r\n",
          b"gemini://h/mail.mbox%7C/MBOX-MESSAGE/9999\r\n", b"gemini://h/nope%7C/MAILDIR-MESSAGE/1\r\n", b"gemini://h/%00\r\n", b"gemini://h/\xff\r\n", b"gemini://h/a.txt", b"gemini://h//\r\n",
          b"gemini://u:p@h/a.txt\r\n", b"gemini://h/empty.txt\r\n", b"gemini://h/emptydir\r\n", b"gemini://h/dir1/?q\r\n", b"gemini://h/;p?q#f\r\n"]
    out += [(g, True) for g in GM]
    SP = [b"h / 0\r\n", b"h /x%0D%0A2 text/plain%0D%0A 0\r\n", b"h /a.txt 5\r\nab", b"h /a.txt 99999999999999999999\r\n", b"h /a.txt 0007\r\nabcdefgh",
          b"h  / 0\r\n", b"h /%zz 0\r\n", b"h /%00 0\r\n", b"h /mail.mbox%7C/MBOX-MESSAGE/9999 0\r\n", b"h /nonexistent 3\r\nabc", b"h /empty.txt 0\r\n",
          b"h /emptydir 0\r\n", b"h a.txt 0\r\n", b"h /a.txt 0", b"h /x%0Ay 0\r\n",
          "h / \u00b2\r\n".encode(), "h /a.txt \u2460\r\n".encode(), "h /a.txt \u0663\r\n".encode(), "h /a.txt 1\u00b2\r\n".encode(),
          "h\u00e9 /a.txt 0\r\n".encode(), b"h /a.txt " + b"9" * 5000 + b"\r\n", b"h /a.txt " + b"0" * 5000 + b"\r\n", b"h /a.txt +1\r\n", b"h /a.txt 1_0\r\n", b"h /a.txt 0x10\r\n", b"h /a.txt  1\r\n"]
    out += [(s, False) for s in SP]
    return out


def expected_kind(tree_index, sel):
    """What the site should answer for a plain selector, from the tree alone (None = no precise expectation)."""
    s = sel.rstrip("/") if sel != "/" else ""
    if s == "":
        return "dir"
    ent = tree_index.get(s)
    if ent is not None:
        return ent
    return None


def content_legs(chk, tier, judge, stats):
    """Two legs whose inputs the request stream above never contains (generators and readers in c03gen.py):
    (a) Gopher+ attribute selection on every combination of own / children's attribute sidecars;
    (b) mailboxes whose header fields are hostile to a parser, listed and fetched in every protocol.
    Every reply goes through the common per-reply oracle `judge`; on top of it, from the property text ("exactly one
    COMPLETE response"): a success status is followed by the body it announces -- the records of a listing do not depend
    on which attribute blocks were asked for, a mailbox listing links every message, a message reply carries the message."""
    rng = chk.rng
    found = False
    per_key = {}

    def room(key, limit=2):
        per_key[key] = per_key.get(key, 0) + 1
        return per_key[key] <= limit

    def proto_of(o):
        m = re.search(r"\[(\w+)/", " ".join(o["log"]))
        return CLS.get(m.group(1)) if m else None

    def report(what, data, tls, o, tag, tree, extra):
        rep = {"what": what, "request_latin1": gen.lat(data) if len(data) <= 4096 else gen.lat(data[:300]) + "...", "tls": tls,
               "detected_protocol": proto_of(o), "handlers": "default", "response_latin1": o["out"][:600], "log": [l[:400] for l in o["log"][-4:]],
               "tree": tree}
        rep.update(extra)
        chk.violation(rep, tag=tag)

    # ---- (a) attribute selection ----
    atree, adirs, aitems = c03gen.attr_tree(rng)
    areqs = c03gen.attr_requests(rng, tier, adirs, aitems)
    # ---- (b) hostile mailboxes ----
    mtree, boxes = c03gen.mail_tree(rng, tier)
    mreqs = c03gen.mail_requests(rng, tier, boxes)
    # one world per slice of the requests (the trees are small; the requests of one mailbox stay together)
    nsl = 6
    ajobs = [{"op": "world", "tree": atree, "config": trees.SITE_CONFIG if k % 2 == 0 else dict(trees.SITE_CONFIG, **FULL_CONFIG),
              "requests": [{"data": gen.lat(d), "tls": tl} for d, tl, _ in areqs[k::nsl]]} for k in range(nsl)]
    by_box = {}
    for i, (d, tl, meta) in enumerate(mreqs):
        by_box.setdefault(meta["box"]["sel"], []).append(i)
    groups = list(by_box.values())
    mparts = [[i for g in groups[k::nsl] for i in g] for k in range(nsl)]
    mjobs = [{"op": "world", "tree": mtree, "config": trees.SITE_CONFIG, "requests": [{"data": gen.lat(mreqs[i][0]), "tls": mreqs[i][1]} for i in part]}
             for part in mparts]
    res = impl_run_parallel(ajobs + mjobs, chunks=len(ajobs) + len(mjobs))
    for r in res:
        if not r["ok"]:
            raise RuntimeError(r["err"] + "\n" + r.get("tb", ""))
    aout = [None] * len(areqs)
    for k in range(nsl):
        for i, o in zip(range(k, len(areqs), nsl), res[k]["res"]["results"]):
            aout[i] = o
    mout = [None] * len(mreqs)
    for part, r in zip(mparts, res[nsl:]):
        for i, o in zip(part, r["res"]["results"]):
            mout[i] = o

    # (a) judging
    stats["attr_selection_requests"] = len(areqs)
    stats["attr_selection_answered_as_gopherplus"] = 0
    base = {}
    for i, (d, tl, meta) in enumerate(areqs):
        if meta["suffix"] == "" and not tl:
            base[(meta["sel"], meta["form"], i % 2)] = aout[i]

    def records(o):
        """the +INFO records of a successful Gopher+ attribute reply (None: not such a reply)"""
        if proto_of(o) not in ("gopherplus", "sgopherplus"):
            return None
        try:
            v = V.validate("gopherplus", o["out"].encode("latin-1"))
        except V.Malformed:
            return None
        if v["kind"] != "success":
            return None
        return [r["info"] for r in c03gen.parse_attr_listing(v["body"])]

    for i, ((d, tl, meta), o) in enumerate(zip(areqs, aout)):
        cfgname = "default" if i % nsl % 2 == 0 else "full"
        key = ("attr", meta["form"])
        ex = {"tree": atree, "attribute_selection": meta, "handlers": cfgname}
        chk.count(("attr", meta["sel"], meta["form"], meta["suffix"][:40], tl, cfgname), nontrivial=True)
        if per_key.get(key, 0) >= 2:
            continue
        if judge(d, tl, "attr", o, cfgname, extra=ex, sub="attr-selection"):
            found = True
            room(key)
            continue
        if meta["form"] == "$" and not meta["listing"]:
            continue        # '$' on a single object is answered with the object itself
        try:
            recs = records(o)
        except V.Malformed as e:
            found = True
            room(key)
            report("the Gopher+ success status is not followed by a well-formed attribute listing: %s" % e, d, tl, o,
                   "malformed-reply:attr-selection:" + meta["form"], atree, ex)
            continue
        if recs is None:
            continue
        stats["attr_selection_answered_as_gopherplus"] += 1
        # the same object asked without a selection, under either handler list (the records do not depend on it)
        for b in (base.get((meta["sel"], meta["form"], 0)), base.get((meta["sel"], meta["form"], 1))):
            if b is None:
                continue
            try:
                brecs = records(b)
            except V.Malformed:
                brecs = None
            if brecs is not None and brecs != recs:
                found = True
                room(key)
                missing = [r for r in brecs if r not in recs]
                report("a Gopher+ reply that selects attribute blocks announces success but does not carry the records of the object: "
                       "%d record(s) without a selection, %d with it; missing e.g. %r" % (len(brecs), len(recs), missing[:2]), d, tl, o,
                       "incomplete-reply:attr-selection:" + meta["form"], atree, dict(ex, records_without_selection=[gen.lat(r) for r in brecs[:20]],
                                                                                     records_with_selection=[gen.lat(r) for r in recs[:20]]))
                break

    # (b) judging
    stats["hostile_mailbox_requests"] = len(mreqs)
    stats["hostile_mailboxes"] = len(boxes)
    stats["hostile_messages"] = sum(len(b["markers"]) for b in boxes) // 2
    seen_markers = {}
    for (d, tl, meta), o in zip(mreqs, mout):
        box, proto = meta["box"], meta["proto"]
        n = len(box["markers"])
        ob = o["out"].encode("latin-1")
        key = ("mail", meta["what"], proto)
        kind = "mbox" if box["flag"] == "MBOX-MESSAGE" else "maildir"
        ex = {"tree": [e for e in mtree if ("/" + e["path"]).startswith(box["sel"])], "mailbox": box["sel"], "messages_by_label": box["labels"],
              "asked": {k: v for k, v in meta.items() if k != "box"}}
        chk.count(("mail", box["sel"], meta["what"], meta.get("num"), proto, meta["form"]), nontrivial=True)
        if per_key.get(key, 0) >= 1:
            continue
        if judge(d, tl, "mail", o, "default", extra=ex, sub="%s-content" % kind):
            found = True
            room(key)
            continue
        try:
            v = V.validate(proto, ob)
        except V.Malformed:
            continue        # answered in another protocol's syntax than the request's: not this leg's business
        why = None
        if meta["what"] == "past-end":
            if v["kind"] != "error":
                why, tg = "message number %d of a mailbox of %d messages is not answered with an error" % (meta["num"], n), "past-end"
        elif v["kind"] != "success":
            why, tg = "a %s of a mailbox that exists is answered with an error: %r" % (meta["what"], ob[:120]), "refused"
        elif meta["what"] == "listing" and meta["form"] != "!":
            got = c03gen.listed_messages(ob)
            if got != list(range(1, n + 1)):
                why, tg = "the listing of a mailbox of %d messages links messages %r" % (n, got), "incomplete-listing"
            else:
                # read the way the protocol's own client reads it: one item per message, nothing else (a title must not be
                # able to end its line or its field)
                try:
                    items = c03gen.listing_links(proto, meta["form"], v["body"])
                    if sorted(x for x in items if x is not None) != got or (None in items and proto != "wap" and not proto.startswith("http")):
                        why, tg = "a client reads %d items (message numbers %r) in the listing of a mailbox of %d messages" % (len(items), items, n), "listing-items"
                except V.Malformed as e:
                    why, tg = "the listing of the mailbox is not a well-formed menu: %s" % e, "malformed-listing"
        elif meta["what"] == "message" and meta["form"] != "!":
            ms = [m for m in box["markers"] if m.encode() in ob]
            if len(ms) != 1:
                why, tg = "the reply to message %d carries the body of %d of the stored messages" % (meta["num"], len(ms)), "message-body"
            else:
                prev = seen_markers.setdefault((box["sel"], meta["num"]), ms[0])
                if prev != ms[0]:
                    why, tg = "message %d is a different stored message in different protocols (%s, %s)" % (meta["num"], prev, ms[0]), "message-identity"
        if why:
            found = True
            room(key)
            report(why, d, tl, o, "%s:%s-content:%s" % (tg, kind, proto), ex["tree"], ex)
    # every stored message is reachable under exactly one number
    for box in boxes:
        nums = {}
        for (sel, num), m in seen_markers.items():
            if sel == box["sel"]:
                nums.setdefault(m, []).append(num)
        asked = sorted(k for (sel, k) in seen_markers if sel == box["sel"])
        chk.count(("mail-reach", box["sel"]), nontrivial=True)
        if asked == list(range(1, len(box["markers"]) + 1)) and (set(nums) != set(box["markers"]) or any(len(v) != 1 for v in nums.values())):
            if room(("mail", "reach")):
                found = True
                chk.violation({"what": "the messages of a mailbox are not each reachable under exactly one number",
                               "mailbox": box["sel"], "numbers_by_body_marker": nums, "stored": box["markers"],
                               "tree": [e for e in mtree if ("/" + e["path"]).startswith(box["sel"])]},
                              tag="message-identity:%s-content" % ("mbox" if box["flag"] == "MBOX-MESSAGE" else "maildir"))
    return found


def logging_leg(chk, tier, judge, stats):
    """The logging configuration is part of the world: the REAL logger (logger.init, never replaced) with logmethod = file
    over a sys.stdout of every kind of charset / error handler, syslog (the real syslog.syslog) and none, against requests
    whose bytes are not valid UTF-8 or not encodable in the stream's charset, for hits and misses.  Oracle: the common
    per-reply one; the reply is the one the same request gets under the driver's own record collector; and the record of
    the request still arrives (same number of records, same [Protocol/Handler] site)."""
    rng = chk.rng
    found = False
    ltree, lreqs = c03gen.logging_world(rng, tier)
    rj = [{"data": gen.lat(d), "tls": tl} for d, tl, _ in lreqs]
    setups = c03gen.LOG_SETUPS
    half = (len(setups) + 1) // 2
    jobs = [{"op": "world", "tree": ltree, "config": trees.SITE_CONFIG, "requests": rj},
            {"op": "c03_logging", "tree": ltree, "config": trees.SITE_CONFIG, "setups": setups[:half], "requests": rj},
            {"op": "c03_logging", "tree": ltree, "config": trees.SITE_CONFIG, "setups": setups[half:], "requests": rj}]
    res = impl_run_parallel(jobs, chunks=len(jobs))
    for r in res:
        if not r["ok"]:
            raise RuntimeError(r["err"] + "\n" + r.get("tb", ""))
    base = res[0]["res"]["results"]
    by_setup = dict(res[1]["res"]["results"], **res[2]["res"]["results"])
    stats["logging_setups"] = len(setups)
    stats["logging_requests"] = len(lreqs)
    per = {}
    for st in setups:
        name = st["name"]
        for (d, tl, meta), b, o in zip(lreqs, base, by_setup[name]):
            chk.count(("logging", name, d[:120], tl), nontrivial=True)
            if per.get(name, 0) >= 3:
                continue
            ex = {"tree": ltree, "logging": st, "request_meta": meta, "records_latin1": o["records"][:4], "handlers": "default",
                  "reply_under_the_drivers_collector": b["out"][:300]}
            recs = o["records"]
            if o.get("raw") and isinstance(st["stream"], dict) and not any(c03gen.record_site(l) for l in recs):
                # a logger that writes through the text layer writes in the stream's own charset
                alt = [l for l in o["raw"].encode("latin-1").decode(st["stream"]["encoding"], "replace").split("\n") if l.strip("\ufeff\r")]
                if any(c03gen.record_site(l) for l in alt):
                    recs = alt
            o2 = dict(o, log=recs if st["logmethod"] != "none" else b["log"])
            if judge(d, tl, "logging", o2, "default", extra=ex, sub="log-" + name):
                found = True
                per[name] = per.get(name, 0) + 1
                continue
            why = None
            if gen.mask_times(o["out"].encode("latin-1")) != gen.mask_times(b["out"].encode("latin-1")) and not b["exc"]:
                why, tg = "the reply depends on the logging configuration", "log-dependence"
            elif st["logmethod"] != "none":
                want = [c03gen.record_site(l) for l in b["log"]]
                got = [c03gen.record_site(l) for l in recs]
                if want != got:
                    why, tg = "the request is answered but its log record is lost or altered: expected sites %r, got %r" % (want, got), "record-lost"
            if why:
                found = True
                per[name] = per.get(name, 0) + 1
                m = re.search(r"\[(\w+)/", " ".join(b["log"]))
                chk.violation(dict(ex, what=why, request_latin1=gen.lat(d), tls=tl, response_latin1=o["out"][:400]),
                              tag="%s:log-%s:%s" % (tg, name, CLS.get(m.group(1) if m else None) or "none"))
    return found


def run(tier):
    chk = Check("C03", tier)
    import time as _time
    _t0 = [_time.time()]
    _legs = {}
    def lap(name):
        _legs[name] = round(_time.time() - _t0[0], 1)
        _t0[0] = _time.time()
    chk.proofs(extra_files=["Corr/K03.v", "Props/C03Serve.v"])   # [agentH]
    found = False
    rng = chk.rng
    tree = trees.rich_tree(rng, hostile=True, n_hostile=8)
    names = [e["path"] for e in tree]
    reqs = []   # (bytes, tls, label)
    for data, tls in malformed_stream(rng):
        reqs.append((data, tls, "malformed"))
    for proto in gen.PROTOCOLS:
        for s in gen.climber_selectors(rng, ["a.txt", "dir1", "mail.mbox", "md"], 6 if tier == "quick" else 25):
            if proto.endswith(("gopher", "gopherplus")) and (s != s.strip() or "\t" in s):
                continue
            data, tls = gen.request_bytes(proto, s, layers=rng.choice([1, 2]), gplus=rng.choice("+!$"))
            reqs.append((data, tls, "climber"))
        for nm in names:
            data, tls = gen.request_bytes(proto, "/" + nm.encode("latin-1").decode("utf-8", "surrogateescape"), gplus=rng.choice("+!$"))
            reqs.append((data, tls, "benign"))
        for _ in range(10 if tier == "quick" else 60):
            raw = bytes(rng.randrange(256) for _ in range(rng.randrange(0, 40)))
            reqs.append((raw + b"\r\n", gen.TLS[proto], "random"))
    for data, tls in header_requests(rng):
        reqs.append((data, tls, "headers"))
    header_idx = [i for i, r in enumerate(reqs) if r[2] == "headers"]
    # typed selectors (/<type character>/<selector>, the form url.URLTypeRewriter strips): existing and missing objects
    typed_sel = ["/0/a.txt", "/1/dir1", "/9/img.gif", "/h/b.html", "/0/dir1/c.txt", "/1/", "/0/nonexistent.txt", "/1/no/such/dir", "/9/dir1/missing.bin",
                 "/0/0/a.txt", "/x/a.txt", "/0//a.txt", "/1/mail.mbox", "/0/mail.mbox|/MBOX-MESSAGE/1", "/0/mail.mbox|/MBOX-MESSAGE/99", "/7/a.txt", "/0/../a.txt"]
    for proto in gen.PROTOCOLS:
        for s in (typed_sel if tier != "quick" or proto in ("gopher", "gopherplus", "http", "gemini") else rng.sample(typed_sel, 5)):
            data, tls = gen.request_bytes(proto, s, gplus=rng.choice("+!$"))
            reqs.append((data, tls, "typed"))
    typed_idx = [i for i, r in enumerate(reqs) if r[2] == "typed"]
    # ---- worlds: every request alone (two handler lists), and after histories ----
    singles = [{"data": gen.lat(d), "tls": t} for d, t, _ in reqs]
    jobs = [{"op": "world", "tree": tree, "config": cfg, "requests": singles} for cfg in (trees.SITE_CONFIG, dict(trees.SITE_CONFIG, **FULL_CONFIG))]
    nhist = 260 if tier == "quick" else 1500
    benign = [i for i, r in enumerate(reqs) if r[2] == "benign"]
    hist_jobs = []
    def find_req(data, tls=False):
        for i, r in enumerate(reqs):
            if r[0] == data and r[1] == tls:
                return i
        reqs.append((data, tls, "benign"))
        singles.append({"data": gen.lat(data), "tls": tls})
        return len(reqs) - 1
    corpus = []
    # a listing served from the directory cache must equal the one generated afresh, in every form
    for d in (b"/", b"/dir1", b"/odd", b"/umn", b"/maps", b"/dir1/sub"):
        for first in (d + b"\r\n", b"GET " + d + b" HTTP/1.0\r\n\r\n", d + b"\t$\r\n"):
            for target in (d + b"\t$\r\n", d + b"\t+\r\n", d + b"\r\n", b"GET " + d + b" HTTP/1.0\r\n\r\n", d + b"\t!\r\n"):
                corpus.append(([find_req(first)], find_req(target)))
    if tier == "quick":
        # thorough runs the whole product; quick keeps, for every directory and every form of the second request, one first request
        by = {}
        for h, tg in corpus:
            by.setdefault((reqs[tg][0]), []).append((h, tg))
        corpus = [rng.choice(v) for v in by.values()]
    corpus += [([find_req(b"/md/new\r\n")], find_req(b"/md\r\n")),
              ([find_req(b"/dir1\r\n")], find_req(b"/dir1/.cache.pygopherd.dir\r\n")),
              ([find_req(b"/md\r\n"), find_req(b"/mail.mbox\r\n")], find_req(b"/mail.mbox|/MBOX-MESSAGE/2\r\n"))]
    # what one request said in its header block (or anywhere else) must not reach the next one: every kind of
    # header block as the history of requests that carry no field of their own, in every syntax
    probes = [find_req(d, tl) for d, tl in BARE_PROBES]
    http_probes = [pi for pi, (d, _) in zip(probes, BARE_PROBES) if d.startswith((b"GET", b"HEAD"))]
    per_block = header_idx if tier != "quick" else header_idx[::4]      # quick: one request of every header block
    for hi in per_block:
        picks = http_probes if tier != "quick" else rng.sample(http_probes, 2)
        for pi in picks + [rng.choice(probes)]:
            corpus.append(([hi], pi))
    for pi in probes:                                   # several header blocks in a row, then the probe
        corpus.append(([rng.choice(header_idx) for _ in range(rng.randrange(2, 6))], pi))
    for hi in rng.sample(header_idx, 12):               # and the other way round
        corpus.append(([rng.choice(probes)], hi))
    # the same under the full handler list (with the selector rewriter): typed selectors, existing and missing, as histories
    # and as probes of one another and of the plain selectors
    CFGS = {"default": trees.SITE_CONFIG, "full": dict(trees.SITE_CONFIG, **FULL_CONFIG)}
    corpus = [(h, tg, "default") for h, tg in corpus]
    typed_plain = [i for i in typed_idx if not reqs[i][1] and reqs[i][0].endswith(b"\r\n") and not reqs[i][0].startswith((b"GET", b"HEAD", b"gopher.example "))
                   and b"\t" not in reqs[i][0]]
    for hi in (typed_idx if tier != "quick" else typed_plain + rng.sample(typed_idx, 8)):
        for pi in (rng.sample(typed_idx, 2) if tier != "quick" else [rng.choice(typed_idx)]) + [rng.choice(typed_plain), rng.choice(probes)]:
            corpus.append(([hi], pi, "full"))
    for _ in range(20 if tier == "quick" else 200):
        corpus.append(([rng.choice(typed_idx) for _ in range(rng.randrange(2, 5))], rng.choice(typed_idx + benign), "full"))
    nhist = len(corpus) + (60 if tier == "quick" else 800)
    pool = benign + header_idx + probes + typed_idx
    for n_h in range(nhist):
        k = rng.randrange(1, 7)
        h = [rng.choice(pool) for _ in range(k)]
        target = rng.choice(probes + header_idx + typed_idx) if rng.random() < 0.3 else rng.randrange(len(reqs))
        cfgname = rng.choice(["default", "full"])
        if n_h < len(corpus):
            h, target, cfgname = corpus[n_h]
        hist_jobs.append((h, target, cfgname))
    # every history in a process of its own, and the answer to each target from a fresh process with nothing before it:
    # state kept anywhere in the server process (module, class, cache files of the scratch tree) cannot hide in the baseline
    targets = sorted(set((tg, cf) for _, tg, cf in hist_jobs))
    iso_jobs = [{"op": "world", "tree": tree, "config": CFGS[cf], "requests": [singles[i] for i in h] + [singles[tg]]}
                for h, tg, cf in hist_jobs]
    iso_jobs += [{"op": "world", "tree": tree, "config": CFGS[cf], "requests": [singles[tg]]} for tg, cf in targets]
    # long pathological lines: a world of their own (oracle only, never a Coq literal)
    longs = long_run_requests(rng, tier)
    long_jobs = []
    for k in range(0, len(longs), 12):
        long_jobs.append({"op": "world", "tree": tree, "config": trees.SITE_CONFIG,
                          "requests": [{"data": gen.lat(d), "tls": tl} for d, tl, _, _ in longs[k:k + 12]]})
    lap("proofs+generation")
    res = impl_run_parallel(jobs + long_jobs)
    lap("request stream + long lines")
    for r in res:
        if not r["ok"]:
            raise RuntimeError(r["err"] + "\n" + r.get("tb", ""))
    long_outs = [o for r in res[2:] for o in r["res"]["results"]]
    iso_res = impl_run_isolated(iso_jobs)
    lap("isolated histories (%d processes)" % len(iso_jobs))
    for r in iso_res:
        if not r["ok"]:
            raise RuntimeError(r["err"] + "\n" + r.get("tb", ""))
    fresh = {key: iso_res[len(hist_jobs) + k]["res"]["results"][0] for k, key in enumerate(targets)}
    tindex = {"/" + e["path"].encode("latin-1").decode("utf-8", "surrogateescape"): ("dir" if e.get("kind") == "dir" else "file") for e in tree}
    sizes = {"/" + e["path"].encode("latin-1").decode("utf-8", "surrogateescape"): len(e.get("data", "")) for e in tree
             if e.get("kind", "file") == "file"}
    stats = {"empty_replies": 0, "malformed": 0, "internal_errors": 0, "slow": 0, "history_diffs": 0}
    def judge(data, tls, label, o, cfgname, transport="memory", extra=None, sub=None):
        """the per-reply oracle; reports and returns True when the reply violates the property
        (sub: the stable class of the failing input, for the legs that know it better than the request text tells)"""
        ob = o["out"].encode("latin-1")
        m = re.search(r"\[(\w+)/", " ".join(o["log"]))
        cls = m.group(1) if m else None
        proto = CLS.get(cls)
        chk.count((cfgname, transport, data[:200], len(data), tls), nontrivial=label != "benign")
        tagbase = None
        why = None
        bad_logs = [l for l in o["log"] if "EXCEPTION" in l and "EXCEPTION FileNotFound" not in l]
        if o["exc"] and "RequestTimeLimit" in o["exc"]:
            why, tagbase = "no complete reply within the time limit: " + o["exc"], "slow"
            stats["slow"] += 1
        elif o["exc"]:
            why, tagbase = "exception escapes the connection handler: " + o["exc"], "escape"
        elif bad_logs:
            # an I/O error that the protocol turned into its own error reply is handled, not internal
            handled = False
            if proto is not None and re.search(r"EXCEPTION \w*(Error|IOError)\b", bad_logs[0]) and len(bad_logs) == 1:
                try:
                    handled = V.validate(proto, ob)["kind"] == "error" and re.search(
                        r"EXCEPTION (IsADirectoryError|NotADirectoryError|PermissionError|FileNotFoundError|OSError|IOError)\b", bad_logs[0]) is not None
                except V.Malformed:
                    handled = False
            if not handled:
                why, tagbase = "unhandled internal error: " + bad_logs[0], "internal-error"
                stats["internal_errors"] += 1
        elif proto is None and ob == b"":
            why, tagbase = "no reply at all", "empty-reply"
        if why is None and proto is not None:
            try:
                v = V.validate(proto, ob, head=data.startswith(b"HEAD "))
                if ob == b"":
                    # an empty reply is a valid plain-Gopher document only for an empty file
                    first = data.split(b"\r\n")[0].split(b"\n")[0].split(b"\t")[0].strip().decode("utf-8", "surrogateescape")
                    ek = expected_kind(tindex, "/" + first.lstrip("/") if not first.startswith("/") else first)
                    sel_n = ("/" + first.lstrip("/")).rstrip("/")
                    empty_file = ek == "file" and sizes.get(sel_n) == 0
                    empty_dir = ek == "dir" and not any(k.startswith(sel_n + "/") for k in tindex)
                    if not (empty_file or empty_dir):
                        why, tagbase = "empty reply", "empty-reply"
                        stats["empty_replies"] += 1
            except V.Malformed as e:
                why, tagbase = "reply is not valid %s: %s" % (proto, e), "malformed-reply"
                stats["malformed"] += 1
        if why is None and o["secs"] > 5.0:
            why, tagbase = "took %.1f s" % o["secs"], "slow"
            stats["slow"] += 1
        if why:
            # stable classification of the failing input for known-findings matching
            given_sub, sub = sub, "other"
            if given_sub is not None:
                sub = given_sub
            elif b"MBOX-MESSAGE" in data or b"MAILDIR-MESSAGE" in data:
                sub = "message-number"
            elif b"[" in data or b"]" in data:
                sub = "gemini-bracket"
            elif b"%0D" in data.upper() or b"%0A" in data.upper():
                sub = "crlf-in-selector"
            elif b"\x00" in data or b"%00" in data:
                sub = "nul"
            if len(data) > 4096 and tagbase == "slow":
                sub = "long-line"
            rep = {"what": why, "request_latin1": gen.lat(data) if len(data) <= 4096 else None, "tls": tls, "detected_protocol": cls,
                   "handlers": cfgname, "transport": transport, "response_latin1": o["out"][:400], "log": [l[:400] for l in o["log"][-4:]],
                   "seconds": o["secs"], "tree": tree}
            if len(data) > 4096:
                rep["request_length"] = len(data)
                rep["request_head_latin1"] = gen.lat(data[:200])
                rep["request_tail_latin1"] = gen.lat(data[-80:])
            rep.update(extra or {})
            chk.violation(rep, tag=f"{tagbase}:{sub}:{proto or 'none'}" + ("" if transport == "memory" else ":" + transport))
            return True
        return False

    for ci, cfgname in enumerate(("default", "full")):
        outs = res[ci]["res"]["results"]
        for (data, tls, label), o in zip(reqs, outs):
            if judge(data, tls, label, o, cfgname):
                found = True
    # long lines: the reply, the absolute limit, and the growth of the time with the length of the same shape
    by_shape = {}
    for (data, tls, key, size), o in zip(longs, long_outs):
        how = "a run of %d x %r (%s) in %s syntax" % (size // len(key[2]), key[2], key[1], key[0])
        if judge(data, tls, "long", o, "default", extra={"shape": how}):
            found = True
        by_shape.setdefault(key, {})[size] = (o["secs"], data, tls)
    stats["long_lines"] = len(longs)
    stats["long_line_max_seconds"] = max([o["secs"] for o in long_outs] or [0])
    for key, d in by_shape.items():
        if len(d) == 2:
            (t1, _, _), (t2, data2, tls2) = d[RUN_SIZES[0]], d[RUN_SIZES[1]]
            chk.count(("growth", key), nontrivial=True)
            # four times the length: linear work takes about four times as long; sixteen times means quadratic
            if t2 > 0.4 and t2 > 9 * max(t1, 0.004):
                found = True
                stats["slow"] += 1
                chk.violation({"what": "the time to answer grows faster than the request: %.3f s for %d bytes, %.3f s for %d bytes of the same shape"
                                       % (t1, RUN_SIZES[0], t2, RUN_SIZES[1]),
                               "shape": "a run of %r (%s) in %s syntax" % (key[2], key[1], key[0]), "request_length": len(data2),
                               "request_head_latin1": gen.lat(data2[:200]), "request_tail_latin1": gen.lat(data2[-80:]), "tls": tls2, "tree": tree},
                              tag=f"superlinear:{key[1]}:{key[0]}")
    # histories
    for k, (h, target, hcfg) in enumerate(hist_jobs):
        last = iso_res[k]["res"]["results"][-1]
        alone = fresh[(target, hcfg)]
        a = gen.mask_times(last["out"].encode("latin-1"))
        b = gen.mask_times(alone["out"].encode("latin-1"))
        chk.count(("hist", tuple(h), target, hcfg), nontrivial=True)
        if a != b:
            stats["history_diffs"] += 1
            found = True
            hsel = singles[target]["data"]
            hist_txt = " ".join(singles[i]["data"] for i in h)
            htag = "history-dependence"
            if ".cache.pygopherd" in hsel:
                htag = "history-dependence:cache-file-selector"
            elif "md" in hsel and ("/md/new" in hist_txt or "/md/cur" in hist_txt or "/md/tmp" in hist_txt):
                htag = "history-dependence:maildir-cache-pollution"
            chk.violation({"what": "the response depends on which read-only requests were served before",
                           "history_latin1": [singles[i]["data"] for i in h], "request_latin1": singles[target]["data"],
                           "tls": singles[target]["tls"], "handlers": hcfg, "alone_head": b[:300].decode("latin-1"),
                           "after_history_head": a[:300].decode("latin-1"), "tree": tree}, tag=htag)
    lap("judging")
    # ---- I/O faults: every protocol must turn them into ONE well-formed error reply ----
    ftree = [e for e in tree if not e["path"].startswith("odd/")] + [
        {"path": "locked", "kind": "dir"}, {"path": "locked/in.txt", "data": "x\n"},
        {"path": "vanish", "kind": "dir"}, {"path": "vanish/in.txt", "data": "x\n"},
        {"path": "noperm.txt", "data": "secret\n"}, {"path": "gone.txt", "data": "gone\n"},
        {"path": "lockedmap", "kind": "dir"}, {"path": "lockedmap/gophermap", "data": "iinfo\n"},
    ]
    faults = {"listdir": {"locked": "EACCES", "vanish": "ENOENT"},
              "open": {"noperm.txt": "EACCES", "gone.txt": "ENOENT", "gophermap": "EACCES"}}
    freqs, fmeta = [], []
    for proto in gen.PROTOCOLS:
        for sel in ("/locked", "/vanish", "/noperm.txt", "/gone.txt", "/lockedmap"):
            forms = ["+", "$", "!"] if proto.endswith("plus") else [None]
            for gp in forms:
                data, tls = gen.request_bytes(proto, sel, gplus=gp or "+")
                freqs.append({"data": gen.lat(data), "tls": tls})
                fmeta.append((proto, sel, gp))
        for sel in ("/locked", "/noperm.txt"):
            if proto in ("http", "https", "wap"):
                pre = b"/wap" if proto == "wap" else b""
                freqs.append({"data": gen.lat(b"HEAD " + pre + sel.encode() + b" HTTP/1.0\r\n\r\n"), "tls": gen.TLS[proto]})
                fmeta.append((proto, sel, "HEAD"))
    fres = impl_run_parallel([{"op": "world_faults", "tree": ftree, "config": trees.SITE_CONFIG, "faults": faults, "requests": freqs}])
    if not fres[0]["ok"]:
        raise RuntimeError(fres[0]["err"] + fres[0].get("tb", ""))
    stats["io_fault_requests"] = len(freqs)
    for (proto, sel, gp), o in zip(fmeta, fres[0]["res"]["results"]):
        ob = o["out"].encode("latin-1")
        chk.count(("io-fault", proto, sel, gp), nontrivial=True)
        why = None
        if o["exc"]:
            why = "exception escapes the connection handler: " + o["exc"]
        else:
            try:
                v = V.validate(proto, ob, head=gp == "HEAD")
                info_only = gp == "!"          # an information request does not open the object
                if ob == b"":
                    why = "no reply at all"
                elif v["kind"] != "error" and not info_only and gp != "HEAD":
                    if proto in ("gopher", "sgopher"):
                        why = "an I/O failure is not answered with an error line: %r" % ob[:80]
                    else:
                        why = "an I/O failure is answered with a success status: %r" % ob[:80]
            except V.Malformed as e:
                why = "reply to an I/O failure is not valid %s: %s" % (proto, e)
        if why:
            found = True
            chk.violation({"what": why, "protocol": proto, "selector": sel, "gopherplus_form": gp, "faults": faults,
                           "request_latin1": freqs[fmeta.index((proto, sel, gp))]["data"], "response_latin1": o["out"][:300],
                           "log": o["log"][-4:], "tree": ftree}, tag=f"io-fault-reply:{proto}:{gp or 'plain'}")

    lap("io faults")
    # ---- the rarely used request forms and the stored content that is hostile to a parser (c03gen.py) ----
    if content_legs(chk, tier, judge, stats):
        found = True
    lap("attribute selection + hostile mailboxes")
    if logging_leg(chk, tier, judge, stats):
        found = True
    lap("logging configurations")
    # ---- live leg: the real ThreadingTCPServer and GopherRequestHandler on a TCP socket, real (TLS) clients; a handler list
    # with the handlers that hand the connection's descriptor to a child process.  What the client receives is judged by
    # the same validators, and must be what the in-memory transport delivered for the same request ----
    live_handlers = FULL_HANDLERS.replace("ZIP.ZIPHandler,", "scriptexec.ExecHandler, file.CompressedFileHandler, ZIP.ZIPHandler,")
    live_cfg = dict(trees.SITE_CONFIG, **FULL_CONFIG)
    live_cfg["handlers.HandlerMultiplexer"] = {"handlers": live_handlers}
    live_cfg["handlers.file.CompressedFileHandler"] = {"decompressors": "{'gzip': 'zcat'}"}
    text = "".join("line %d of the compressed notes\n" % i for i in range(400))
    ltree = [e for e in tree if not e["path"].startswith("odd/")] + [
        {"path": "notes.txt.gz", "data": gen.lat(gzip.compress(text.encode(), mtime=0))},
        {"path": "dir1/page.html.gz", "data": gen.lat(gzip.compress(b"<html><head><title>Zipped</title></head><body>z</body></html>\n", mtime=0))},
        {"path": "blob.bin.gz", "data": gen.lat(gzip.compress(bytes(range(256)) * 300, mtime=0))},
        {"path": "empty.txt.gz", "data": gen.lat(gzip.compress(b"", mtime=0))},
        {"path": "hello.sh", "data": "#!/bin/sh\necho hello from a script\necho \"$QUERY_STRING\"\n", "mode": 0o755},
    ]
    for e in ltree:
        e.setdefault("mtime", 1_700_000_000)
    lreqs = []
    lsel = ["/notes.txt.gz", "/dir1/page.html.gz", "/blob.bin.gz", "/empty.txt.gz", "/hello.sh", "/a.txt", "/b.html", "/dir1",
            "/", "/mail.mbox", "/mail.mbox|/MBOX-MESSAGE/1", "/md", "/maps", "/umn", "/empty.txt", "/emptydir", "/nonexistent", "/img.gif",
            "/nope|/MBOX-MESSAGE/1", "/a.txt/x", "/dir1/../a.txt"]
    for proto in gen.PROTOCOLS:
        for s in lsel:
            forms = ["+", "$", "!"] if proto.endswith("plus") else [None]
            for gp in forms:
                data, tls = gen.request_bytes(proto, s, gplus=gp or "+", search="needle" if s == "/hello.sh" else None)
                lreqs.append((data, tls, "live"))
        if proto in ("http", "https", "wap"):
            pre = b"/wap" if proto == "wap" else b""
            for s in (b"/notes.txt.gz", b"/dir1", b"/nonexistent", b"/hello.sh"):
                lreqs.append((b"HEAD " + pre + s + b" HTTP/1.0\r\n\r\n", gen.TLS[proto], "live"))
    for data, tls in header_requests(rng)[::3]:
        lreqs.append((data, tls, "live-headers"))
    for d, tl in BARE_PROBES:
        lreqs.append((d, tl, "live"))
    for data, tls in malformed_stream(rng)[::4]:
        lreqs.append((data, tls, "live-malformed"))
    # over TLS the client cannot half-close: keep requests whose end the server can see
    def complete(d, tl):
        if not tl:
            return True
        if d.startswith((b"GET ", b"HEAD ")):
            return d.endswith(b"\r\n\r\n") or d.endswith(b"\n\n")
        return d.endswith(b"\n")
    lreqs = [(d, tl, lb) for d, tl, lb in lreqs if complete(d, tl)]
    lj = [{"data": gen.lat(d), "tls": tl} for d, tl, _ in lreqs]
    nl = 3 if tier == "quick" else 6
    parts = [list(range(k, len(lj), nl)) for k in range(nl)]
    ljobs = [{"op": "c03_live", "tree": ltree, "config": live_cfg, "requests": [lj[i] for i in part]} for part in parts]
    ljobs += [{"op": "requests_socket", "tree": ltree, "config": live_cfg, "requests": [lj[i] for i in part]} for part in parts]
    ljobs += [{"op": "world", "tree": ltree, "config": live_cfg, "requests": lj}]
    # clients that stop sending at each point where the server reads, and keep the connection open: the server is configured
    # with a timeout ("any read or write that makes no progress in this number of seconds will time out"); every one of them
    # must be answered or let go within that time (each read point may take one timeout) plus a margin
    STALL_TIMEOUT, STALL_LIMIT = 2, 9
    stalls = [(b"", False, "nothing-sent"), (b"/a.txt", False, "selector-without-line-end"), (b"/a.txt\r", False, "selector-cr"),
              (b"/a.txt\t", False, "gopher-after-tab"), (b"/a.txt\t+", False, "gopherplus-without-line-end"),
              (b"GET /a.txt HTTP/1.0", False, "http-request-line"), (b"GET /a.txt HTTP/1.0\r\n", False, "http-no-header-end"),
              (b"GET /a.txt HTTP/1.0\r\nHost: x\r\nAccept: text/ht", False, "http-inside-header"),
              (b"GET /wap/a.txt HTTP/1.0\r\nAccept: , text/vnd.wap.wml\r\n", False, "wap-no-header-end"),
              (b"gopher.example /a.txt 10\r\nabc", False, "spartan-short-body"), (b"gopher.example /a.txt 5\r\n", False, "spartan-no-body"),
              (b"", True, "tls:nothing-sent"), (b"gemini://gopher.example/a.txt", True, "tls:gemini-without-line-end"),
              (b"GET /a.txt HTTP/1.0\r\nHost: x\r\n", True, "tls:https-no-header-end"), (b"/a.txt", True, "tls:selector-without-line-end"),
              (b"\x16", False, "handshake:first-byte"), (b"\x16\x03\x01\x02\x00\x01\x00\x01\xfc\x03\x03", False, "handshake:partial-hello")]
    if tier == "quick":
        keep = {"nothing-sent", "selector-without-line-end", "http-no-header-end", "http-inside-header", "spartan-short-body",
                "tls:gemini-without-line-end", "tls:https-no-header-end", "handshake:first-byte"}
        stalls = [s for s in stalls if s[2] in keep]
    half = (len(stalls) + 1) // 2
    n_stall_jobs = 0
    for part in (stalls[:half], stalls[half:]):
        if part:
            n_stall_jobs += 1
            ljobs.append({"op": "c03_live", "tree": ltree, "config": live_cfg, "server_timeout": STALL_TIMEOUT, "stall_limit": STALL_LIMIT,
                          "requests": [{"data": gen.lat(d), "tls": tl, "stall": True} for d, tl, _ in part]})
    lres = impl_run_parallel(ljobs, chunks=len(ljobs))
    for r in lres:
        if not r["ok"]:
            raise RuntimeError(r["err"] + "\n" + r.get("tb", ""))
    stall_out = [o for r in lres[len(lres) - n_stall_jobs:] for o in r["res"]["results"]]
    lres = lres[:len(lres) - n_stall_jobs]
    stats["stalling_clients"] = len(stalls)
    for (d, tl, point), o in zip(stalls, stall_out):
        chk.count(("stall", point), nontrivial=True)
        why = None
        if o["exc"]:
            why = "client error: " + o["exc"]
        elif not o["closed"]:
            why = ("a client that stops sending (%s) is neither answered nor disconnected: still open %.1f s after its last byte, "
                   "the configured timeout is %d s" % (point, o["secs"], STALL_TIMEOUT))
        if why:
            found = True
            kind = "handshake" if point.startswith("handshake") else ("tls:" + point[4:] if tl else point)
            chk.violation({"what": why, "sent_latin1": gen.lat(d), "tls": tl, "stall_point": point, "configured_timeout_s": STALL_TIMEOUT,
                           "waited_s": o["secs"], "received_latin1": o["out"][:200], "log": o["log"][-3:], "config": live_cfg, "tree": ltree},
                          tag="no-timeout:" + kind)
    mem = lres[-1]["res"]["results"]
    stats["live_requests"] = len(lreqs)
    stats["transport_diffs"] = 0
    tindex_save, sizes_save = tindex, sizes
    tindex = {"/" + e["path"]: ("dir" if e.get("kind") == "dir" else "file") for e in ltree}
    sizes = {"/" + e["path"]: len(e.get("data", "")) for e in ltree if e.get("kind", "file") == "file"}
    sizes["/empty.txt.gz"] = 0
    for tname, off in (("tcp", 0), ("socketpair", nl)):
        for pk, part in enumerate(parts):
            for i, o in zip(part, lres[off + pk]["res"]["results"]):
                data, tls, label = lreqs[i]
                if o["exc"] and tname == "tcp":
                    o = dict(o, exc="client: " + o["exc"])
                if judge(data, tls, label, o, "live", transport=tname):
                    found = True
                    continue
                a = gen.mask_times(o["out"].encode("latin-1"))
                b = gen.mask_times(mem[i]["out"].encode("latin-1"))
                chk.count(("transport", tname, data, tls), nontrivial=True)
                if a != b and not mem[i]["exc"]:
                    found = True
                    stats["transport_diffs"] += 1
                    m = re.search(r"\[(\w+)/", " ".join(mem[i]["log"]))
                    chk.violation({"what": "the reply a client receives over a real %s differs from the reply the same handler writes to an in-memory file"
                                           % ("TCP connection to the real server" if tname == "tcp" else "socket"),
                                   "request_latin1": gen.lat(data), "tls": tls, "received_head": a[:300].decode("latin-1"),
                                   "received_tail": a[-200:].decode("latin-1"), "in_memory_head": b[:300].decode("latin-1"),
                                   "lengths": [len(a), len(b)], "config": live_cfg, "tree": ltree},
                                  tag=f"transport-dependence:{tname}:{CLS.get(m.group(1) if m else None) or 'none'}")
    tindex, sizes = tindex_save, sizes_save

    lap("live leg")
    # ---- descriptor soak: hundreds of distinct requests under a tight descriptor limit, then the first ones again ----
    stree = [e for e in tree if not e["path"].startswith("odd/")]
    sreqs = []
    probes = [b"/a.txt\r\n", b"/\r\n", b"/mail.mbox\r\n", b"GET /dir1 HTTP/1.0\r\n\r\n", b"/mail.mbox|/MBOX-MESSAGE/1\r\n", b"/md\r\n"]
    for pb in probes:
        sreqs.append({"data": gen.lat(pb), "tls": False})
    nsoak = 260 if tier == "quick" else 1200
    for i in range(nsoak):
        k = i % 6
        if k == 0:
            d = b"/mail.mbox|/MBOX-MESSAGE/%d\r\n" % (i + 1)
        elif k == 1:
            d = b"/md|/MAILDIR-MESSAGE/%d\r\n" % (i + 1)
        elif k == 2:
            d = b"GET /dir1/c.txt?x=%d HTTP/1.0\r\n\r\n" % i
        elif k == 3:
            d = (b"/mail.mbox|/MBOX-MESSAGE/%d\t+\r\n" % (i + 2)) if i % 12 == 3 else (b"/nonexistent-%d\r\n" % i)
        elif k == 4:
            d = b"/b.html\t!\r\n" if i % 12 == 4 else b"/dir1/sub\t$\r\n"
        else:
            d = b"/maps\r\n"
        sreqs.append({"data": gen.lat(d), "tls": False})
    for pb in probes:
        sreqs.append({"data": gen.lat(pb), "tls": False})
    sres = impl_run_parallel([{"op": "world_faults", "tree": stree, "config": trees.SITE_CONFIG, "nofile": 24, "requests": sreqs}])
    if not sres[0]["ok"]:
        raise RuntimeError(sres[0]["err"] + sres[0].get("tb", ""))
    sout = sres[0]["res"]["results"]
    stats["soak_requests"] = len(sreqs)
    for i, pb in enumerate(probes):
        a = gen.mask_times(sout[i]["out"].encode("latin-1"))
        b = gen.mask_times(sout[len(sreqs) - len(probes) + i]["out"].encode("latin-1"))
        chk.count(("soak", pb), nontrivial=True)
        if a != b:
            found = True
            chk.violation({"what": "after %d other requests (descriptor limit 24 above the baseline) the same request is answered differently" % nsoak,
                           "request_latin1": gen.lat(pb), "first_answer": a[:200].decode("latin-1"), "later_answer": b[:200].decode("latin-1"),
                           "tree": stree}, tag="history-dependence:resource-leak")

    chk.sample({"request_latin1": gen.lat(reqs[6][0]), "tls": reqs[6][1], "response_latin1": res[0]["res"]["results"][6]["out"][:160]})
    chk.sample({"history": [singles[i]["data"] for i in hist_jobs[0][0]], "then": singles[hist_jobs[0][1]]["data"]})
    chk.coverage["oracle"] = dict(stats, requests=len(reqs), handler_lists=2, histories=nhist,
                                  labels={l: sum(1 for r in reqs if r[2] == l) for l in ("malformed", "climber", "benign", "random")})
    chk.coverage["rule"] = ("a hand-written malformed stream per protocol syntax + climbers + every path of a generated tree in 9 protocol "
                            "variants + random bytes, each served alone under the default and a full handler list and again after 1-6 earlier "
                            "read-only requests; each reply validated by independent per-protocol parsers; non-trivial = not a benign existing path; "
                            "plus (c03gen.py) every form of Gopher+ attribute selection on every combination of own / children's attribute "
                            "sidecars, and mailboxes (mbox + Maildir) with hostile header fields listed and fetched in every protocol")
    # ---- [agentH] correspondence K03: response bytes of every protocol class vs Model/Respond.v, and the
    # Coq validators of Model/Wellformed.v vs validators.py on every reply of the request stream above ----
    lap("soak")
    k_mism, k_err, k_det = run_k03(chk, tier)
    v_items = [(CLS.get((re.search(r"\[(\w+)/", " ".join(o["log"])) or [None, None])[1]), o["out"].encode("latin-1"))
               for ci in (0, 1) for o in res[ci]["res"]["results"]]
    v_mism, v_err, v_det = validate_in_coq(chk, [(p, b) for p, b in v_items if p is not None])
    chk.coverage["k03"] = dict(k_det, validators_on_request_stream=v_det)
    if k_mism or k_err or v_mism or v_err:
        chk.correspondence_broken("K03 (Model/Respond.v, Model/Wellformed.v vs protocols/*.py and validators.py)",
                                  {"mismatches": k_mism + v_mism, "error": (k_err or "") + (v_err or ""), "details": chk.coverage["k03"]}, found)
    # ---- [agentH] end ----
    lap("K03 + validators in Coq")
    chk.coverage["seconds_per_leg"] = _legs
    chk.finish_proofs(found)
    chk.assumptions += ["wall-clock bound is runtime behaviour (measured per request, limit 5 s)"]
    return chk.finish("proof")
