"""Implementation-side operations for C12: fault injection on real scratch trees.
Faults that exist in the file system (dangling symlink, FIFO, socket, names the
security filter rejects) come with the tree; `stat` failing after enumeration is
injected by wrapping VFS_Real.stat for the chosen selectors."""
import errno
import os

import pygopherd.handlers.base as hbase

import implops_c07 as c07

DRV = None


class StatFaults:
    def __init__(self, failing):
        self.failing = failing     # selector -> errno name
        self.orig = None

    def __enter__(self):
        self.orig = hbase.VFS_Real.stat
        failing, orig = self.failing, self.orig

        def stat(vfs, selector):
            if selector in failing:
                code = getattr(errno, failing[selector])
                raise OSError(code, os.strerror(code), selector)
            return orig(vfs, selector)
        hbase.VFS_Real.stat = stat
        return self

    def __exit__(self, *a):
        hbase.VFS_Real.stat = self.orig


def op_c12_faults(job):
    cfg = dict(job.get("config") or {})
    w = DRV.World({"tree": job["tree"], "config": cfg})
    try:
        dirsel = job["dir"]
        base = "" if dirsel == "/" else dirsel
        failing = {base + "/" + n: e for n, e in (job.get("stat_faults") or {}).items()}
        out = {"runs": {}, "protocols": {}}
        for kind in job["kinds"]:
            over = {k: dict(v) for k, v in cfg.items()}
            if kind == "dir":
                over.setdefault("handlers.HandlerMultiplexer", {})["handlers"] = c07.DIR_HANDLERS
            w.spec["config"] = over
            w.configure()
            with StatFaults(failing):
                world = c07.describe_world(w.config, w.root, dirsel, stat_fail=set(job.get("stat_faults") or {}))
                names = [c["name"] for c in world["children"]]
                groups = {}
                for p in job["perms"]:
                    if p == "natural":
                        p = list(range(len(names)))
                    elif p == "reversed":
                        p = list(reversed(range(len(names))))
                    r = c07.run_prepare(w.config, dirsel, kind, c07.perm_of(names, p))
                    key = DRV.json.dumps(r, sort_keys=True)
                    groups.setdefault(key, {"result": r, "perms": []})["perms"].append(p)
                out["runs"][kind] = {"world": world, "groups": list(groups.values()),
                                     "ignorepatt": w.config.get("handlers.dir.DirHandler", "ignorepatt"),
                                     "extstrip": w.config.get("handlers.UMN.UMNDirHandler", "extstrip")}
                prot = []
                for rq in job.get("requests", []):
                    try:
                        r = c07.with_alarm(5, lambda: DRV.serve_once(w.config, DRV.s2b(rq["data"]), tls=rq["tls"]))
                        prot.append({"out": r["out"], "exc": r["exc"], "log": r["log"][-2:]})
                    except c07.Timeout:
                        prot.append({"out": "", "exc": "Timeout", "log": []})
                out["protocols"][kind] = prot
        return out
    finally:
        w.close()


def register(OPS, drv):
    global DRV
    DRV = drv
    c07.DRV = drv
    OPS["c12_faults"] = op_c12_faults
