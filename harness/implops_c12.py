"""Implementation-side operations for C12: fault injection on real scratch trees.
Faults that exist in the file system (dangling symlink, FIFO, socket, names the
security filter rejects) come with the tree; `stat` failing after enumeration is
injected by wrapping VFS_Real.stat for the chosen selectors."""
import errno
import os

import pygopherd.handlers.base as hbase

import implops_c07 as c07

DRV = None


class StatFaults:
    """Faults at the k-th file-system call made for a child.  failing: selector -> errno name (stat fails
    always), or selector -> {"call": "stat" | "open", "from": k, "errno": name}: the k-th and every later
    call of that kind for the selector (and, for open, for its sidecar files) fails; earlier ones go through.
    arm() resets the counters."""

    def __init__(self, failing):
        self.failing = {}
        for sel, f in failing.items():
            if isinstance(f, str):
                f = {"call": "stat", "from": 1, "errno": f}
            self.failing[sel] = f
        self.counts = {}
        self.orig_stat = self.orig_open = None

    def arm(self):
        self.counts = {}

    def check(self, call, selector):
        f = self.failing.get(selector)
        if f is None or f["call"] != call:
            return
        k = self.counts.get((call, selector), 0) + 1
        self.counts[(call, selector)] = k
        if k >= f["from"]:
            code = getattr(errno, f["errno"])
            raise OSError(code, os.strerror(code), selector)

    def __enter__(self):
        self.orig_stat, self.orig_open = hbase.VFS_Real.stat, hbase.VFS_Real.open
        me, ostat, oopen = self, self.orig_stat, self.orig_open

        def stat(vfs, selector):
            me.check("stat", selector)
            return ostat(vfs, selector)

        def open_(vfs, selector, *a, **k):
            me.check("open", selector)
            return oopen(vfs, selector, *a, **k)
        hbase.VFS_Real.stat = stat
        hbase.VFS_Real.open = open_
        return self

    def __exit__(self, *a):
        hbase.VFS_Real.stat = self.orig_stat
        hbase.VFS_Real.open = self.orig_open


class Vanish:
    """Entries that are deleted between the enumeration of the directory and the inspection of
    its entries: VFS_Real.listdir is wrapped so that, right after the real listdir of the
    directory has returned, the chosen files are unlinked.  arm() puts them back."""

    def __init__(self, config, dirsel, names):
        self.config, self.dirsel, self.names = config, dirsel, list(names)
        self.base = "" if dirsel == "/" else dirsel
        self.orig = None

    def path(self, n):
        return c07.fs_path(self.config, self.base + "/" + n)

    def arm(self):
        for n in self.names:
            with open(self.path(n), "wb") as f:
                f.write(b"<html><head><title>Soon gone</title></head></html>\n" if n.endswith(".html") else b"soon gone\n")

    def __enter__(self):
        self.orig = hbase.VFS_Real.listdir
        me, orig = self, self.orig

        def listdir(vfs, selector):
            r = orig(vfs, selector)
            if selector == me.dirsel and me.names:
                for n in me.names:
                    try:
                        os.unlink(me.path(n))
                    except OSError:
                        pass
            return r
        hbase.VFS_Real.listdir = listdir
        self.arm()
        return self

    def __exit__(self, *a):
        hbase.VFS_Real.listdir = self.orig


def op_c12_faults(job):
    cfg = dict(job.get("config") or {})
    w = DRV.World({"tree": job["tree"], "config": cfg})
    try:
        dirsel = job["dir"]
        base = "" if dirsel == "/" else dirsel
        failing = {base + "/" + n: e for n, e in (job.get("stat_faults") or {}).items()}
        failing.update({base + "/" + n: e for n, e in (job.get("call_faults") or {}).items()})
        out = {"runs": {}, "protocols": {}}
        for kind in job["kinds"]:
            over = {k: dict(v) for k, v in cfg.items()}
            if kind == "dir":
                over.setdefault("handlers.HandlerMultiplexer", {})["handlers"] = c07.DIR_HANDLERS
            w.spec["config"] = over
            w.configure()
            vanish = list(job.get("vanish") or [])
            if job.get("real_logger"):
                # the failure may sit on the logging path: use the configured logger (logmethod = file);
                # its output (raw bytes of file names included) goes to an in-memory stream
                import io
                import sys
                import pygopherd.logger
                pygopherd.logger.init(w.config)
                saved_stdout = sys.stdout
                sys.stdout = io.TextIOWrapper(io.BytesIO(), errors="surrogateescape")
            with StatFaults(failing) as sf, Vanish(w.config, dirsel, vanish) as van0:
                class Arm:      # re-arm both fault injectors before every run
                    @staticmethod
                    def arm():
                        sf.arm()
                        van0.arm()
                van = Arm
                world = c07.describe_world(w.config, w.root, dirsel,
                                           stat_fail=set(job.get("stat_faults") or {}) | set(vanish),
                                           unreadable=set(job.get("call_faults") or {}))
                names = [c["name"] for c in world["children"]]
                groups = {}
                for p in job["perms"]:
                    if p == "natural":
                        p = list(range(len(names)))
                    elif p == "reversed":
                        p = list(reversed(range(len(names))))
                    van.arm()
                    r = c07.run_prepare(w.config, dirsel, kind, c07.perm_of(names, p))
                    key = DRV.json.dumps(r, sort_keys=True)
                    groups.setdefault(key, {"result": r, "perms": []})["perms"].append(p)
                out["runs"][kind] = {"world": world, "groups": list(groups.values()),
                                     "ignorepatt": w.config.get("handlers.dir.DirHandler", "ignorepatt"),
                                     "extstrip": w.config.get("handlers.UMN.UMNDirHandler", "extstrip")}
                prot = []
                gave_up = []

                def serve(rq, cfgobj):
                    if gave_up:         # the listing of this directory never returns: do not wait again and again
                        return {"out": "", "exc": "Timeout", "log": []}
                    van.arm()
                    try:
                        r = c07.with_alarm(4, lambda: DRV.serve_once(cfgobj, DRV.s2b(rq["data"]), tls=rq["tls"]))
                        if r["secs"] > 3.5:
                            # the server's catch-all swallowed the alarm: the request did not return by itself
                            gave_up.append(1)
                            return {"out": r["out"], "exc": "Timeout", "log": r["log"][-2:]}
                        return {"out": r["out"], "exc": r["exc"], "log": r["log"][-2:]}
                    except c07.Timeout:
                        gave_up.append(1)
                        return {"out": "", "exc": "Timeout", "log": []}
                for rq in job.get("requests", []):
                    prot.append(serve(rq, w.config))
                out["protocols"][kind] = prot
                # the same listing asked for again within the lifetime of the directory cache
                rep = []
                if job.get("repeat_requests"):
                    over2 = {k: dict(v) for k, v in over.items()}
                    over2.setdefault("handlers.dir.DirHandler", {}).update(
                        {"cachetime": "180", "cachefile": ".cache.pygopherd." + kind})
                    w.spec["config"] = over2
                    w.configure()
                    for rq in job["repeat_requests"]:
                        rep.append([serve(rq, w.config), serve(rq, w.config)])
                out.setdefault("repeats", {})[kind] = rep
            if job.get("real_logger"):
                sys.stdout = saved_stdout
        return out
    finally:
        w.close()


def register(OPS, drv):
    global DRV
    DRV = drv
    c07.DRV = drv
    OPS["c12_faults"] = op_c12_faults
