"""Implementation-side operations for C12: fault injection on real scratch trees.
Faults that exist in the file system (dangling symlink, FIFO, socket, names the
security filter rejects) come with the tree; `stat` failing after enumeration is
injected by wrapping VFS_Real.stat for the chosen selectors."""
import errno
import os

import pygopherd.handlers.base as hbase

import implops_c07 as c07

DRV = None


class StatFaults:
    """Faults at the k-th file-system call made for a child.  failing: selector -> errno name (stat fails
    always), or selector -> {"call": "stat" | "open", "from": k, "errno": name}: the k-th and every later
    call of that kind for the selector (and, for open, for its sidecar files) fails; earlier ones go through.
    {"call": "touch", "from": k}: the object is really deleted from the file system right after the k-th
    look the server takes at it through the VFS (stat / isfile / isdir / exists / open) has returned: whatever
    inspects it next -- through the VFS or not (the import machinery, the mailbox module) -- finds it gone.
    arm() resets the counters and puts deleted objects back."""

    TOUCH_CALLS = ("stat", "isfile", "isdir", "exists", "open")

    def __init__(self, failing, path_of=None, restore=None):
        self.path_of, self.restore = path_of, restore
        self.failing = {}
        for sel, f in failing.items():
            if isinstance(f, str):
                f = {"call": "stat", "from": 1, "errno": f}
            self.failing[sel] = f
        self.counts = {}
        self.orig = {}

    def arm(self):
        self.counts = {}
        for sel, f in self.failing.items():
            if f["call"] == "touch" and self.restore:
                self.restore(sel)

    def touched(self, selector):
        f = self.failing.get(selector)
        if f is None or f["call"] != "touch":
            return
        k = self.counts.get(("touch", selector), 0) + 1
        self.counts[("touch", selector)] = k
        if k == f["from"]:
            try:
                os.unlink(self.path_of(selector))
            except OSError:
                pass

    def check(self, call, selector):
        f = self.failing.get(selector)
        if f is None or f["call"] != call:
            return
        k = self.counts.get((call, selector), 0) + 1
        self.counts[(call, selector)] = k
        if k >= f["from"]:
            code = getattr(errno, f["errno"])
            raise OSError(code, os.strerror(code), selector)

    def __enter__(self):
        me = self
        self.orig = {name: getattr(hbase.VFS_Real, name) for name in self.TOUCH_CALLS}

        def wrap(name, orig):
            def call(vfs, selector, *a, **k):
                me.check(name, selector)
                try:
                    return orig(vfs, selector, *a, **k)
                finally:
                    me.touched(selector)
            return call
        for name, orig in self.orig.items():
            setattr(hbase.VFS_Real, name, wrap(name, orig))
        return self

    def __exit__(self, *a):
        for name, orig in self.orig.items():
            setattr(hbase.VFS_Real, name, orig)


class Vanish:
    """Entries that are deleted between the enumeration of the directory and the inspection of
    its entries: VFS_Real.listdir is wrapped so that, right after the real listdir of the
    directory has returned, the chosen files are unlinked.  arm() puts them back."""

    def __init__(self, config, dirsel, names, contents=None):
        self.config, self.dirsel, self.names = config, dirsel, list(names)
        self.contents = contents or {}      # name -> (bytes, mode or None): what the tree spec put there
        self.base = "" if dirsel == "/" else dirsel
        self.orig = None

    def path(self, n):
        return c07.fs_path(self.config, self.base + "/" + n)

    def arm(self):
        for n in self.names:
            data, mode = self.contents.get(n) or (
                b"<html><head><title>Soon gone</title></head></html>\n" if n.endswith(".html") else b"soon gone\n", None)
            with open(self.path(n), "wb") as f:
                f.write(data)
            if mode is not None:
                os.chmod(self.path(n), mode)

    def __enter__(self):
        self.orig = hbase.VFS_Real.listdir
        me, orig = self, self.orig

        def listdir(vfs, selector):
            r = orig(vfs, selector)
            if selector == me.dirsel and me.names:
                for n in me.names:
                    try:
                        os.unlink(me.path(n))
                    except OSError:
                        pass
            return r
        hbase.VFS_Real.listdir = listdir
        self.arm()
        return self

    def __exit__(self, *a):
        hbase.VFS_Real.listdir = self.orig


def op_c12_faults(job):
    cfg = dict(job.get("config") or {})
    w = DRV.World({"tree": job["tree"], "config": cfg})
    try:
        dirsel = job["dir"]
        base = "" if dirsel == "/" else dirsel
        failing = {base + "/" + n: e for n, e in (job.get("stat_faults") or {}).items()}
        failing.update({base + "/" + n: e for n, e in (job.get("call_faults") or {}).items()})
        out = {"runs": {}, "protocols": {}}
        # what the tree spec put at each selector: faults that really delete an object put it back before every run
        contents = {}
        if job.get("restore_from_tree"):
            for e in job["tree"]:
                if e.get("kind", "file") == "file":
                    contents["/" + e["path"].lstrip("/")] = (DRV.s2b(e.get("data", "")), e.get("mode"))
        root = w.root

        def path_of(selector):
            return os.fsencode(root + selector)

        def restore(selector):
            data, mode = contents.get(selector) or (b"soon gone\n", None)
            with open(path_of(selector), "wb") as f:
                f.write(data)
            if mode is not None:
                os.chmod(path_of(selector), mode)
        for kind in job["kinds"]:
            # "umn" / "dir": the shipped handler list with UMN.UMNDirHandler / dir.DirHandler for directories;
            # "<umn|dir>:<chain>": the handler configuration job["chains"][chain] (%DIR% = the directory handler)
            cls, _, chain = kind.partition(":")
            over = {k: dict(v) for k, v in cfg.items()}
            if chain:
                dirh = {"umn": "UMN.UMNDirHandler", "dir": "dir.DirHandler"}[cls]
                for sec, opts in job["chains"][chain].items():
                    over.setdefault(sec, {}).update({k: v.replace("%DIR%", dirh) for k, v in opts.items()})
            elif kind == "dir":
                over.setdefault("handlers.HandlerMultiplexer", {})["handlers"] = c07.DIR_HANDLERS
            w.spec["config"] = over
            w.configure()
            vanish = list(job.get("vanish") or [])
            if job.get("real_logger"):
                # the failure may sit on the logging path: use the configured logger (logmethod = file);
                # its output (raw bytes of file names included) goes to an in-memory stream
                import io
                import sys
                import pygopherd.logger
                pygopherd.logger.init(w.config)
                saved_stdout = sys.stdout
                sys.stdout = io.TextIOWrapper(io.BytesIO(), errors="surrogateescape")
            with StatFaults(failing, path_of, restore) as sf, \
                    Vanish(w.config, dirsel, vanish, {n: contents[base + "/" + n] for n in vanish
                                                      if base + "/" + n in contents}) as van0:
                class Arm:      # re-arm both fault injectors before every run
                    @staticmethod
                    def arm():
                        sf.arm()
                        van0.arm()
                van = Arm
                van.arm()
                world = c07.describe_world(w.config, w.root, dirsel,
                                           stat_fail=set(job.get("stat_faults") or {}) | set(vanish),
                                           unreadable=set(job.get("call_faults") or {}))
                van.arm()
                names = [c["name"] for c in world["children"]]
                groups = {}
                for p in job["perms"]:
                    if p == "natural":
                        p = list(range(len(names)))
                    elif p == "reversed":
                        p = list(reversed(range(len(names))))
                    van.arm()
                    if chain:
                        # a handler may leave files of its own in the directory (the archive handler's index
                        # cache): the enumeration order is a permutation of what is there now
                        names = [os.fsdecode(x) for x in os.listdir(path_of(dirsel))]
                        p = list(range(len(names))) if p[:2] == [0, 1] else list(reversed(range(len(names))))
                    r = c07.run_prepare(w.config, dirsel, cls, c07.perm_of(names, p))
                    key = DRV.json.dumps(r, sort_keys=True)
                    groups.setdefault(key, {"result": r, "perms": []})["perms"].append(p)
                out["runs"][kind] = {"world": world, "groups": list(groups.values()),
                                     "ignorepatt": w.config.get("handlers.dir.DirHandler", "ignorepatt"),
                                     "extstrip": w.config.get("handlers.UMN.UMNDirHandler", "extstrip")}
                prot = []
                gave_up = []

                def serve(rq, cfgobj):
                    if gave_up:         # the listing of this directory never returns: do not wait again and again
                        return {"out": "", "exc": "Timeout", "log": []}
                    van.arm()
                    try:
                        r = c07.with_alarm(4, lambda: DRV.serve_once(cfgobj, DRV.s2b(rq["data"]), tls=rq["tls"]))
                        if r["secs"] > 3.5:
                            # the server's catch-all swallowed the alarm: the request did not return by itself
                            gave_up.append(1)
                            return {"out": r["out"], "exc": "Timeout", "log": r["log"][-2:]}
                        return {"out": r["out"], "exc": r["exc"], "log": r["log"][-2:]}
                    except c07.Timeout:
                        gave_up.append(1)
                        return {"out": "", "exc": "Timeout", "log": []}
                for rq in job.get("requests", []):
                    prot.append(serve(rq, w.config))
                out["protocols"][kind] = prot
                # the same listing asked for again within the lifetime of the directory cache
                rep = []
                if job.get("repeat_requests"):
                    over2 = {k: dict(v) for k, v in over.items()}
                    over2.setdefault("handlers.dir.DirHandler", {}).update(
                        {"cachetime": "180", "cachefile": ".cache.pygopherd." + kind})
                    w.spec["config"] = over2
                    w.configure()
                    for rq in job["repeat_requests"]:
                        rep.append([serve(rq, w.config), serve(rq, w.config)])
                out.setdefault("repeats", {})[kind] = rep
            if job.get("real_logger"):
                sys.stdout = saved_stdout
        return out
    finally:
        w.close()


def register(OPS, drv):
    global DRV
    DRV = drv
    c07.DRV = drv
    OPS["c12_faults"] = op_c12_faults
