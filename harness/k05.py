"""K05 — correspondence between Model/Request.v + Lib/Urlparse.v (evaluated inside Coq)
and the real protocol classes / urllib.parse of the interpreter pygopherd runs under.

    run_k05(chk, tier) -> (mismatch_count, err, details)

Called from harness/c05.py.  Every case is generated from chk.rng."""
import os
import sys

sys.path.insert(0, os.path.dirname(os.path.abspath(__file__)))
from common import coq_eval, coq_compute, coq_opt, impl_run_parallel, impl_run  # noqa: E402
import gen  # noqa: E402

IMPORTS = "Lib.Str Lib.Urlparse Model.ProtoId Model.Request Corr.K05"

PROTO = {"GopherProtocol": "PGopher", "SecureGopherProtocol": "PSGopher", "GopherPlusProtocol": "PGopherPlus",
         "SecureGopherPlusProtocol": "PSGopherPlus", "URLGopherPlus": "PUrlGopherPlus", "HTTPProtocol": "PHttp",
         "HTTPSProtocol": "PHttps", "WAPProtocol": "PWap", "GeminiProtocol": "PGemini", "SpartanProtocol": "PSpartan"}
CLS_OF = {"gopher": "GopherProtocol", "sgopher": "SecureGopherProtocol", "gopherplus": "GopherPlusProtocol",
          "sgopherplus": "SecureGopherPlusProtocol", "http": "HTTPProtocol", "https": "HTTPSProtocol",
          "wap": "WAPProtocol", "gemini": "GeminiProtocol", "spartan": "SpartanProtocol"}
HOST = "gopher.example"


def cps(l):
    """list of code points -> Gallina list N literal (typed, so that a shard made only of
    empty strings still has a type)"""
    if not l:
        return "(@nil N)"
    return "[" + ";".join(str(x) for x in l) + "]"


def cstr(s):
    return cps([ord(c) for c in s])


def cbytes(b):
    return cps(list(b))


def copt(l):
    return "None" if l is None else "(Some %s)" % cps(l)


# ----------------------------------------------------------------------------
# generators
# ----------------------------------------------------------------------------
SEL_ATOMS = ["a.txt", "dir1", "sp ace", "pct%41", "%zz", "%", "%4", "%4g", "%c3%A9", "%C3%a9", "%ff", "%FF%fe", "q?mark", "hash#x",
             "amp&er", "eq=ual", "plus+", "semi;colon", "pipe|/MBOX-MESSAGE/1", "a|b c", "café", "€", "\U0001f600",
             "\udcae", "\udcff\udcfe", "\udcc3", "tab\there", "cr\rx", "\u0085nel", " nbsp", " ls", " lead", "trail ",
             "trail ", "..", ".", "", "x/", "GEMINI-QUERY", "GEMINI-QUERYx", "wap", "wapx", "PYGOPHERD-HTTPPROTO-ICONS",
             "text.gif", "text.gif\n", "URL:http://x/", "%2F", "%2f..%2F", "%25%32%35", "a%0D%0Ab", "a%0ab", "\x00", "\x7f", "\x1f",
             "[", "]", "[::1]", "@", ":", "~tilde", "under_score", "quo\"te", "apos'", "<b>", "back\\slash", "%u00e9", "%E2%82%AC",
             "%F0%9F%98%80", "%ED%A0%80", "%C0%AF", "+", "a+b", "%2B"]
Q_ATOMS = ["needle", "two words", "a+b", "a%2Bb", "100%", "%zz", "café", "\udcae", "x&y", "k=v", "q?q", "h#h", "", " ", "  pad  ",
           "tab\tin", " ", "%41", "%C3%A9", "%ff", "\U0001f600", "semi;colon", "line\rcr", "<i>", "'", "\"", "\x00", "%26", "%3D",
           "a&searchrequest=b"]


def rand_selector(rng):
    n = rng.randrange(1, 4)
    parts = [rng.choice(SEL_ATOMS) for _ in range(n)]
    s = "/" + "/".join(parts)
    k = rng.random()
    if k < 0.08:
        s = s[1:]                    # no leading slash
    elif k < 0.16:
        s += "/"
    elif k < 0.20:
        s += "//"
    return s


def rand_query(rng):
    if rng.random() < 0.6:
        return rng.choice(Q_ATOMS)
    return rng.choice(Q_ATOMS) + rng.choice(["", " ", "&", "+", "%"]) + rng.choice(Q_ATOMS)


RAW_LINES = [
    # HTTP / WAP targets
    b"GET /a?b?c HTTP/1.0\r\n\r\n", b"GET /a?searchrequest=x&searchrequest=y HTTP/1.0\r\n\r\n",
    b"GET /a?x=1&searchrequest=a+b%20c HTTP/1.0\r\n\r\n", b"GET /a?searchrequest= HTTP/1.0\r\n\r\n",
    b"GET /a?searchrequest HTTP/1.0\r\n\r\n", b"GET /a?SEARCHREQUEST=x HTTP/1.0\r\n\r\n",
    b"GET /a?search%72equest=x HTTP/1.0\r\n\r\n", b"GET /a?+searchrequest=x HTTP/1.0\r\n\r\n",
    b"GET /a?searchrequest+=x HTTP/1.0\r\n\r\n", b"GET /a?searchrequest=x=y HTTP/1.0\r\n\r\n",
    b"GET /a?&&searchrequest=%ff&& HTTP/1.0\r\n\r\n", b"GET /a?searchrequest=x?searchrequest=y HTTP/1.0\r\n\r\n",
    b"GET /a?q?searchrequest=y HTTP/1.0\r\n\r\n", b"GET /a?searchrequest=%zz%4 HTTP/1.0\r\n\r\n",
    b"GET /a?searchrequest=a;searchrequest=b HTTP/1.0\r\n\r\n", b"GET /a?searchrequest=%C3%A9%c3%a9\xc3\xa9 HTTP/1.0\r\n\r\n",
    b"GET /a?searchrequest=\xff%ff HTTP/1.0\r\n\r\n",
    b"GET /wap HTTP/1.0\r\n\r\n", b"GET /wap/ HTTP/1.0\r\n\r\n", b"GET /wapx HTTP/1.0\r\n\r\n", b"GET /wap/wap/x HTTP/1.0\r\n\r\n",
    b"GET /wap?searchrequest=q HTTP/1.0\r\n\r\n", b"GET /%77ap/x HTTP/1.0\r\n\r\n", b"GET /wap%2Fx HTTP/1.0\r\n\r\n",
    b"GET /WAP/x HTTP/1.0\r\n\r\n", b"GET wap/x HTTP/1.0\r\n\r\n",
    b"GET /PYGOPHERD-HTTPPROTO-ICONS/text.gif HTTP/1.0\r\n\r\n", b"HEAD /PYGOPHERD-HTTPPROTO-ICONS/text.gif HTTP/1.0\r\n\r\n",
    b"GET /PYGOPHERD-HTTPPROTO-ICONS/text.gif%0A HTTP/1.0\r\n\r\n", b"GET /PYGOPHERD-HTTPPROTO-ICONS/text.gif%0A%0A HTTP/1.0\r\n\r\n",
    b"GET /PYGOPHERD-HTTPPROTO-ICONS/text.gif%0D HTTP/1.0\r\n\r\n", b"GET /PYGOPHERD-HTTPPROTO-ICONS/text.gif/ HTTP/1.0\r\n\r\n",
    b"GET /PYGOPHERD-HTTPPROTO-ICONS/nope.gif HTTP/1.0\r\n\r\n", b"GET /PYGOPHERD-HTTPPROTO-ICONS/ HTTP/1.0\r\n\r\n",
    b"GET /PYGOPHERD-HTTPPROTO-ICONS/%0A HTTP/1.0\r\n\r\n", b"GET PYGOPHERD-HTTPPROTO-ICONS/blank.gif HTTP/1.0\r\n\r\n",
    b"GET /PYGOPHERD-HTTPPROTO-ICONS/folder%2Egif HTTP/1.0\r\n\r\n", b"GET /wap/PYGOPHERD-HTTPPROTO-ICONS/binary.gif HTTP/1.0\r\n\r\n",
    b"GET /PYGOPHERD-HTTPPROTO-ICONS/generic.gif?x HTTP/1.0\r\n\r\n", b"GET /PYGOPHERD-HTTPPROTO-ICONS/x/../text.gif HTTP/1.0\r\n\r\n",
    b"GET  HTTP/1.0\r\n\r\n", b"GET ? HTTP/1.0\r\n\r\n", b"GET \t/a\t HTTP/1.0\r\n\r\n", b"GET /a\tb HTTP/1.0\r\n\r\n",
    b"GET /a\xc2\xa0 HTTP/1.0\r\n\r\n", b"GET \xc2\x85/a HTTP/1.0\r\n\r\n", b"GET /%20a%20 HTTP/1.0\r\n\r\n",
    b"GET /a%2F HTTP/1.0\r\n\r\n", b"GET /a/%2F HTTP/1.0\r\n\r\n", b"GET // HTTP/1.0\r\n\r\n", b"GET /// HTTP/1.0\r\n\r\n",
    b"GET /caf\xc3\xa9%c3%a9\xe9 HTTP/1.0\r\n\r\n", b"GET /%e2%82\xac HTTP/1.0\r\n\r\n", b"GET /\xe2%82%ac HTTP/1.0\r\n\r\n",
    b"GET", b"GET\r\n", b"GET /a", b"GET /a HTTP/1.0", b"GET /a b HTTP/1.0\r\n", b"\r\n", b"",
    # Gopher family
    b"/a.txt\r\n", b"a.txt\r\n", b"\r\n", b"\t\r\n", b"/a\tq\r\n", b"/a\t q \t+\r\n", b"/a\t+\r\n", b"/a\t!\r\n", b"/a\t$\r\n", b"/a\t\t+\r\n",
    b"/a\tq\t+\tx\r\n", b" /a \r\n", b"\xc2\xa0/a\xc2\x85\r\n", b"/a/\r\n", b"/a//\r\n", b"//\r\n", b"/\r\n", b"/a\rb\r\n", b"/a\r\r\n",
    b"/a\x00b\r\n", b"/a.txt", b"/a\tq", b"/\xff\xfe\t\xff\r\n", b"/x\t+x\r\n", b"/x\tq\t$y\r\n", b"/x\t\x1c\t+\r\n",
    # Gemini
    b"gemini://h\r\n", b"gemini://h/\r\n", b"gemini://h?q\r\n", b"gemini://h#f\r\n", b"gemini://h/a?b#c\r\n", b"gemini://h/a#b?c\r\n",
    b"gemini://h/a;p?q#f\r\n", b"gemini://h/a?b?c\r\n", b"gemini://h/a\tb\r\n", b"gemini://h/a\rb\r\n", b"gemini://h/ a \r\n",
    b"gemini://h/a \x1f\r\n", b"gemini://h/a\xc2\xa0\r\n", b"gemini://[::1]/x\r\n", b"gemini://[::1/x\r\n", b"gemini://::1]/x\r\n",
    b"gemini://[zz]/x\r\n", b"gemini://[v1.x]/x\r\n", b"gemini://[1.2.3.4]/x\r\n", b"gemini://h/[\r\n", b"gemini://h?[\r\n",
    b"gemini://\xc3\xa9/x\r\n", b"gemini://\xe2\x84\x80/x\r\n", b"gemini://\xef\xbc\x8f/x\r\n", b"gemini://u:p@h:1965/x\r\n",
    b"gemini://h/GEMINI-QUERY\r\n", b"gemini://h/GEMINI-QUERY?x\r\n", b"gemini://h/GEMINI-QUERY/a.txt?two%20words\r\n",
    b"gemini://h/GEMINI-QUERY/a.txt?a?b\r\n", b"gemini://h/GEMINI-QUERYx\r\n", b"gemini://h/GEMINI-QUERYx?y\r\n",
    b"gemini://h/%47EMINI-QUERY/x\r\n", b"gemini://h/gemini-query/x\r\n", b"gemini://h/GEMINI-QUERY/caf\xc3\xa9?\xff\r\n",
    b"gemini://h/GEMINI-QUERY/?#\r\n", b"gemini://h/GEMINI-QUERY/#?x\r\n", b"gemini://h/GEMINI-QUERY/x?%0D%0A\r\n",
    b"gemini://h/a%0D%0Ab\r\n", b"gemini://h/%zz%4\r\n", b"gemini://h//\r\n", b"gemini://h//a//\r\n", b"gemini:///a\r\n", b"gemini://\r\n",
    b"gemini://?\r\n", b"gemini://#\r\n", b"gemini://h/a?%ff%C3%A9\r\n", b"gemini://h/a?+\r\n", b"gemini://h/\xff?\xfe\r\n",
    b"gemini://h/a.txt", b"gemini://h/a.txt\n", b"gemini://h/a.txt \t\r\n", b"\x01gemini://h/a\r\n", b" gemini://h/a\r\n",
    b"GEMINI://h/a\r\n", b"Gemini://H/A\r\n", b"gem\tini://h/a\r\n", b"http://h/a;p\r\n", b"http://h/a;p/b;q?x\r\n", b"ftp://h/;\r\n",
    b"//h/a\r\n", b"/a/b\r\n", b"a:b\r\n", b"1a:b\r\n", b"a+.-1:b\r\n", b":b\r\n", b"a b:c\r\n", b"\xc3\xa9:x\r\n", b"tel:1;2\r\n", b"sip:a;b/c;d\r\n",
    # Spartan
    b"h / 0\r\n", b"h /a.txt 0\r\n", b"h a.txt 0\r\n", b"h /p 5\r\nabcdefg", b"h /p 0007\r\nabcdefghij", b"h /p 3\r\n\xff\xfe\xc3",
    b"h /p 99999999999999999999\r\n", b"h /p 9223372036854775807\r\nxy", b"h /p 9223372036854775808\r\nxy", b"h /p 18446744073709551616\r\n",
    b"h  /p 0\r\n", b"h /p 0 \r\n", b" h /p 0\r\n", b"h /p%20q 0\r\n", b"h /p\tq 0\r\n", b"h /%ff 2\r\n\r\n", b"h /p 2\r\nx", b"h /p 1\r\n",
    b"h /p x\r\n", b"h /p -1\r\n", b"h /p +1\r\nz", b"h /p 1_0\r\nabcdefghijkl", b"h /p\r\n", b"h\r\n", b"h /a?b 0\r\n", b"h /a#b 0\r\n",
    b"h /GEMINI-QUERY/x 0\r\n", b"h /%2F 0\r\n", b"h // 0\r\n",
]


def route_cases(chk, tier):
    """-> list of (waptop, mode, clsname_or_None, tls, data bytes)"""
    rng = chk.rng
    n_sel = 40 if tier == "quick" else 300
    out = []
    sels = [rand_selector(rng) for _ in range(n_sel)]
    sels += ["/", "", "/a.txt", "/dir1/", "/mail.mbox|/MBOX-MESSAGE/1", "/GEMINI-QUERY.txt", "/wapfile.txt"]
    for s in sels:
        for proto in gen.PROTOCOLS:
            q = rand_query(rng) if rng.random() < 0.5 else None
            layers = rng.choice([1, 1, 2])
            try:
                data, tls = gen.request_bytes(proto, s, layers=layers, gplus=rng.choice("+!$"), search=q,
                                              force_encode=rng.random() < 0.15)
            except UnicodeEncodeError:
                continue
            if rng.random() < 0.2 and proto in ("http", "https", "wap", "gemini", "spartan"):
                # mixed-case hex: lower-case the escapes of the first line only
                line, sep, rest = data.partition(b"\r\n")
                low = bytearray(line)
                i = 0
                while i < len(low):
                    if low[i] == 0x25 and i + 2 < len(low) and rng.random() < 0.7:
                        low[i + 1:i + 3] = bytes(low[i + 1:i + 3]).lower()
                        i += 3
                    else:
                        i += 1
                if proto in ("http", "https", "wap"):
                    low = bytes(low).replace(b" http/1.0", b" HTTP/1.0")
                data = bytes(low) + sep + rest
            waptop = "/wap"
            out.append((waptop, "e2e", None, tls, data))
            out.append((waptop, "direct", CLS_OF[proto], tls, data))
    for line in RAW_LINES:
        for tls in (False, True):
            out.append(("/wap", "e2e", None, tls, line))
        for cls in PROTO:
            out.append(("/wap", "direct", cls, None, line))
    # other WAP prefixes (the prefix is configuration)
    for waptop in ("", "/w", "/wap/deck", "/wap~1", "wap"):
        for t in (b"/wap/x", b"/w/x", b"/wap/deck/x", b"/wap~1/x", b"wap/x", b"/x", b"/wap/deck", b"", b"/wap/deck?searchrequest=q"):
            out.append((waptop, "direct", "WAPProtocol", None, b"GET " + t + b" HTTP/1.0\r\n\r\n"))
    # the same with random noise
    for _ in range(60 if tier == "quick" else 600):
        k = rng.random()
        if k < 0.3:
            raw = bytes(rng.choice(b"GET HTP/1.0?=&%41+ \t/wap#;:[]gemini\xc3\xa9\xff") for _ in range(rng.randrange(0, 40)))
        elif k < 0.6:
            raw = b"gemini://" + bytes(rng.choice(b"h/?#;%41[]: \t@\xc3\xa9GEMINI-QUERY") for _ in range(rng.randrange(0, 30)))
        elif k < 0.8:
            raw = b"GET /" + bytes(rng.choice(b"a?&=+%41searchrequest/wap\xff") for _ in range(rng.randrange(0, 40))) + b" HTTP/1.0"
        else:
            raw = b"h /" + bytes(rng.choice(b"a%41/ ?\xff") for _ in range(rng.randrange(0, 12))) + b" " + str(rng.choice([0, 1, 3, 10])).encode()
        data = raw + b"\r\n" + bytes(rng.randrange(256) for _ in range(rng.randrange(0, 6)))
        out.append(("/wap", "e2e", None, rng.random() < 0.5, data))
        out.append(("/wap", "direct", rng.choice(list(PROTO)), None, data))
    return out


URL_ALPHA = list(":/?#[];@ \t\r\n\x00\x1f%aZ1+-.=&") + ["é", "℀", "／", "\udc80", "\U0001f600", "//", "://", "gemini", "http", "tel"]


def urlparse_inputs(chk, tier):
    rng = chk.rng
    n = 1500 if tier == "quick" else 12000
    out = [[ord(c) for c in line.decode("utf-8", "surrogateescape")] for line in RAW_LINES]
    for _ in range(n):
        out.append([ord(c) for c in "".join(rng.choice(URL_ALPHA) for _ in range(rng.randrange(0, 14)))])
    return out


QS_ALPHA = list("&=+%;? aZ4g1f") + ["searchrequest", "searchrequest=", "&searchrequest=", "%73earchrequest", "%zz", "%C3%A9", "%ff", "é",
                                  "\udcae", "\U0001f600", "\ud800", "%2B", "%26", "%3D"]


def qs_inputs(chk, tier):
    rng = chk.rng
    n = 1200 if tier == "quick" else 10000
    out = []
    for _ in range(n):
        out.append([ord(c) for c in "".join(rng.choice(QS_ALPHA) for _ in range(rng.randrange(0, 10)))])
    return out


def routed_lit(r):
    k = r[0]
    if k == "ToHandler":
        return "(ToHandler %s %s)" % (cps(r[1]), copt(r[2]))
    if k == "Icon":
        return "(Icon %s)" % cps(r[1])
    if k == "GeminiRedirect":
        return "(GeminiRedirect %s)" % cps(r[1])
    if k in ("GeminiBad", "GeminiInput", "SpartanTooLarge", "Crash"):
        return k
    return None


def run_k05(chk, tier):
    """-> (mismatch_count, err, details)"""
    details = {}
    errs = []
    nmis = 0
    # ---- route ----
    rc = route_cases(chk, tier)
    by_waptop = {}
    for i, c in enumerate(rc):
        by_waptop.setdefault(c[0], []).append(i)
    jobs = []
    order = []
    for waptop, idxs in by_waptop.items():
        for k in range(0, len(idxs), 400):
            part = idxs[k:k + 400]
            jobs.append({"op": "k05_route", "waptop": waptop,
                         "cases": [{"mode": rc[i][1], "cls": rc[i][2], "tls": bool(rc[i][3]), "data": gen.lat(rc[i][4])} for i in part]})
            order.append(part)
    res = impl_run_parallel(jobs)
    cases = []
    meta = []
    skipped = {"NotAccepted": 0, "NoProtocol": 0, "Other": 0}
    multi_calls = 0
    for part, r in zip(order, res):
        if not r["ok"]:
            raise RuntimeError(r["err"] + "\n" + r.get("tb", ""))
        for i, (cls, routed) in zip(part, r["res"]):
            waptop, mode, _, tls, data = rc[i]
            if routed[0] in skipped:
                skipped[routed[0]] += 1
                if routed[0] == "Other":
                    details.setdefault("unclassified", []).append({"cls": cls, "mode": mode, "data": gen.lat(data), "reply": routed[1]})
                continue
            if routed[0] == "ToHandler" and routed[3] != 1:
                multi_calls += 1
            lit = routed_lit(routed)
            cases.append("((%s, %s, %s), %s)" % (PROTO[cls], cstr(waptop), cbytes(data), lit))
            meta.append({"mode": mode, "cls": cls, "waptop": waptop, "tls": tls, "data": gen.lat(data), "impl": routed})
            chk.count(("k05", mode, cls, waptop, data), nontrivial=True)
    m1, e1, n1 = coq_eval("C05", "k05_route", IMPORTS, "chk_route", cases, shard=300)
    if e1:
        errs.append(e1)
    nmis += len(m1)
    details["route"] = {"cases": len(cases), "mismatches": len(m1), "skipped": skipped, "gethandler_called_more_than_once": multi_calls,
                        "by_protocol": {c: sum(1 for x in meta if x["cls"] == c) for c in PROTO},
                        "by_mode": {m: sum(1 for x in meta if x["mode"] == m) for m in ("direct", "e2e")},
                        "first_mismatches": [meta[i] for i in m1[:5]]}
    if details.get("unclassified"):
        # a reply that is neither a handler call nor one of the modelled direct replies
        nmis += len(details["unclassified"])
    # branch coverage, measured by the model
    rcov, outcov = coq_compute("C05", "k05_tags", IMPORTS,
                               "let t := map tag_route cases in map (fun k => N.of_nat (List.length (filter (N.eqb k) t))) [0;1;2;3;4;5;6;7;8]",
                               pre="Definition cases := [\n" + ";\n".join(cases) + "\n].")
    import re
    mt = re.search(r"=\s*\[(.*?)\]", outcov, re.S)
    if mt:
        nums = [int(x.strip().replace("%N", "")) for x in mt.group(1).split(";") if x.strip()]
        details["route"]["model_branches"] = dict(zip(
            ["handler_no_search", "handler_with_search", "icon", "gemini_bad", "gemini_input", "gemini_redirect", "spartan_too_large", "crash", "out_of_scope_spartan_int"], nums))
    # ---- urlparse ----
    ui = urlparse_inputs(chk, tier)
    qi = qs_inputs(chk, tier)
    r = impl_run([{"op": "k05_urlparse", "inputs": ui}, {"op": "k05_qs", "inputs": qi}])
    for x in r:
        if not x["ok"]:
            raise RuntimeError(x["err"] + "\n" + x.get("tb", ""))
    ucases = []
    nval = 0
    for s, o in zip(ui, r[0]["res"]):
        if o is None:
            nval += 1
            ucases.append("(%s, None)" % cps(s))
        else:
            ucases.append("(%s, Some ((%s, %s), (%s, %s), (%s, %s)))" % ((cps(s),) + tuple(cps(x) for x in o)))
        chk.count(("k05u", tuple(s)), nontrivial=True)
    m2, e2, n2 = coq_eval("C05", "k05_urlparse", IMPORTS, "chk_urlparse", ucases, shard=600)
    if e2:
        errs.append(e2)
    nmis += len(m2)
    details["urlparse"] = {"cases": len(ucases), "value_errors": nval, "mismatches": len(m2),
                           "first_mismatches": [{"input": ui[i], "impl": r[0]["res"][i]} for i in m2[:5]]}
    qcases, lcases = [], []
    for s, (first, pairs) in zip(qi, r[1]["res"]):
        qcases.append("(%s, %s)" % (cps(s), copt(first)))
        lcases.append("(%s, [%s])" % (cps(s), "; ".join("(%s, %s)" % (cps(a), cps(b)) for a, b in pairs)))
        chk.count(("k05q", tuple(s)), nontrivial=first is not None)
    m3, e3, n3 = coq_eval("C05", "k05_qs", IMPORTS, "chk_qs", qcases, shard=600)
    m4, e4, n4 = coq_eval("C05", "k05_qsl", IMPORTS, "chk_qsl", lcases, shard=600)
    for e in (e3, e4):
        if e:
            errs.append(e)
    nmis += len(m3) + len(m4)
    details["parse_qs"] = {"cases": len(qcases), "with_searchrequest": sum(1 for _, (f, _) in zip(qi, r[1]["res"]) if f is not None),
                           "mismatches": len(m3) + len(m4),
                           "first_mismatches": [{"input": qi[i], "impl": r[1]["res"][i]} for i in (m3 + m4)[:5]]}
    # ---- the model's client against the harness' client (gen.request_bytes) ----
    lcases = []
    rng = chk.rng
    for _ in range(150 if tier == "quick" else 1500):
        s = rand_selector(rng)
        if not s.startswith("/"):
            continue
        for proto in gen.PROTOCOLS:
            try:
                data, _ = gen.request_bytes(proto, s, gplus="+")
            except UnicodeEncodeError:
                continue
            if b"\n" in gen.sel_bytes(s):
                continue
            line = data.split(b"\n", 1)[0] + b"\n"
            if proto in ("http", "https", "wap"):
                pass
            lcases.append("((%s, %s, %s, %s), %s)" % (PROTO[CLS_OF[proto]], cstr("/wap"), cstr(HOST), cbytes(gen.sel_bytes(s)), cbytes(line)))
    m5, e5, n5 = coq_eval("C05", "k05_link", IMPORTS, "chk_link", lcases, shard=600)
    if e5:
        errs.append(e5)
    nmis += len(m5)
    details["link_client"] = {"cases": len(lcases), "mismatches": len(m5), "first_mismatches": [lcases[i][:300] for i in m5[:5]]}
    return nmis, ("\n".join(errs) if errs else None), details


if __name__ == "__main__":
    import json
    from common import Check
    tier = sys.argv[1] if len(sys.argv) > 1 else "quick"
    chk = Check("C05", tier)
    n, err, det = run_k05(chk, tier)
    print(json.dumps(det, indent=1, default=repr)[:6000])
    print("mismatches:", n, "err:", err)
    sys.exit(1 if (n or err) else 0)
