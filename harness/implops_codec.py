"""Implementation-side operations for the codec correspondence (KCodec):
the real urllib.parse functions and the real UTF-8/surrogateescape codec of the
interpreter pygopherd runs under.  bytes cross JSON as latin-1 strings; a str
that may hold arbitrary surrogates crosses as a list of code points (JSON would
merge an adjacent high+low surrogate pair into one astral character); None
stands for UnicodeEncodeError."""
import urllib.parse


def register(OPS, drv):
    b2s, s2b = drv.b2s, drv.s2b

    def S(cps):
        return "".join(map(chr, cps))

    def L(s):
        return [ord(c) for c in s]

    def op_codec(job):
        fn = job["fn"]
        ins = job["inputs"]
        out = []
        if fn == "bytes":            # b -> [decode, quote_from_bytes]
            for x in ins:
                b = s2b(x)
                out.append([b.decode("utf-8", "surrogateescape"), urllib.parse.quote_from_bytes(b)])
        elif fn == "decode":
            for x in ins:
                out.append(s2b(x).decode("utf-8", "surrogateescape"))
        elif fn == "quote_from_bytes":   # [safe(bytes), b]
            for safe, x in ins:
                out.append(urllib.parse.quote_from_bytes(s2b(x), safe=s2b(safe)))
        elif fn == "quote_bytes_via_quote":   # quote(bytes) as gemini/spartan call it: [b]
            for x in ins:
                out.append(urllib.parse.quote(s2b(x)))
        elif fn == "encode":         # code point list -> bytes | None
            for s in map(S, ins):
                try:
                    out.append(b2s(s.encode("utf-8", "surrogateescape")))
                except UnicodeEncodeError:
                    out.append(None)
        elif fn == "quote_str":      # [safe(code points), s(code points)]
            for safe, s in ins:
                try:
                    out.append(urllib.parse.quote(S(s), safe=S(safe), errors="surrogateescape"))
                except UnicodeEncodeError:
                    out.append(None)
        elif fn == "unquote_ascii":  # ASCII str -> [unquote_to_bytes, unquote as code points]
            for s in ins:
                out.append([b2s(urllib.parse.unquote_to_bytes(s)),
                            L(urllib.parse.unquote(s, errors="surrogateescape"))])
        elif fn == "unquote_any":    # code point list -> code point list
            for s in map(S, ins):
                out.append(L(urllib.parse.unquote(s, errors="surrogateescape")))
        elif fn == "unquote_to_bytes":   # bytes -> bytes
            for x in ins:
                out.append(b2s(urllib.parse.unquote_to_bytes(s2b(x))))
        elif fn == "oracle":
            # round trips stated on the implementation alone (independent of the model);
            # returns the inputs on which one fails
            bad = []
            for x in ins:
                b = s2b(x)
                s = b.decode("utf-8", "surrogateescape")
                if s.encode("utf-8", "surrogateescape") != b:
                    bad.append(["codec", x])
                for safe in ("/", ""):
                    q = urllib.parse.quote_from_bytes(b, safe=safe)
                    if urllib.parse.unquote_to_bytes(q) != b:
                        bad.append(["quote_from_bytes", x])
                    if urllib.parse.quote(s, safe=safe, errors="surrogateescape") != q:
                        bad.append(["quote-str-vs-bytes", x])
                    if urllib.parse.unquote(q, errors="surrogateescape") != s:
                        bad.append(["unquote(quote)", x])
                    if any(not (c.isascii() and (c.isalnum() or c in "_.-~%" or c in safe)) for c in q):
                        bad.append(["charset", x])
            out = bad
        else:
            raise ValueError("unknown codec fn " + fn)
        return out

    OPS["codec"] = op_codec
