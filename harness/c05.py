"""C05 — listings only advertise what the server will serve (link closure)."""
from common import Check
import gen
import pgsite
import trees
import validators as V
from k05 import run_k05   # [agentH] K05: Model/Request.v against the real protocol classes


def run(tier):
    chk = Check("C05", tier)
    chk.proofs(extra_files=["Corr/K05.v"])   # [agentH]
    found = False
    rng = chk.rng
    ntrees = 10 if tier == "thorough" else 3
    specs = []
    for i in range(ntrees):
        specs.append({"tree": trees.rich_tree(rng, hostile=True, part=(i % 3, 3)), "config": trees.SITE_CONFIG})
    all_pages = pgsite.crawl_worlds(specs)
    nlinks = 0
    bad = 0
    for wi, pages in enumerate(all_pages):
        for p in pages:
            proto = p["proto"]
            out = p["out"].encode("latin-1")
            if p["parent"] is None:
                continue   # the root request itself
            nlinks += 1
            chk.count((wi, proto, p["selector"]), nontrivial=True)
            why = None
            try:
                v = V.validate(proto, out)
                if v["kind"] != "success":
                    why = "answered with an error reply"
                elif p["type"] == "1":
                    try:
                        V.parse_gopher_menu(v["body"])
                    except V.Malformed as e:
                        why = "advertised as a menu but the reply is not a menu: %s" % e
                elif p["type"] not in (None, "7", "1") and proto.startswith(("gopher", "sgopher")):
                    pass
            except V.Malformed as e:
                why = "malformed reply: %s" % e
            if p["exc"]:
                why = "exception %s" % p["exc"]
            if why:
                bad += 1
                found = True
                chk.violation({"what": "a local link advertised in a listing is not served: " + why, "protocol": proto,
                               "listing_selector": p["parent"], "link_selector_latin1": p["selector"], "advertised_type": p["type"],
                               "request_latin1": p["request"], "response_latin1": p["out"][:300], "log": p["log"][-3:],
                               "tree": specs[wi]["tree"]}, tag=f"dead-link:{proto}")
    chk.sample({"protocol": all_pages[0][5]["proto"], "followed_link": all_pages[0][5]["selector"],
                "request_latin1": all_pages[0][5]["request"], "response_head": all_pages[0][5]["out"][:80]})
    chk.coverage["oracle"] = {"trees": ntrees, "links_followed": nlinks, "dead_links": bad, "exhaustive_crawl_per_tree": True}
    chk.coverage["rule"] = ("generated trees with hostile names (spaces, reserved URL characters, non-UTF-8 bytes, HTML metacharacters), "
                            "mailboxes, Maildirs, gophermaps, UMN link files; every local link reachable from / is followed in the same "
                            "protocol's request syntax, for all 9 protocol variants; each followed link is a non-trivial case")
    # ---- [agentH] correspondence K05 (request side of every protocol, urlparse, parse_qs) ----
    k_mism, k_err, k_det = run_k05(chk, tier)
    chk.coverage["k05"] = k_det
    if k_mism or k_err:
        chk.correspondence_broken("K05 (Model/Request.v vs protocols/*.py handle())",
                                  {"mismatches": k_mism, "error": k_err, "details": k_det}, found)
    # ---- [agentH] end ----
    chk.finish_proofs(found)
    return chk.finish("proof")
