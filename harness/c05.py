"""C05 — listings only advertise what the server will serve (link closure)."""
import email
import html
import os
import re

from common import Check, impl_run_parallel
import c05gen
import gen
import pgsite
import trees
import validators as V
from k05 import run_k05   # [agentH] K05: Model/Request.v against the real protocol classes


def u8(s):
    """str -> the latin-1 transport form of its UTF-8 bytes"""
    return s.encode("utf-8").decode("latin-1")


# valid UTF-8 names that a careless "clean-up" of a menu line would alter: format and invisible characters, bidi
# controls, combining marks and the two normal forms of one letter, variation selectors, astral characters,
# C0/C1 controls that are not TAB/CR/LF.  (No blank at either end: the Gopher syntax cannot express that.)
UNICODE_NAMES = [
    "zw\u200cnj.txt", "zw\u200dj.txt", "soft\u00adhyphen.txt", "lrm\u200emark.txt", "rlm\u200fmark.txt", "bom\ufeffinside.txt",
    "\ufeffleading-bom.txt", "rlo\u202eevil.txt", "lre\u202a\u202cpdf.txt", "iso\u2066\u2069late.txt", "wj\u2060oiner.txt",
    "cafe\u0301-nfd.txt", "caf\u00e9-nfc.txt", "a\u030a\u0323stack.txt", "\u0301leading-combining.txt", "heart\u2764\ufe0f.txt",
    "text\u2764\ufe0estyle.txt", "family\U0001f468\u200d\U0001f469\u200d\U0001f467.txt", "flag\U0001f1e9\U0001f1ea.txt",
    "astral\U0001d54f\U00010348.txt", "tag\U000e0041\U000e007f.txt", "ls\u2028ps\u2029.txt", "nbsp\u00a0in.txt", "nel\u0085in.txt",
    "c0\x01\x1bctl.txt", "del\x7fchar.txt", "c1\u009b\u0090ctl.txt", "ideo\u3000space.txt", "hangul\u1100\u1161\u11a8.txt",
    "\u212bngstrom-\u00c5.txt", "fi\ufb01ligature.txt", "arabic\u0644\u0627\u200c\u0644.txt", "\u0e01\u0e33thai.txt",
    "noncharacter\ufffe\uffff.txt", "pua\ue000\U000f0000.txt", "fullwidth\uff0fslash.txt", "kelvin\u212a.txt",
]


def unicode_tree():
    t = [{"path": "uni", "kind": "dir"}]
    for nm in UNICODE_NAMES:
        t.append({"path": u8("uni/" + nm), "data": u8("content of " + nm + "\n")})
    # the same characters in directory names, and in names reached through a gophermap and a link file
    t.append({"path": u8("uni/d\u200di\u00adr\u202e"), "kind": "dir"})
    t.append({"path": u8("uni/d\u200di\u00adr\u202e/in\ufeffner\u0301.txt"), "data": "inner\n"})
    t.append({"path": "uni/gm", "kind": "dir"})
    t.append({"path": u8("uni/gm/z\u200bw.txt"), "data": "zero width space\n"})
    t.append({"path": "uni/gm/gophermap", "data": u8("0relative\tz\u200bw.txt\n0absolute\t/uni/gm/z\u200bw.txt\n"
                                                     "0named \u202egnp.exe\t/uni/rlo\u202eevil.txt\n1up\t/uni\n")})
    t.append({"path": "uni/lk", "kind": "dir"})
    t.append({"path": u8("uni/lk/t\u2060x.txt"), "data": "word joiner\n"})
    t.append({"path": "uni/lk/.Links", "data": u8("Name=joined\nType=0\nPath=./t\u2060x.txt\n\n"
                                                  "Name=abs\nType=0\nPath=/uni/lk/t\u2060x.txt\nHost=+\nPort=+\n")})
    return t


# URL: items are local links of type h: the client sends the selector back and gets the redirect page
URL_SELECTORS = ["URL:http://www.example.com/", "URL:http://www.example.com/a//b", "/URL:http://www.example.com/x",
                 "URL:https://example.org/p?q=1&r=2#frag", "URL:ftp://ftp.example.org//pub//file.txt", "/URL:gopher://other.example/1/dir",
                 "URL:http://[2001:db8::1]:8080/", "URL:http://www.example.com/a%20b/c%2F%2Fd",
                 "URL:http://www.example.com/trailing/", "URL:http://www.example.com/caf\u00e9"]


def url_tree():
    gm = ["ilinks to the web"]
    lk = []
    for i, s in enumerate(URL_SELECTORS):
        gm.append("hweb %d\t%s" % (i, s))
        lk.append("Name=link %d\nType=h\nPath=%s\nNumb=%d\n" % (i, s, i + 1))
    return [{"path": "web", "kind": "dir"}, {"path": "web/gophermap", "data": u8("\n".join(gm) + "\n")},
            {"path": "weblinks", "kind": "dir"}, {"path": "weblinks/plain.txt", "data": "x\n"},
            {"path": "weblinks/.Links", "data": u8("\n".join(lk))}]


# menu entries that spell out a host and a port: this server's own name (exact, other case, with the root dot) with other
# ports — another daemon on the same machine —, this server's port on other hosts, and the genuinely local spellings.
# A view may render such an entry as a local link only if it then serves it.
SAMEHOST = [("gopher.example", "7070"), ("GOPHER.EXAMPLE", "7070"), ("Gopher.Example", "105"), ("gopher.example", "0"), ("gopher.example", "700"),
            ("gopher.example.", "7070"), ("www.gopher.example", "70"), ("gopher.example.org", "70"), ("other.example", "70"), ("localhost", "70"),
            ("127.0.0.1", "7070"), ("gopher.example", "70"), ("gopher.example", "070"), ("GOPHER.example", "70"), ("gopher.example.", "70")]


def samehost_tree():
    gm, lk = ["ientries with a host and a port of their own"], []
    for i, (host, port) in enumerate(SAMEHOST):
        here = int(port) == 70 and host.lower().rstrip(".") == "gopher.example"
        # what lives on another daemon or machine does not exist here; the spellings of this server point at real objects
        sel = ("/dir1" if i % 2 else "/a.txt") if here else ("/software-%d" % i if i % 2 else "/pub/readme-%d.txt" % i)
        typ = "1" if sel.startswith(("/dir1", "/software")) else "0"
        gm.append("%sentry %d on %s:%s\t%s\t%s\t%s" % (typ, i, host, port, sel, host, port))
        lk.append("Name=link %d on %s:%s\nType=%s\nPath=%s\nHost=%s\nPort=%s\nNumb=%d\n" % (i, host, port, typ, sel, host, port, i + 1))
    lk.append("Name=this host, another port\nType=1\nPath=/software-plus\nHost=+\nPort=7071\n")
    lk.append("Name=another host, this port\nType=0\nPath=/pub/elsewhere.txt\nHost=elsewhere.example\nPort=+\n")
    lk.append("Name=this host and port\nType=0\nPath=/a.txt\nHost=+\nPort=+\n")
    return [{"path": "daemons", "kind": "dir"}, {"path": "daemons/gophermap", "data": "\n".join(gm) + "\n"},
            {"path": "daemonlinks", "kind": "dir"}, {"path": "daemonlinks/here.txt", "data": "x\n"},
            {"path": "daemonlinks/.Links", "data": "\n".join(lk)}]


def symlink_tree():
    """symbolic links of every kind; -> (tree entries, entries outside the root)"""
    t = [{"path": "links", "kind": "dir"}, {"path": "links/real.txt", "data": "real\n"}, {"path": "links/realdir", "kind": "dir"},
         {"path": "links/realdir/inside.txt", "data": "inside\n"}, {"path": "links/realdir/deeper", "kind": "dir"},
         {"path": "links/realdir/deeper/d.txt", "data": "d\n"},
         {"path": "links/to-file.txt", "kind": "symlink", "target": "real.txt"},
         {"path": "links/to-dir", "kind": "symlink", "target": "realdir"},
         {"path": "links/to-dir-slash", "kind": "symlink", "target": "realdir/"},
         {"path": "links/up-and-down.txt", "kind": "symlink", "target": "../a.txt"},
         {"path": "links/dotted.txt", "kind": "symlink", "target": "./realdir/../real.txt"},
         {"path": "links/chain1.txt", "kind": "symlink", "target": "chain2.txt"},
         {"path": "links/chain2.txt", "kind": "symlink", "target": "realdir/chain3.txt"},
         {"path": "links/realdir/chain3.txt", "kind": "symlink", "target": "inside.txt"},
         {"path": "links/realdir/back-up", "kind": "symlink", "target": ".."},
         {"path": "links/out-file.txt", "kind": "symlink", "target": "../../outside-notes.txt"},
         {"path": "links/out-dir", "kind": "symlink", "target": "../../outside-dir"},
         {"path": "links/out-abs.txt", "kind": "symlink", "target": "/etc/hostname" if os.path.exists("/etc/hostname") else "/etc/passwd"},
         {"path": "links/out-abs-dir", "kind": "symlink", "target": "/usr/share"},
         {"path": "links/dangling.txt", "kind": "symlink", "target": "no-such-target.txt"},
         {"path": "links/dangling-dir", "kind": "symlink", "target": "../../no-such-dir"},
         {"path": "links/loop.txt", "kind": "symlink", "target": "loop.txt"},
         {"path": "links/mbox-link.mbox", "kind": "symlink", "target": "../mail.mbox"}]
    outside = [{"path": "outside-notes.txt", "data": "kept outside the root\n"}, {"path": "outside-dir", "kind": "dir"},
               {"path": "outside-dir/o.txt", "data": "o\n"}]
    return t, outside


# one-character directory names that are also UMN item types, addressed by relative paths in link files and gophermaps
TYPE_CHARS = "0123456789+gIThisM;:<P"


def typechar_tree():
    t = [{"path": "journal", "kind": "dir"}, {"path": "journalmap", "kind": "dir"}]
    lk, gm = [], ["iissues"]
    for i, c in enumerate(TYPE_CHARS):
        for base in ("journal", "journalmap"):
            t.append({"path": "%s/%s" % (base, c), "kind": "dir"})
            t.append({"path": "%s/%s/editorial.txt" % (base, c), "data": "editorial %s\n" % c})
        lk.append("Name=editorial of %s\nType=0\nPath=%s/editorial.txt\nNumb=%d\n" % (c, c, 2 * i + 1))
        lk.append("Name=issue %s\nType=1\nPath=%s\nNumb=%d\n" % (c, c, 2 * i + 2))
        gm.append("0editorial of %s\t%s/editorial.txt" % (c, c))
        gm.append("1issue %s\t%s" % (c, c))
    t.append({"path": "journal/.Links", "data": "\n".join(lk)})
    t.append({"path": "journalmap/gophermap", "data": "\n".join(gm) + "\n"})
    return t


def judge_page(p):
    """why a followed link is not what the listing advertised (None when it is)"""
    proto = p["proto"]
    out = p["out"].encode("latin-1")
    why = None
    try:
        v = V.validate(proto, out)
        if v["kind"] != "success":
            why = "answered with an error reply"
        elif p["type"] == "1":
            try:
                V.parse_gopher_menu(v["body"])
            except V.Malformed as e:
                why = "advertised as a menu but the reply is not a menu: %s" % e
        elif re.match(r"/?URL:", p["selector"]):
            url = re.match(r"/?URL:(.*)$", p["selector"], re.S).group(1)
            url = url.rstrip("/")     # the selector loses one trailing slash on the way (slashnormalize); the page must still lead there
            if html.escape(url).encode("latin-1") not in v["body"] and url.encode("latin-1") not in v["body"]:
                why = "the reply to a URL: link does not lead to %r" % url
    except V.Malformed as e:
        why = "malformed reply: %s" % e
    if p["exc"]:
        why = "exception %s" % p["exc"]
    return why


def _tokens(text):
    return sorted(set(c05gen.TOKEN.findall(text)))


def judge_message(p):
    """A folder listing showed `name` for this link: why the document served is not that message (None when it is).
    Generated messages carry a unique token in their Subject and `body-of-<token>` as the first body line; a message the
    generator did not plan (a fragment one reader splits off) has no token in its title and must have none in its Subject."""
    v = V.validate(p["proto"], p["out"].encode("latin-1"))
    body = v["body"].replace(b"\r\n", b"\n")
    if p["proto"] == "wap":
        # a text document is shown as one WML card: escaped lines, a new paragraph for every empty line
        m = re.search(rb'<card id="index" title="Text File" newcontext="true">\n<p>\n(.*)</p>\n</card>\n</wml>\n$', body, re.S)
        if not m:
            return "the document is not a WML text card"
        body = html.unescape(m.group(1).replace(b"</p>\n<p>", b"\n").decode("latin-1")).encode("latin-1", "replace")
    shown = _tokens(p["name"] or "")
    subj = email.message_from_bytes(body).get("Subject")
    got = _tokens(re.sub(r"\s+", " ", str(subj))) if subj is not None else []
    if shown != got:
        return "the listing announced %s as item %s of %s, the document served has %s" % (
            "the message with token %s in its Subject" % shown[0] if shown else "a message without a generated Subject (%r)" % p["name"],
            p["index"], p["of"], "Subject %r" % str(subj) if subj is not None else "no Subject header")
    for t in shown:
        if "bare " + t not in p["name"] and ("body-of-" + t).encode() not in body:
            return "the document served for the message announced as %r has its Subject but not its body (no 'body-of-%s')" % (p["name"], t)
    return None


def mail_leg(chk, tier):
    """Mailbox content on which two readers of one file can disagree about message boundaries and numbering (c05gen.py):
    every folder of the directory, every item of every folder listing, in every protocol.  -> (found, coverage)"""
    rng = chk.rng
    tree, top, what = c05gen.mail_world(rng, tier)
    job = {"op": "c05_folders", "tree": tree, "config": trees.SITE_CONFIG, "top": top, "long": 40,
           "follow_all": ["gopher"] if tier == "quick" else ["gopher", "http", "gemini"], "fractions": [rng.random() for _ in range(6)]}
    jobs = [dict(job, protos=[proto]) for proto in gen.PROTOCOLS]
    found = False
    nitems = nfolders = 0
    with_items = set()
    reported = set()
    for r in impl_run_parallel(jobs, chunks=len(jobs)):
        if not r["ok"]:
            raise RuntimeError(r["err"] + "\n" + r.get("tb", ""))
        for p in r["res"]["pages"]:
            if p["level"] == "top":
                continue
            proto = p["proto"]
            chk.count(("mail", proto, p["selector"]), nontrivial=True)
            why = judge_page(p)
            tag = f"dead-link:{proto}"
            if p["level"] == "folder":
                nfolders += 1
                folder = p["selector"]
            else:
                nitems += 1
                folder = p["parent"]
                with_items.add((proto, folder))
                if not why:
                    why = judge_message(p)
                    tag = f"wrong-message:{proto}"
            if why:
                found = True
                if (proto, p["level"], folder, tag) in reported:
                    continue    # one replay per folder, protocol and kind of failure: the first item that fails
                reported.add((proto, p["level"], folder, tag))
                data = next((e.get("data") for e in tree if "/" + e["path"] == folder), None)
                if data and re.search(r"^From [^\n]*[\x80-\xff]", data, re.M):
                    tag = tag.replace(":", ":8bit-from-line:", 1)    # input class of finding D35 (stdlib mbox decodes the line as ASCII)
                if any(e.get("unreadable") and ("/" + e["path"]).startswith(folder + "/") for e in tree):
                    tag = tag.replace(":", ":unreadable-message:", 1)    # input class of finding D35b (a Maildir entry that cannot be opened)
                chk.violation({"what": ("a local link advertised in a listing is not served: " if tag.startswith("dead") else
                                        "a link of a folder listing delivers another message than the one advertised: ") + why,
                               "protocol": proto, "listing_selector": p["parent"], "link_selector_latin1": p["selector"], "advertised_type": p["type"],
                               "advertised_name_latin1": p["name"], "item": p["index"], "items_in_listing": p["of"],
                               "mailbox": what.get(folder), "mailbox_file_latin1": data if data is None or len(data) < 4000 else data[:4000] + "...",
                               "request_latin1": p["request"], "response_latin1": p["out"][:400], "log": p["log"][-3:],
                               "tree": tree if data is None else [e for e in tree if "/" + e["path"] == folder]}, tag=tag)
    # the generator must reach what it is meant to reach: every generated folder is listed with items in every protocol
    missing = [(proto, f) for proto in gen.PROTOCOLS for f in what if (proto, f) not in with_items]
    return found, {"folders": len(what), "folder_listings_followed": nfolders, "message_links_followed": nitems,
                   "folders_without_items": ["%s %s" % m for m in missing][:20]}


# ---- handler lists: what a link needs in order to be served depends on the handlers the site runs ----
_MAIL = "mbox.MaildirFolderHandler, mbox.MaildirMessageHandler, "
_MBOX = "mbox.MBoxMessageHandler, mbox.MBoxFolderHandler, "
FULL_LIST = ("[url.HTMLURLHandler, gophermap.BuckGophermapHandler, " + _MAIL + "UMN.UMNDirHandler, tal.TALFileHandler, html.HTMLFileTitleHandler, " + _MBOX +
             "pyg.PYGHandler, file.CompressedFileHandler, file.FileHandler, url.URLTypeRewriter]")
HANDLER_LISTS = {
    "shipped": None,
    "bucktooth": "[url.HTMLURLHandler, gophermap.BuckGophermapHandler, file.FileHandler]",
    "bucktooth-bare": "[gophermap.BuckGophermapHandler, file.FileHandler]",
    "bucktooth-mail": "[url.HTMLURLHandler, gophermap.BuckGophermapHandler, " + _MAIL + _MBOX + "html.HTMLFileTitleHandler, file.FileHandler]",
    "plain-dir": "[url.HTMLURLHandler, dir.DirHandler, file.FileHandler]",
    "no-file-handler": "[url.HTMLURLHandler, gophermap.BuckGophermapHandler, " + _MAIL + "UMN.UMNDirHandler, " + _MBOX[:-2] + "]",
    "directories-only": "[UMN.UMNDirHandler]",
    "files-only": "[file.FileHandler]",
    "documented-full": FULL_LIST,
    "full-zip": FULL_LIST.replace("pyg.PYGHandler, ", "pyg.PYGHandler, ZIP.ZIPHandler, "),
    "zip-first": "[ZIP.ZIPHandler, " + FULL_LIST[1:],
}


def bucktooth_tree():
    """A site laid out the Bucktooth way: every menu is a gophermap, menus link (also deep, also back up) to menus and files;
    directories on the way need no gophermap of their own.  Every link the author wrote leads to a gophermap directory or a file."""
    def gm(*lines):
        return "\n".join(lines) + "\n"
    return [
        {"path": "gophermap", "data": gm("iWelcome", "0About\t/about.txt", "1Project Alpha\t/projects/alpha", "1Beta, deep inside\t/projects/beta/releases/current",
                                         "1Documents\tdocs", "0A relative file\tabout.txt", "1The list archive\t/lists/2024/announce", "hThe web\tURL:http://www.example.com/")},
        {"path": "about.txt", "data": "about\n"},
        {"path": "projects/alpha/gophermap", "data": gm("ialpha", "0Read me\treadme.txt", "1Sources\tsrc", "1Home\t/", "0Notes with a space\t/projects/alpha/release notes.txt")},
        {"path": "projects/alpha/readme.txt", "data": "alpha readme\n"},
        {"path": "projects/alpha/release notes.txt", "data": "notes\n"},
        {"path": "projects/alpha/src/gophermap", "data": gm("0main.c\tmain.c", "1Back to alpha\t/projects/alpha")},
        {"path": "projects/alpha/src/main.c", "data": "int main;\n"},
        {"path": "projects/beta/releases/current/gophermap", "data": gm("0Change log\tCHANGES", "1One more level\tlevel/deeper")},
        {"path": "projects/beta/releases/current/CHANGES", "data": "changes\n"},
        {"path": "projects/beta/releases/current/level/deeper/gophermap", "data": gm("0leaf\tleaf.txt")},
        {"path": "projects/beta/releases/current/level/deeper/leaf.txt", "data": "leaf\n"},
        {"path": "projects/unlisted.txt", "data": "nothing links here\n"},
        {"path": "docs/gophermap", "data": gm("0Guide\tguide.txt", "1caf\xc3\xa9 & co\t/docs/caf\xc3\xa9 & co/menu")},
        {"path": "docs/guide.txt", "data": "guide\n"},
        {"path": "docs/caf\xc3\xa9 & co/menu/gophermap", "data": gm("0only\tonly.txt")},
        {"path": "docs/caf\xc3\xa9 & co/menu/only.txt", "data": "only\n"},
        {"path": "lists/2024/announce/gophermap", "data": gm("0January\t01.txt", "1Home\t/")},
        {"path": "lists/2024/announce/01.txt", "data": "january\n"},
    ]


def plain_tree():
    """directories, files, mailboxes, an archive-free tree without gophermaps and link files: nothing a site author typed"""
    return [e for e in trees.rich_tree(None, hostile=False, umn=False) if not e["path"].startswith("maps")] + [
        {"path": "deep", "kind": "dir"}, {"path": "deep/er", "kind": "dir"}, {"path": "deep/er/still", "kind": "dir"},
        {"path": "deep/er/still/x y.txt", "data": "xy\n"}, {"path": "deep/er/page.html", "data": "<html><head><title>P</title></head><body><a href=\"/nowhere\">author's link</a></body></html>\n"}]


def handler_list_leg(chk, tier):
    """Every local link of every page the server composes — entry rows and the navigation the renderer adds — under handler
    lists other than the shipped one.  -> (found, coverage)"""
    combos = []
    for name in ("bucktooth", "bucktooth-bare", "bucktooth-mail", "shipped", "documented-full", "plain-dir", "directories-only"):
        combos.append(("bucktooth-site", bucktooth_tree(), name))
    for name in ("shipped", "plain-dir", "no-file-handler", "directories-only", "files-only", "documented-full", "full-zip", "zip-first"):
        combos.append(("plain-site", plain_tree(), name))
    jobs = []
    for site, tree, name in combos:
        for e in tree:
            e.setdefault("mtime", 1_700_000_000)
        cfg = dict(trees.SITE_CONFIG)
        if HANDLER_LISTS[name] is not None:
            cfg["handlers.HandlerMultiplexer"] = {"handlers": HANDLER_LISTS[name]}
        if "zip" in name:
            cfg["handlers.ZIP.ZIPHandler"] = {"enabled": "true"}
        jobs.append({"op": "c05_crawl_all", "tree": tree, "config": cfg, "protos": gen.PROTOCOLS, "max_pages": 300, "_site": site, "_list": name})
    found = False
    nlinks = nnav = 0
    per = {}
    for j, r in zip(jobs, impl_run_parallel(jobs, chunks=min(len(jobs), 8))):
        if not r["ok"]:
            raise RuntimeError(r["err"] + "\n" + r.get("tb", ""))
        key = "%s/%s" % (j["_site"], j["_list"])
        per[key] = 0
        for p in r["res"]["pages"]:
            if p["parent"] is None:
                continue
            nlinks += 1
            per[key] += 1
            nnav += p["via"] == "page"
            chk.count(("handlers", key, p["proto"], p["selector"]), nontrivial=True)
            why = judge_page(p)
            if why:
                found = True
                chk.violation({"what": "a local link of a page the server composed is not served: " + why, "protocol": p["proto"],
                               "handler_list": HANDLER_LISTS[j["_list"]] or "(shipped conf/pygopherd.conf)", "site": j["_site"],
                               "link_is": "an entry row of the listing" if p["via"] == "row" else "navigation added by the renderer (outside the entry rows)",
                               "listing_selector": p["parent"], "link_selector_latin1": p["selector"], "advertised_type": p["type"],
                               "request_latin1": p["request"], "response_latin1": p["out"][:300], "log": p["log"][-3:], "config": j["config"], "tree": j["tree"]},
                              tag="dead-%s:%s:%s" % ("link" if p["via"] == "row" else "navigation-link", j["_list"], p["proto"]))
    return found, {"site_x_handler_list": per, "links_followed": nlinks, "renderer_made_links_followed": nnav}


def run(tier):
    chk = Check("C05", tier)
    chk.proofs(extra_files=["Corr/K05.v"])   # [agentH]
    found = False
    rng = chk.rng
    ntrees = 10 if tier == "thorough" else 3
    specs = []
    for i in range(ntrees):
        tr = trees.rich_tree(rng, hostile=True, part=(i % 3, 3))
        if i % 3 == 0:
            tr = tr + unicode_tree() + url_tree()
        elif i % 3 == 1:
            tr = tr + url_tree() + samehost_tree() + typechar_tree()
        outside = []
        if i % 3 == 2:
            st, outside = symlink_tree()
            tr = tr + st
        for e in tr:
            e.setdefault("mtime", 1_700_000_000)
        specs.append({"tree": tr, "outside": outside, "config": trees.SITE_CONFIG, "follow_url_links": True})
    all_pages = pgsite.crawl_worlds(specs, max_pages=600)
    nlinks = 0
    bad = 0
    nurl = 0
    for wi, pages in enumerate(all_pages):
        for p in pages:
            proto = p["proto"]
            if p["parent"] is None:
                continue   # the root request itself
            nlinks += 1
            nurl += 1 if re.match(r"/?URL:", p["selector"]) else 0
            chk.count((wi, proto, p["selector"]), nontrivial=True)
            why = judge_page(p)
            if why:
                bad += 1
                found = True
                chk.violation({"what": "a local link advertised in a listing is not served: " + why, "protocol": proto,
                               "listing_selector": p["parent"], "link_selector_latin1": p["selector"], "advertised_type": p["type"],
                               "request_latin1": p["request"], "response_latin1": p["out"][:300], "log": p["log"][-3:],
                               "tree": specs[wi]["tree"]}, tag=f"dead-link:{proto}")

    # ---- mailbox content: two readers of one file (the listing's and the message handler's) must agree ----
    mail_found, mail_cov = mail_leg(chk, tier)
    found = found or mail_found

    # ---- handler lists other than the shipped one; every local link of a page, the renderer's own navigation included ----
    hl_found, hl_cov = handler_list_leg(chk, tier)
    found = found or hl_found

    # ---- maintenance histories: list (cache files get written), reorganise the tree the way an administrator does (rename or
    # move a directory or one of its ancestors, copy a subtree with its timestamps), let more than the cache lifetime pass,
    # crawl again: every link of every listing must still resolve ----
    base = [e for e in trees.rich_tree(rng, hostile=False) if not e["path"].startswith(("md", "mail.mbox"))]
    base += [{"path": "proj", "kind": "dir"}, {"path": "proj/readme.txt", "data": "r\n"}, {"path": "proj/src", "kind": "dir"},
             {"path": "proj/src/main.c", "data": "int main;\n"}, {"path": "proj/src/deep", "kind": "dir"},
             {"path": "proj/src/deep/x y.txt", "data": "xy\n"}, {"path": "proj/docs", "kind": "dir"}, {"path": "proj/docs/guide.html", "data": "<html><title>G</title></html>\n"},
             {"path": "lib", "kind": "dir"}, {"path": "lib/a.txt", "data": "a\n"}, {"path": "lib/inc", "kind": "dir"}, {"path": "lib/inc/h.h", "data": "h\n"},
             {"path": "lib/inc/sys", "kind": "dir"}, {"path": "lib/inc/sys/t.h", "data": "t\n"}]
    for e in base:
        e["mtime"] = 1_600_000_000
    LIFE = 180
    # (only directories that no hand-written gophermap or link file points at: a link an administrator typed is his to keep alive)
    scenarios = {
        "rename-directory": [{"do": "rename", "src": "proj", "dst": "project-2"}],
        "rename-ancestor": [{"do": "rename", "src": "lib", "dst": "library"}, {"do": "rename", "src": "proj/src", "dst": "proj/source"}],
        "move-into-another": [{"do": "rename", "src": "proj/src", "dst": "lib/moved-src"}, {"do": "rename", "src": "lib/inc", "dst": "proj/inc"}],
        "copy-with-timestamps-then-remove": [{"do": "copytree", "src": "proj", "dst": "proj-copy"}, {"do": "rename", "src": "proj", "dst": "attic/proj-old"},
                                             {"do": "remove", "path": "attic/proj-old/readme.txt"}],
        "swap-two-directories": [{"do": "rename", "src": "lib", "dst": "tmp-swap"}, {"do": "rename", "src": "proj", "dst": "lib"},
                                 {"do": "rename", "src": "tmp-swap", "dst": "proj"}],
        "nothing-changes": [],
    }
    if tier == "quick":
        keep = ["rename-directory", "rename-ancestor", "move-into-another"] + [rng.choice(["copy-with-timestamps-then-remove", "swap-two-directories", "nothing-changes"])]
        scenarios = {k: scenarios[k] for k in keep}
    sjobs = []
    for name, actions in scenarios.items():
        for wait in ((LIFE * 5,) if tier == "quick" else (LIFE + 5, LIFE * 5, 86400 * 30)):
            sjobs.append({"op": "crawl_stages", "tree": base, "config": dict(trees.SITE_CONFIG, **{"handlers.dir.DirHandler": {"cachetime": str(LIFE)}}),
                          "protos": gen.PROTOCOLS if tier != "quick" else ["gopher", "gopherplus", "http", "wap", "gemini", "spartan"],
                          "max_pages": 300, "_name": name, "_wait": wait,
                          "stages": [{"name": "first visit", "crawl": True},
                                     {"name": "second visit, after the caches of the first have expired (they are rewritten in place)", "crawl": True,
                                      "actions": [{"do": "age", "seconds": LIFE * 2 + rng.randrange(0, 1000)}]},
                                     {"name": "a minute later", "actions": [{"do": "age", "seconds": 60}]},
                                     {"name": "after the reorganisation and the wait", "crawl": True,
                                      "actions": actions + [{"do": "age", "seconds": wait}]}]})
    sres = impl_run_parallel(sjobs, chunks=len(sjobs))
    nstage_links = 0
    for sj, r in zip(sjobs, sres):
        if not r["ok"]:
            raise RuntimeError(r["err"] + "\n" + r.get("tb", ""))
        for st in r["res"]["stages"]:
            for p in st["pages"] or []:
                if p["parent"] is None:
                    continue
                nstage_links += 1
                chk.count(("stage", sj["_name"], sj["_wait"], st["name"], p["proto"], p["selector"]), nontrivial=True)
                why = judge_page(p)
                if why:
                    bad += 1
                    found = True
                    chk.violation({"what": "a local link advertised in a listing is not served: " + why, "protocol": p["proto"],
                                   "history": "listings fetched twice, more than the cache lifetime apart; then %s; then %d s pass (cache lifetime %d s); then '%s' is listed again"
                                              % (sj["_name"], sj["_wait"], LIFE, p["parent"]),
                                   "maintenance_actions": sj["stages"][3]["actions"], "stage": st["name"],
                                   "listing_selector": p["parent"], "link_selector_latin1": p["selector"], "advertised_type": p["type"],
                                   "request_latin1": p["request"], "response_latin1": p["out"][:300], "log": p["log"][-3:], "tree": base},
                                  tag=f"dead-link-after-maintenance:{sj['_name']}:{p['proto']}")
    chk.sample({"protocol": all_pages[0][5]["proto"], "followed_link": all_pages[0][5]["selector"],
                "request_latin1": all_pages[0][5]["request"], "response_head": all_pages[0][5]["out"][:80]})
    chk.coverage["oracle"] = {"trees": ntrees, "links_followed": nlinks, "url_links_followed": nurl, "dead_links": bad,
                              "exhaustive_crawl_per_tree": True, "maintenance_histories": len(sjobs), "links_followed_after_maintenance": nstage_links,
                              "mail_folders": mail_cov, "handler_lists": hl_cov}
    chk.coverage["rule"] = ("generated trees with hostile names (spaces, reserved URL characters, non-UTF-8 bytes, HTML metacharacters), "
                            "valid UTF-8 names with invisible/format/combining/astral characters, URL: items of gophermaps and link files (local type-h links), "
                            "mailboxes, Maildirs, gophermaps, UMN link files; mbox files and Maildirs whose content lets two readers disagree about message "
                            "boundaries and numbering (From-lines in bodies, blank-line and line-ending conventions, unusual separators, empty messages, "
                            "flag suffixes, dot-files, duplicate unique names): every item of every folder listing is fetched and must be the message "
                            "its title announced; histories in which directories are renamed, moved or copied between two "
                            "visits and the cache lifetime passes; every local link reachable from / is followed in the same "
                            "protocol's request syntax, for all 9 protocol variants; each followed link is a non-trivial case")
    # ---- [agentH] correspondence K05 (request side of every protocol, urlparse, parse_qs) ----
    k_mism, k_err, k_det = run_k05(chk, tier)
    chk.coverage["k05"] = k_det
    if k_mism or k_err:
        chk.correspondence_broken("K05 (Model/Request.v vs protocols/*.py handle())",
                                  {"mismatches": k_mism, "error": k_err, "details": k_det}, found)
    # ---- [agentH] end ----
    chk.finish_proofs(found)
    return chk.finish("proof")
