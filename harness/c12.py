"""C12 — one unservable entry never takes down its directory."""
import json
import re

from common import Check, coq_eval, impl_run, impl_run_parallel
import gen
import umnlib
from umnlib import tp

GOOD = ["b.txt", "d.txt", "f", "h.txt"]          # "f" is a sub-directory
LETTERS = ["a", "c", "e", "g", "i"]              # sort before / between / after the good names
KINDS = ["dangling", "fifo", "socket", "dotdot", "dotbs", "bsbs", "enoent", "eacces", "vanish"]
# a fault kind may carry a name suffix ("dangling:.html"): the handler chain looks at names too, and a
# handler that keys on the name must cope with an entry it cannot stat or open just the same
SUFFIXES = [".html", ".gophermap", ".mbox", ".zip", ".pyg", ".tal", ".txt.gz"]
SUFFIX_KINDS = ["dangling", "enoent", "vanish"]
# fault kinds whose stat / open fails: these also get the request repeated within the directory cache's lifetime
REPEAT_KINDS = {"dangling", "enoent", "eacces", "vanish", "openfail", "stat2fail", "open2fail", "dot-dangling",
                "dot-dotdot-link", "linkfile-openfail", "sidecar-openfail", "touchvanish1", "touchvanish2", "touchvanish3"}
# the handler chain accepts the child (stat says regular file) but the file-system call it then makes fails:
# open() for the HTML title, the second stat of a *.gophermap file, ...
CALL_KINDS = ["openfail:.html", "openfail:.txt", "openfail:.mbox", "stat2fail:.gophermap", "stat2fail:.html",
              "stat2fail:.txt", "openfail:.gophermap",
              # the fault from the k-th call on, k = 2, 3: gone after the first look
              "open2fail:.html", "open3fail:.html", "open2fail:.txt", "stat3fail:.html", "stat3fail:.gophermap",
              # a sidecar file of a child / of the listed directory itself that is there but cannot be opened
              "sidecar-openfail", "sidecar-vanished", "dir-abstract-openfail", "subdir-abstract-openfail"]
# name classes for a faulty entry: its name ends up in the not-found message and in the log
NAME_CLASSES = ["-caf\udce9-du-jour", "-%s%d%(x)s%", "-cr\rlf\ntab\tctl\x01", "-" + "L" * 180, "-\u00e9\u20ac\U0001f600",
                "-sp ace \"quoted\" 'x'"]
DOT_KINDS = ["dot-dangling", "dot-fifo", "dot-socket",
             # dot-prefixed names that also fail the selector filter (editor swap files, the `..data` entries of
             # mounted config volumes, a file literally called `...`), as regular file, dangling link and directory
             "dot-dotdot-file", "dot-dotdot-link", "dot-dotdot-dir", "dot-three-dots", "dot-bs-file"]
CONFIG = {"handlers.dir.DirHandler": {"cachetime": "0"}}

# ---- handler configurations beyond the shipped default ---------------------------------------------------------
# Which handlers look at a child -- and how deep they look while still deciding whether to take it -- depends on
# the configured list: the property is about every configuration the server documents.  %DIR% stands for the
# directory handler (UMN.UMNDirHandler / dir.DirHandler).
_HEAD = ("url.HTMLURLHandler, gophermap.BuckGophermapHandler, mbox.MaildirFolderHandler, "
         "mbox.MaildirMessageHandler, %DIR%, ")
_ZIP_ON = {"handlers.ZIP.ZIPHandler": {"enabled": "true"}}
CHAINS = {
    # the documented "full featureset" list (templates, PYG, scripts, decompression, URL rewriting)
    "full": {"handlers.HandlerMultiplexer": {"handlers": "[" + _HEAD + "tal.TALFileHandler, html.HTMLFileTitleHandler, "
             "mbox.MBoxMessageHandler, mbox.MBoxFolderHandler, pyg.PYGHandler, scriptexec.ExecHandler, "
             "file.CompressedFileHandler, file.FileHandler, url.URLTypeRewriter]"}},
    # the same with archives served as directories
    "full+zip": dict({"handlers.HandlerMultiplexer": {"handlers": "[" + _HEAD + "tal.TALFileHandler, "
                      "html.HTMLFileTitleHandler, mbox.MBoxMessageHandler, mbox.MBoxFolderHandler, ZIP.ZIPHandler, "
                      "pyg.PYGHandler, scriptexec.ExecHandler, file.CompressedFileHandler, file.FileHandler, "
                      "url.URLTypeRewriter]"}}, **_ZIP_ON),
    # the shipped default plus archives
    "default+zip": dict({"handlers.HandlerMultiplexer": {"handlers": "[" + _HEAD + "html.HTMLFileTitleHandler, "
                         "mbox.MBoxMessageHandler, mbox.MBoxFolderHandler, ZIP.ZIPHandler, file.FileHandler]"}}, **_ZIP_ON),
    # handlers that look inside a file come first
    "inspectors-first": dict({"handlers.HandlerMultiplexer": {"handlers": "[ZIP.ZIPHandler, pyg.PYGHandler, "
                              "mbox.MBoxMessageHandler, mbox.MBoxFolderHandler, tal.TALFileHandler, " + _HEAD +
                              "html.HTMLFileTitleHandler, scriptexec.ExecHandler, file.CompressedFileHandler, "
                              "file.FileHandler]"}}, **_ZIP_ON),
    # scripts only (the UMN emulation list plus scriptexec), archive handler listed but switched off
    "exec+zip-off": {"handlers.HandlerMultiplexer": {"handlers": "[url.HTMLURLHandler, %DIR%, ZIP.ZIPHandler, "
                     "html.HTMLFileTitleHandler, mbox.MBoxMessageHandler, mbox.MBoxFolderHandler, "
                     "scriptexec.ExecHandler, file.CompressedFileHandler, file.FileHandler]"}},
}
# children that one of those handlers inspects: suffix -> (content, mode)
PYG_SOURCE = ("from pygopherd.handlers.pyg import PYGBase\nfrom pygopherd.gopherentry import GopherEntry\n\n\n"
              "class PYGMain(PYGBase):\n    def canhandlerequest(self):\n        return True\n\n"
              "    def isdir(self):\n        return False\n\n    def getentry(self):\n"
              "        entry = GopherEntry(self.selector, self.config)\n        entry.type = \"0\"\n"
              "        entry.mimetype = \"text/plain\"\n        entry.name = \"A generated page\"\n        return entry\n\n"
              "    def write(self, wfile):\n        wfile.write(b\"generated\\n\")\n")


def _zip_bytes():
    import io
    import zipfile
    b = io.BytesIO()
    with zipfile.ZipFile(b, "w") as z:
        for n, d in (("inside.txt", "x\n"), ("sub/deeper.html", "<html><head><title>T</title></head></html>\n")):
            zi = zipfile.ZipInfo(n, date_time=(2020, 1, 1, 0, 0, 0))
            z.writestr(zi, d)
    return b.getvalue().decode("latin-1")


RICH = {
    ".zip": (_zip_bytes(), None),
    ".pyg": (PYG_SOURCE, 0o755),
    ".html.tal": ("<html><head><title tal:content=\"selector\">t</title></head><body>x</body></html>\n", None),
    ".mbox": ("From alice@example.org Thu Jan  1 00:00:00 2004\nSubject: hello\n\nbody\n\n", None),
    ".sh": ("#!/bin/sh\necho generated\n", 0o755),
    ".txt.gz": ("\x1f\x8b\x08\x00\x00\x00\x00\x00\x00\x03\xcb\xc8\xe4\x02\x00\x7a\x7a\x6f\xed\x03\x00\x00\x00", None),
    ".html": ("<html><head><title>Inspected</title></head></html>\n", None),
}
# the faults already injected elsewhere, plus the object really disappearing right after the k-th look at it
CHAIN_FAULTS = ["openfail", "open2fail", "stat2fail", "stat3fail", "touchvanish1", "touchvanish2", "touchvanish3",
                "vanish", "enoent", "eacces", "dangling"]


def fault_entry(pre, letter, kind, rich=False):
    """-> (name, tree entries, stat fault or None | "vanish").  rich: the content (and mode) of the faulty file
    is what its suffix promises (a real archive for .zip, an executable module for .pyg, ...)"""
    kind, suf = (kind.split(":", 1) + [""])[:2]
    if rich and kind != "dangling":
        n, ents, sf = fault_entry(pre, letter, kind + ":" + suf)
        data, mode = RICH[suf]
        ents[0]["data"] = data
        if mode is not None:
            ents[0]["mode"] = mode
        return n, ents, sf
    m = re.fullmatch(r"touchvanish(\d+)", kind)
    if m:
        # really deleted right after the k-th look the server takes at it
        n = letter + "fleeting" + (suf or ".txt")
        return n, [{"path": tp(pre + n), "data": "soon gone\n"}], {"call": "touch", "from": int(m.group(1))}
    if kind == "dangling":
        n = letter + "link" + suf
        return n, [{"path": tp(pre + n), "kind": "symlink", "target": "nowhere-at-all"}], None
    if kind == "fifo":
        n = letter + "fifo" + suf
        return n, [{"path": tp(pre + n), "kind": "fifo"}], None
    if kind == "socket":
        n = letter + "sock" + suf
        return n, [{"path": tp(pre + n), "kind": "socket"}], None
    m = re.fullmatch(r"(open|stat)(\d*)fail", kind)
    if m:
        n = letter + "locked" + (suf or ".html")
        data = "<html><head><title>Locked</title></head></html>\n" if n.endswith(".html") else "locked\n"
        k = int(m.group(2) or (1 if m.group(1) == "open" else 2))
        spec = {"call": m.group(1), "from": k, "errno": "EACCES" if m.group(1) == "open" else "ENOENT"}
        return n, [{"path": tp(pre + n), "data": data}], spec
    if kind in ("sidecar-openfail", "sidecar-vanished"):
        # the faulty object is the sidecar; the child it belongs to must still be listed
        n = letter + "doc.txt"
        return n + ".abstract", [{"path": tp(pre + n), "data": "doc\n"}, {"path": tp(pre + n + ".abstract"), "data": "about\n"}], \
            {"call": "open", "from": 1, "errno": "EACCES" if kind == "sidecar-openfail" else "ENOENT"}
    if kind == "dir-abstract-openfail":
        return ".abstract", [{"path": tp(pre + ".abstract"), "data": "about this directory\n"}], \
            {"call": "open", "from": 1, "errno": "EACCES"}
    if kind == "subdir-abstract-openfail":
        n = letter + "dir"
        return n + "/.abstract", [{"path": tp(pre + n), "kind": "dir"}, {"path": tp(pre + n + "/.abstract"), "data": "about\n"}], \
            {"call": "open", "from": 1, "errno": "EACCES"}
    if kind == "sidecar-fifo":
        # a FIFO where a sidecar file is expected: next to a good file, and as the .abstract of a sub-directory
        n = letter + "doc.txt"
        return n + ".abstract", [{"path": tp(pre + n), "data": "doc\n"}, {"path": tp(pre + n + ".abstract"), "kind": "fifo"}], None
    if kind == "sidecar-fifo-dir":
        n = letter + "dir"
        return n + "/.abstract", [{"path": tp(pre + n), "kind": "dir"}, {"path": tp(pre + n + "/.abstract"), "kind": "fifo"}], None
    if kind == "vanish":
        # deleted between the enumeration of the directory and the inspection of the entry
        n = letter + "vanish" + (suf or ".txt")
        return n, [{"path": tp(pre + n), "data": "soon gone\n"}], "vanish"
    if kind == "dotdot":
        n = letter + "..y"
        return n, [{"path": tp(pre + n), "data": "dots\n"}], None
    if kind == "dotbs":
        n = letter + ".\\y"
        return n, [{"path": tp(pre + n), "data": "dot backslash\n"}], None
    if kind == "bsbs":
        n = letter + "\\\\y"
        return n, [{"path": tp(pre + n), "data": "two backslashes\n"}], None
    if kind in ("enoent", "eacces"):
        n = letter + "gone" + (suf or ".txt")
        return n, [{"path": tp(pre + n), "data": "was here\n"}], {"enoent": "ENOENT", "eacces": "EACCES"}[kind]
    if kind == "dot-dangling":
        n = "." + letter + "link"
        return n, [{"path": tp(pre + n), "kind": "symlink", "target": "nowhere-at-all"}], None
    if kind == "dot-fifo":
        n = "." + letter + "fifo"
        return n, [{"path": tp(pre + n), "kind": "fifo"}], None
    if kind == "dot-socket":
        n = "." + letter + "sock"
        return n, [{"path": tp(pre + n), "kind": "socket"}], None
    if kind == "dot-dotdot-file":
        n = ".." + letter + "data.swp"
        return n, [{"path": tp(pre + n), "data": "swap\n"}], None
    if kind == "dot-dotdot-link":
        n = ".." + letter + "data"
        return n, [{"path": tp(pre + n), "kind": "symlink", "target": "nowhere-at-all"}], None
    if kind == "dot-dotdot-dir":
        n = ".." + letter + "2024_01_01"
        return n, [{"path": tp(pre + n), "kind": "dir"}, {"path": tp(pre + n + "/inside"), "data": "x\n"}], None
    if kind == "dot-three-dots":
        n = "..."
        return n, [{"path": tp(pre + n), "data": "dots\n"}], None
    if kind == "dot-bs-file":
        n = "." + letter + ".\\x"
        return n, [{"path": tp(pre + n), "data": "dot backslash\n"}], None
    raise ValueError(kind)


def scenario(dirsel, faults, rich=False):
    """faults: list of (position, kind)"""
    pre = dirsel.strip("/")
    pre = pre + "/" if pre else ""
    tree = []
    for g in GOOD:
        if g == "f":
            tree.append({"path": pre + "f", "kind": "dir"})
            tree.append({"path": pre + "f/inside.txt", "data": "inside\n"})
        else:
            tree.append({"path": pre + g, "data": "good %s\n" % g})
    statf = {}
    callf = {}
    names = []
    vanish = []
    extra_all = []
    for pos, kind in faults:
        n, ents, sf = fault_entry(pre, LETTERS[pos], kind, rich)
        tree += ents
        names.append(n)
        if kind.split(":")[0] in ("sidecar-openfail", "sidecar-vanished", "subdir-abstract-openfail", "sidecar-fifo",
                                  "sidecar-fifo-dir"):
            # the object the faulty sidecar belongs to is itself perfectly servable: it must be listed
            owner = n[:-len(".abstract")].rstrip("/")
            extra_all.append(("" if dirsel == "/" else dirsel) + "/" + owner)
        if sf == "vanish":
            vanish.append(n)
        elif isinstance(sf, dict):
            callf[n] = sf
        elif sf:
            statf[n] = sf
    return {"tree": tree, "dir": dirsel, "stat_faults": statf, "call_faults": callf, "vanish": vanish, "faulty": names,
            "faults": faults, "extra_all": extra_all}


def linkfile_scenarios():
    """Several link files in one directory, one of them (sorting first / in the middle / last) passes the
    regular-file probe but cannot be opened (deleted since, EACCES): the entries contributed by the OTHER
    link files belong to "every other entry"."""
    out = []
    k = 0
    for pos in range(3):
        for err in ("EACCES", "ENOENT"):
            dirsel = ["/d", "/"][k % 2]
            k += 1
            sc = scenario(dirsel, [])
            pre = dirsel.strip("/")
            pre = pre + "/" if pre else ""
            lfs = [".aLinks", ".mNames.tmp4711", ".zlinks"]
            extra = []
            for i, lf in enumerate(lfs):
                sc["tree"].append({"path": pre + lf, "data": "Name=From %d\nType=1\nPath=/elsewhere/%d\nHost=+\nPort=+\n" % (i, i)})
                if i != pos:
                    extra.append("/elsewhere/%d" % i)
            sc["call_faults"] = {lfs[pos]: {"call": "open", "from": 1, "errno": err}}
            sc["faulty"] = [lfs[pos]]
            sc["faults"] = [(pos, "linkfile-openfail:" + err)]
            sc["extra_umn"] = extra
            sc["sweep"] = True
            out.append(sc)
    return out


def chain_scenarios(rng, thorough):
    """Every kind of inspected child x every fault, under every handler configuration of CHAINS (both directory
    handlers); the tiers differ in the protocols asked and the enumeration orders (see the job list)."""
    out = []
    k = 0
    for i, suf in enumerate(RICH):
        for j, kind in enumerate(CHAIN_FAULTS):
            sc = scenario(["/d", "/"][k % 2], [((i + j) % len(LETTERS), kind + ":" + suf)], rich=True)
            sc["kinds"] = [c + ":" + ch for ch in CHAINS for c in ("umn", "dir")]
            sc["sweep"] = True
            sc["chain"] = True
            out.append(sc)
            k += 1
    # control: the same children without any fault are all listed
    for dirsel in ("/d", "/"):
        sc = scenario(dirsel, [])
        pre = dirsel.strip("/")
        pre = pre + "/" if pre else ""
        for suf, (data, mode) in RICH.items():
            e = {"path": pre + "c-plain" + suf, "data": data}
            if mode is not None:
                e["mode"] = mode
            sc["tree"].append(e)
        sc["extra_all"] = [("" if dirsel == "/" else dirsel) + "/c-plain" + suf for suf in RICH]
        sc["kinds"] = [c + ":" + ch for ch in CHAINS for c in ("umn", "dir")]
        sc["sweep"] = True
        sc["chain"] = True
        out.append(sc)
    return out


def success_with_all(proto, out, base, extra=()):
    """Implementation-level statement of the property for one response."""
    if not out:
        return False, "empty reply"
    if gen.notfound_class(proto, out):
        return False, "error reply instead of the listing"
    missing = [g for g in GOOD if (base + "/" + g).encode() not in out] + [x for x in extra if x.encode() not in out]
    if missing:
        return False, "entries missing: %s" % missing
    return True, ""


def run(tier):
    chk = Check("C12", tier)
    chk.proofs(extra_files=["Corr/K07.v"])
    cov = chk.coverage
    rng = chk.rng
    found = False
    thorough = tier == "thorough"

    pres = impl_run(umnlib.probe_jobs())
    umnlib.check_ok(pres)
    fx = umnlib.probe_fixes(pres)
    chk.notes["code_variant"] = fx
    pre = "From Coq Require Import ZArith.\nDefinition the_fx := %s." % umnlib.cq_fixes(fx)

    scenarios = []
    k = 0
    for pos in range(len(LETTERS)):
        for kind in KINDS:
            scenarios.append(scenario(["/d", "/"][k % 2], [(pos, kind)]))
            k += 1
    for kind in DOT_KINDS:
        for pos in ((0, 3) if kind.startswith("dot-dotdot") else (0,)):
            scenarios.append(scenario(["/d", "/"][k % 2], [(pos, kind)]))
            k += 1
    for i, suf in enumerate(SUFFIXES):
        for j, kind in enumerate(SUFFIX_KINDS):
            scenarios.append(scenario(["/d", "/"][k % 2], [((i + j) % len(LETTERS), kind + ":" + suf)]))
            k += 1
    nbase = len(scenarios)
    for i, kind in enumerate(CALL_KINDS + ["sidecar-fifo", "sidecar-fifo-dir"]):
        scenarios.append(scenario(["/d", "/"][k % 2], [(i % len(LETTERS), kind)]))
        k += 1
    for i, cls in enumerate(NAME_CLASSES):
        for j, kind in enumerate(["dangling", "fifo", "vanish", "enoent"] if thorough else ["dangling", "vanish"]):
            scenarios.append(scenario(["/d", "/"][k % 2], [((i + j) % len(LETTERS), kind + ":" + cls)]))
            k += 1
    for sc in scenarios[len(LETTERS) * len(KINDS):]:
        sc["sweep"] = True      # sweeps over names / suffixes / call faults: three protocol syntaxes are enough
    lfscs = linkfile_scenarios()
    scenarios += lfscs
    chscs = chain_scenarios(rng, thorough)
    scenarios += chscs
    pairs = []
    for p1 in range(len(LETTERS)):
        for p2 in range(p1 + 1, len(LETTERS)):
            kps = [(a, b) for a in KINDS for b in KINDS]
            if not thorough:
                kps = rng.sample(kps, 2)
            for a, b in kps:
                pairs.append([(p1, a), (p2, b)])
    pairs.append([(0, "dot-dangling"), (3, "fifo")])
    pairs.append([(1, "dot-socket"), (1, "dot-dangling")])
    pairs.append([(2, "dot-dotdot-file"), (4, "dangling")])
    pairs.append([(0, "dot-three-dots"), (1, "dot-dotdot-link")])
    for f in pairs:
        scenarios.append(scenario(["/d", "/"][k % 2], f))
        k += 1
    # control: no fault at all
    scenarios.append(scenario("/d", []))

    jobs = []
    for sc in scenarios:
        reqs = []
        # (configuration scenarios run under ten handler configurations each: three protocol syntaxes in both tiers)
        allp = (thorough and not sc.get("chain")) or (not sc.get("sweep") and (not sc["faults"] or sc["faults"][0][0] in (0, 2)))
        for proto in (gen.PROTOCOLS if allp else ["gopher", "http", "gemini"]):
            data, tls = gen.request_bytes(proto, sc["dir"])
            reqs.append({"data": gen.lat(data), "tls": tls, "proto": proto})
        jobs.append({"op": "c12_faults", "tree": sc["tree"], "dir": sc["dir"], "stat_faults": sc["stat_faults"],
                     "vanish": sc["vanish"], "call_faults": sc["call_faults"], "real_logger": True,
                     "kinds": sc.get("kinds", ["umn", "dir"]), "chains": CHAINS, "restore_from_tree": bool(sc.get("chain")),
                     "perms": ["natural", "reversed"] if thorough or not sc.get("chain") else ["natural"], "config": CONFIG,
                     "requests": reqs,
                     "repeat_requests": [q for q in reqs if q["proto"] in (("gopher", "http") if thorough or not sc.get("chain")
                                                                           else ("gopher",))]
                     if any(kd.split(":")[0] in REPEAT_KINDS for _, kd in sc["faults"]) else []})
    res = impl_run_parallel(jobs, chunks=16)
    umnlib.check_ok(res)

    def tag_for(sc, only_dot):
        kinds = [kd.split(":")[0] for _, kd in sc["faults"]]
        if sc.get("chain"):
            # a child that a configured handler looks into (archive, PYG module, template, mailbox, script)
            return "c12-inspected-child-aborts-listing"
        if only_dot:
            return "c12-dotfile-aborts-listing"
        if kinds and all(re.fullmatch(r"(open|stat)\d*fail", kd) for kd in kinds):
            return "c12-unreadable-child-aborts-listing"
        if kinds and all(kd in ("sidecar-openfail", "sidecar-vanished", "dir-abstract-openfail", "subdir-abstract-openfail")
                         for kd in kinds):
            return "c12-unreadable-sidecar-loses-entries"
        if kinds and all(kd == "linkfile-openfail" for kd in kinds):
            return "c12-unreadable-linkfile-loses-entries"
        if kinds and all(kd.startswith("sidecar-fifo") for kd in kinds):
            return "c12-sidecar-fifo-blocks-listing"
        return "c12-child-aborts-listing"

    cases = []
    meta = []
    nreq = 0
    fails = 0
    reported = set()

    def report(key, replay, tag):
        # one replay per (defect, handler, level); the rest is counted in the evidence
        key = tuple(k.split(":")[0] if i == 1 else k for i, k in enumerate(key))    # (not one per handler configuration)
        if key not in reported:
            reported.add(key)
            chk.violation(replay, tag=tag)
    for sc, job, r in zip(scenarios, jobs, res):
        base = "" if sc["dir"] == "/" else sc["dir"]
        only_dot = bool(sc["faults"]) and all(kd.startswith("dot-") for _, kd in sc["faults"])
        for kind in job["kinds"]:
            run_ = r["res"]["runs"][kind]
            if ":" not in kind and not any(c["kind"] == "blocks" for c in run_["world"]["children"]):
                # (a call that never returns is outside the model's vocabulary; the oracle reports it)
                cases.append(umnlib.listing_case(run_, kind))
                meta.append((sc, kind))
            # handler level: prepare() succeeds and keeps every good entry
            for g in run_["groups"]:
                res_ = g["result"]
                extra = (sc.get("extra_umn", []) if kind == "umn" else []) + sc.get("extra_all", [])
                ok = "entries" in res_ and all(any(e["selector"] == base + "/" + n for e in res_["entries"]) for n in GOOD) \
                    and all(any(e["selector"] == x for e in res_["entries"]) for x in extra)
                chk.count((json.dumps(sc["faults"]), sc["dir"], kind, "prepare", json.dumps(g["perms"])), nontrivial=bool(sc["faults"]))
                if not ok:
                    fails += 1
                    found = True
                    tag_ = tag_for(sc, only_dot)
                    report((tag_, kind, "prepare"),
                                  {"what": "one unservable entry takes down the listing of its directory (handler.prepare)",
                                   "handler": kind, "faults": sc["faults"], "faulty_names": sc["faulty"],
                                   "stat_faults": sc["stat_faults"], "call_faults": sc["call_faults"],
                                   "handler_configuration": CHAINS.get(kind.partition(":")[2]), "dir": sc["dir"], "tree": sc["tree"],
                                   "outcome": res_.get("exc") or [e["selector"] for e in res_["entries"]]}, tag_)
            # every protocol
            for rq, o in zip(job["requests"], r["res"]["protocols"][kind]):
                nreq += 1
                out = o["out"].encode("latin-1")
                ok, why = success_with_all(rq["proto"], out, base, (sc.get("extra_umn", []) if kind == "umn" else []) + sc.get("extra_all", []))
                if o["exc"]:
                    ok, why = False, "exception " + o["exc"]
                chk.count((json.dumps(sc["faults"]), sc["dir"], kind, rq["proto"]), nontrivial=bool(sc["faults"]))
                if not ok:
                    fails += 1
                    found = True
                    tag_ = tag_for(sc, only_dot)
                    report((tag_, kind, rq["proto"]),
                                  {"what": "one unservable entry takes down the listing of its directory: " + why,
                                   "handler": kind, "protocol": rq["proto"], "request_latin1": rq["data"], "tls": rq["tls"],
                                   "faults": sc["faults"], "faulty_names": sc["faulty"], "stat_faults": sc["stat_faults"], "call_faults": sc["call_faults"],
                                   "handler_configuration": CHAINS.get(kind.partition(":")[2]),
                                   "deleted_after_enumeration": sc["vanish"],
                                   "dir": sc["dir"], "tree": sc["tree"], "response_latin1": o["out"][:300],
                                   "exception": o["exc"], "log": o["log"]}, tag_)
            # the same request twice within the lifetime of the directory cache
            reps = r["res"].get("repeats", {}).get(kind, [])
            for rq, pair_ in zip(job["repeat_requests"], reps):
                for which, o in zip(("first", "repeated"), pair_):
                    nreq += 1
                    out = o["out"].encode("latin-1")
                    ok, why = success_with_all(rq["proto"], out, base, (sc.get("extra_umn", []) if kind == "umn" else []) + sc.get("extra_all", []))
                    if o["exc"]:
                        ok, why = False, "exception " + o["exc"]
                    chk.count((json.dumps(sc["faults"]), sc["dir"], kind, rq["proto"], "cache", which), nontrivial=bool(sc["faults"]))
                    if not ok:
                        fails += 1
                        found = True
                        tag_ = tag_for(sc, only_dot)
                        report((tag_, kind, rq["proto"], "cache-" + which),
                               {"what": "one unservable entry takes down the listing of its directory (%s request with the "
                                        "directory cache enabled): %s" % (which, why),
                                "handler": kind, "protocol": rq["proto"], "request_latin1": rq["data"], "tls": rq["tls"],
                                "faults": sc["faults"], "faulty_names": sc["faulty"], "stat_faults": sc["stat_faults"], "call_faults": sc["call_faults"],
                                   "handler_configuration": CHAINS.get(kind.partition(":")[2]),
                                "deleted_after_enumeration": sc["vanish"], "cachetime": 180,
                                "dir": sc["dir"], "tree": sc["tree"], "response_latin1": o["out"][:300],
                                "exception": o["exc"], "log": o["log"]}, tag_)
    mism, err, nsh = coq_eval("C12", "k_faults", "Lib.Str Lib.Regex Model.DirEntry Model.UMN Model.Dir Corr.K07",
                              "chk_listing the_fx", cases, shard=12, pre=pre, timeout=900)
    cov["correspondence"] = {"fault_scenarios": len(scenarios), "worlds_compared": len(cases), "shards": nsh,
                             "mismatches": len(mism), "errors": [err] if err else []}
    cov["correspondence"]["mismatch_cases"] = [{"faults": meta[i][0]["faults"], "handler": meta[i][1],
                                                "dir": meta[i][0]["dir"]} for i in mism[:10]]
    cov["oracle"] = {"protocol_requests": nreq, "failures": fails,
                     "singles": len(scenarios) - len(pairs) - 1, "pairs": len(pairs),
                     "handler_configurations": sorted(CHAINS), "configuration_scenarios": len(chscs)}
    chk.sample({"kind": "scenario", "faults": scenarios[0]["faults"], "dir": scenarios[0]["dir"],
                "umn_prepare": res[0]["res"]["runs"]["umn"]["groups"][0]["result"].get("exc", "entries"),
                "gopher_reply": res[0]["res"]["protocols"]["umn"][0]["out"][:120]})
    if mism or err:
        detail = {"cases": [{"faults": meta[i][0]["faults"], "handler": meta[i][1], "dir": meta[i][0]["dir"],
                             "tree": meta[i][0]["tree"]} for i in mism[:5]],
                  "errors": [err[-2000:]] if err else [], "code_variant": fx}
        chk.correspondence_broken("K12 (listing under injected faults vs model)", detail, found)
    chk.finish_proofs(found)
    cov["rule"] = ("fault injection on real scratch trees: a directory of 3 files + 1 sub-directory; the faulty entry is named "
                   "so that it sorts into every position (5); fault kinds: dangling symlink, FIFO, socket, names containing "
                   "`..`, `.\\` and `\\\\`, VFS_Real.stat raising ENOENT / EACCES after enumeration, and dot-named dangling "
                   "symlink / FIFO / socket; all singles, pairs over all position pairs (2 random kind pairs each in quick, "
                   "all 64 in thorough); both directory handlers; handler.prepare under two enumeration orders + the "
                   "listing request in all 9 protocol syntaxes; outcome of prepare compared with the model inside Coq; "
                   "oracle: reply is not the protocol's error reply and names every non-faulty entry; "
                   "handler configurations beyond the shipped list (documented full featureset, the same + ZIP enabled, "
                   "default + ZIP, inspecting handlers first, scripts with ZIP listed but off) x children those handlers "
                   "look into (real archive, executable PYG module, TAL template, mailbox, script, compressed file, HTML) "
                   "x faults (k-th open / stat failing, stat failing always, dangling, deleted after enumeration, really "
                   "deleted right after the k-th look through the VFS, k = 1..3): oracle only (prepare + 3 protocols + "
                   "repeated request with the directory cache), not compared with the model")
    chk.assumptions += [
        "handler list in which directories and regular files are always taken and nothing takes a path without stat "
        "result or a special file (every list shipped in conf/pygopherd.conf)",
        "content errors of link files / .cap files (IndexError on `Type=`, ValueError on `Port=x`) are outside C12",
    ]
    return chk.finish("proof")
