"""Implementation-side operations for the C05 request correspondence (K05):
what the REAL protocol classes hand to HandlerMultiplexer.getHandler, and the real
urllib.parse.urlparse / parse_qs.  Runs inside the implementation's interpreter.

A str that may hold arbitrary surrogates crosses JSON as a list of code points
(JSON would merge an adjacent high+low surrogate pair into one astral character);
bytes cross as latin-1 strings."""
import binascii
import urllib.parse


def register(OPS, drv):
    from pygopherd import GopherExceptions
    from pygopherd.handlers import HandlerMultiplexer
    from pygopherd.protocols import ProtocolMultiplexer
    import pygopherd.protocols.gemini as gemini_mod
    import pygopherd.protocols.http as http_mod
    import pygopherd.protocols.spartan as spartan_mod
    import pygopherd.protocols.rfc1436 as rfc_mod
    import pygopherd.protocols.gopherp as gp_mod
    import pygopherd.protocols.wap as wap_mod

    CLASSES = {
        "GopherProtocol": rfc_mod.GopherProtocol, "SecureGopherProtocol": rfc_mod.SecureGopherProtocol,
        "GopherPlusProtocol": gp_mod.GopherPlusProtocol, "SecureGopherPlusProtocol": gp_mod.SecureGopherPlusProtocol,
        "URLGopherPlus": gp_mod.URLGopherPlus, "HTTPProtocol": http_mod.HTTPProtocol, "HTTPSProtocol": http_mod.HTTPSProtocol,
        "WAPProtocol": wap_mod.WAPProtocol, "GeminiProtocol": gemini_mod.GeminiProtocol,
        "SpartanProtocol": spartan_mod.SpartanProtocol,
    }

    def L(s):
        return None if s is None else [ord(c) for c in s]

    def S(cps):
        return "".join(map(chr, cps))

    class Recorder:
        """Patches getHandler (records its arguments, then answers not-found) and the
        write_status methods (records code and meta before the real method runs)."""

        def __init__(self):
            self.calls = []
            self.status = []

        def __enter__(self):
            rec = self
            self.orig_get = HandlerMultiplexer.getHandler
            self.orig_ws = {}

            def getHandler(selector, searchrequest, protocol, config, *a, **k):
                rec.calls.append((selector, searchrequest))
                raise GopherExceptions.FileNotFound(selector, "k05 recorder", protocol)

            HandlerMultiplexer.getHandler = getHandler
            for cls in (gemini_mod.GeminiProtocol, spartan_mod.SpartanProtocol):
                orig = cls.write_status
                self.orig_ws[cls] = orig

                def ws(self_, code, meta, _orig=orig):
                    rec.status.append((code, meta))
                    return _orig(self_, code, meta)

                cls.write_status = ws
            return self

        def __exit__(self, *a):
            HandlerMultiplexer.getHandler = self.orig_get
            for cls, orig in self.orig_ws.items():
                cls.write_status = orig

    ICON_BY_BODY = {binascii.unhexlify(v): k for k, v in http_mod.icons.items()}

    def classify(rec, clsname, out, crashed):
        """-> routed as a JSON-able list"""
        if crashed is not None:
            return ["Crash", crashed]
        if rec.calls:
            sel, sr = rec.calls[0]
            return ["ToHandler", L(sel), L(sr), len(rec.calls)]
        if clsname == "GeminiProtocol" and rec.status:
            code, meta = rec.status[0]
            if code == 59:
                return ["GeminiBad"]
            if code == 10:
                return ["GeminiInput"]
            if code == 30:
                return ["GeminiRedirect", L(meta)]
        if clsname == "SpartanProtocol" and rec.status:
            code, meta = rec.status[0]
            if code == 4 and meta == "Content length too large":
                return ["SpartanTooLarge"]
        if clsname in ("HTTPProtocol", "HTTPSProtocol", "WAPProtocol") and out.startswith(
                b"HTTP/1.0 200 OK\r\nLast-Modified: Fri, 14 Dec 2001 21:19:47 GMT\r\nContent-Type: image/gif\r\n\r\n"):
            body = out.split(b"\r\n\r\n", 1)[1]
            return ["Icon", L(ICON_BY_BODY.get(body, "") if body else "")]
        return ["Other", drv.b2s(out[:200])]

    def direct(config, clsname, data):
        """Build the protocol object the way ProtocolMultiplexer does and call its handle()."""
        import io
        cls = CLASSES[clsname]
        rfile = io.BytesIO(data)
        wfile = drv.KeepBytesIO()
        tls = bool(cls.secure)
        req = (drv.MockSSLRequest if tls else drv.MockRequest)(rfile, wfile)
        server = drv.FakeServer(config)
        h = drv.Handler(req, ("10.77.77.77", "7777"), server)
        request = h.rfile.readline().decode(errors="surrogateescape")
        crashed = None
        with Recorder() as rec:
            try:
                proto = cls(request, server, h, h.rfile, h.wfile, config)
                if clsname in ("GopherProtocol", "SecureGopherProtocol", "GopherPlusProtocol",
                               "SecureGopherPlusProtocol", "URLGopherPlus"):
                    # these set searchrequest / gopherpstring in canhandlerequest
                    ok = proto.canhandlerequest()
                    if not ok:
                        return ["NotAccepted"]
                proto.handle()
            except BaseException as e:  # noqa
                crashed = type(e).__name__
            try:
                out = wfile.getvalue()
            except ValueError:
                out = getattr(wfile, "final", b"")
        return classify(rec, clsname, out, crashed)

    def endtoend(config, data, tls):
        """Through GopherRequestHandler.handle(): the server picks the protocol."""
        picked = {}
        orig_gp = ProtocolMultiplexer.getProtocol

        def getProtocol(*a, **k):
            p = orig_gp(*a, **k)
            picked["cls"] = type(p).__name__
            orig_handle = p.handle

            def handle():
                try:
                    return orig_handle()
                except BaseException as e:  # noqa
                    picked["crash"] = type(e).__name__
                    raise

            p.handle = handle
            return p

        ProtocolMultiplexer.getProtocol = getProtocol
        try:
            with Recorder() as rec:
                r = drv.serve_once(config, data, tls=tls)
        finally:
            ProtocolMultiplexer.getProtocol = orig_gp
        out = drv.s2b(r["out"])
        clsname = picked.get("cls")
        if clsname is None:
            return [None, ["NoProtocol", r["exc"]]]
        return [clsname, classify(rec, clsname, out, picked.get("crash"))]

    def op_k05_route(job):
        """job: waptop, cases: [{mode: direct|e2e, cls, tls, data(latin1)}]"""
        import tempfile, shutil
        tmp = tempfile.mkdtemp(prefix="pgverif-k05-")
        try:
            config = drv.make_config(tmp, {"protocols.wap.WAPProtocol": {"waptop": job.get("waptop", "/wap")}})
            drv.init_process(config)
            out = []
            for c in job["cases"]:
                data = drv.s2b(c["data"])
                if c["mode"] == "direct":
                    out.append([c["cls"], direct(config, c["cls"], data)])
                else:
                    out.append(endtoend(config, data, c.get("tls", False)))
            return out
        finally:
            shutil.rmtree(tmp, ignore_errors=True)

    def op_k05_urlparse(job):
        out = []
        for cps in job["inputs"]:
            s = S(cps)
            try:
                u = urllib.parse.urlparse(s)
                out.append([L(u.scheme), L(u.netloc), L(u.path), L(u.params), L(u.query), L(u.fragment)])
            except ValueError:
                out.append(None)
        return out

    def op_k05_qs(job):
        out = []
        for cps in job["inputs"]:
            s = S(cps)
            d = urllib.parse.parse_qs(s, errors="surrogateescape")
            first = d["searchrequest"][0] if "searchrequest" in d else None
            pairs = urllib.parse.parse_qsl(s, errors="surrogateescape")
            out.append([L(first), [[L(a), L(b)] for a, b in pairs]])
        return out

    def op_c05_folders(job):
        """Browse the folders of one directory the way a client does: fetch the listing of job["top"], every folder it
        advertises, and every item each folder listing advertises — with the NAME the listing showed for the item.
        job: tree, config, protos, top (latin-1), follow_all: protocols in which every item of a long listing is followed,
        long: number of items from which a listing counts as long, fractions: which items of a long listing the other
        protocols follow (first two and last three always).
        -> pages: {proto, level: top|folder|item, selector, type, parent, name, index, of, request, out, exc, log}"""
        import os
        import sys
        here = os.path.dirname(os.path.abspath(__file__))
        if here not in sys.path:
            sys.path.insert(0, here)
        import gen
        import pgsite
        import validators as V

        def fetch(w, proto, sel_bytes):
            data, tls = gen.request_bytes(proto, sel_bytes.decode("utf-8", "surrogateescape"))
            r = drv.serve_once(w.config, data, tls=tls)
            return data, r

        def items_of(proto, out):
            """-> [(name bytes, selector bytes, advertised type or None)] for the local links of a listing"""
            try:
                view = pgsite._view_page(proto, out, drv.SERVER_PORT)
            except V.Malformed:
                return []
            types = [None] * len(view)
            if proto in ("gopher", "sgopher", "gopherplus", "sgopherplus"):
                menu = V.parse_gopher_menu(V.validate(proto, out)["body"])
                types = [m["type"] for m in menu]
            view = pgsite.canon_targets(view, drv.SERVER_PORT)
            return [(name, target, typ) for (kind, name, target), typ in zip(view, types) if kind == "link"]

        def page(proto, level, sel, typ, parent, name, index, of, data, r):
            return {"proto": proto, "level": level, "selector": drv.b2s(sel), "type": typ, "parent": parent,
                    "name": None if name is None else drv.b2s(name), "index": index, "of": of,
                    "request": drv.b2s(data), "out": r["out"], "exc": r["exc"], "log": r["log"][-3:]}

        w = drv.World(job)
        try:
            pages = []
            top = drv.s2b(job["top"])
            for proto in job["protos"]:
                data, r = fetch(w, proto, top)
                pages.append(page(proto, "top", top, "1", None, None, None, None, data, r))
                for fname, fsel, ftyp in items_of(proto, drv.s2b(r["out"])):
                    data, r = fetch(w, proto, fsel)
                    pages.append(page(proto, "folder", fsel, ftyp, drv.b2s(top), fname, None, None, data, r))
                    if ftyp not in ("1", None):
                        continue
                    items = items_of(proto, drv.s2b(r["out"]))
                    n = len(items)
                    pick = range(n)
                    if n >= job.get("long", 40) and proto not in job.get("follow_all", []):
                        pick = sorted(set([0, 1, n - 3, n - 2, n - 1] + [int(f * n) for f in job.get("fractions", [])]))
                    for i in pick:
                        name, sel, typ = items[i]
                        data, r2 = fetch(w, proto, sel)
                        pages.append(page(proto, "item", sel, typ, drv.b2s(fsel), name, i + 1, n, data, r2))
            return {"root": w.root, "pages": pages}
        finally:
            w.close()

    def op_c05_crawl_all(job):
        """Crawl a world from / in every protocol following EVERY local link a page of the server contains — the entry rows
        and whatever the renderer adds around them (header and footer navigation, icons, form actions) —, under the handler
        list of job["config"].  -> pages like the shared crawler's, plus "via": row | page (a link outside the entry rows)"""
        import os
        import re
        import sys
        import html as _html
        import urllib.parse as _up
        here = os.path.dirname(os.path.abspath(__file__))
        if here not in sys.path:
            sys.path.insert(0, here)
        import gen
        import validators as V

        HTML_LISTING = b'<!DOCTYPE HTML PUBLIC "-//W3C//DTD HTML 4.0 Transitional//EN" "http://www.w3.org/TR/REC-html40/loose.dtd">\n<HTML><HEAD><TITLE>Gopher'
        ATTR = re.compile(r'''<[A-Za-z][^<>]*?\s(href|action|src)\s*=\s*(?:"([^"]*)"|'([^']*)'|([^\s>]+))''', re.I | re.S)

        def fetch(w, proto, sel_bytes, search=None):
            data, tls = gen.request_bytes(proto, sel_bytes.decode("utf-8", "surrogateescape"), search=search)
            return data, drv.serve_once(w.config, data, tls=tls)

        def links_of(proto, resp):
            """-> [(selector bytes, advertised type or None, via)]"""
            try:
                v = V.validate(proto, resp)
            except V.Malformed:
                return []
            if v["kind"] != "success":
                return []
            body = v["body"]
            out = []
            if proto in ("gopher", "sgopher", "gopherplus", "sgopherplus"):
                try:
                    menu = V.parse_gopher_menu(body)
                except V.Malformed:
                    return []
                for m in menu:
                    if m["type"] != "i" and m["host"] == b"gopher.example" and m["port"] == drv.SERVER_PORT \
                            and not m["selector"].startswith((b"URL:", b"/URL:")):
                        out.append((m["selector"], m["type"], "row"))
            elif proto in ("http", "https", "wap"):
                ctype = b"".join(hv for hn, hv in v.get("headers", []) if hn.lower() == "content-type")
                if proto == "wap":
                    if b"text/vnd.wap.wml" not in ctype:
                        return []
                elif not (b"text/html" in ctype and body.startswith(HTML_LISTING)):
                    return []      # a document of the site's author, not a page the server composed
                rows = set()
                if proto != "wap":
                    for row in V.html_rows(body):
                        href = row["href"] or row["form"]
                        if V.is_local_href(href):
                            rows.add(href)
                            out.append((V.unquote_to_selector(href), "7" if row["form"] else None, "row"))
                for m in ATTR.finditer(body.decode("utf-8", "surrogateescape")):
                    href = _html.unescape(next(g for g in m.groups()[1:] if g is not None))
                    if proto == "wap":
                        if not href.startswith("/wap"):
                            continue
                        href = href[4:] or "/"
                    if V.is_local_href(href) and href not in rows:
                        out.append((V.unquote_to_selector(href), "7" if m.group(1).lower() == "action" or "searchrequest" in href else None,
                                    "page" if proto != "wap" else "row"))
            else:
                for l in V.gemtext_links(body):
                    if V.is_local_href(l["href"]):
                        out.append((V.unquote_to_selector(l["href"]), "7" if l.get("search") else None, "row"))
            return out

        w = drv.World(job)
        try:
            pages = []
            for proto in job["protos"]:
                seen = set()
                queue = [(b"/", "1", None, "row")]
                n = 0
                while queue and n < job.get("max_pages", 300):
                    sel, typ, parent, via = queue.pop(0)
                    if sel in seen:
                        continue
                    seen.add(sel)
                    n += 1
                    data, r = fetch(w, proto, sel, search="needle" if typ == "7" else None)
                    out = drv.s2b(r["out"])
                    if proto == "gemini":
                        for _hop in range(3):
                            if out[:2] in (b"10", b"11"):
                                data, r = fetch(w, proto, sel, search="needle")
                            elif out[:2] in (b"30", b"31"):
                                tgt = out.split(b"\r\n")[0][3:].decode("ascii", "surrogateescape")
                                cur = data.decode("ascii", "surrogateescape").strip()
                                joined = _up.urljoin("http" + cur[len("gemini"):], tgt)
                                data = ("gemini" + joined[len("http"):]).encode("ascii", "surrogateescape") + b"\r\n"
                                r = drv.serve_once(w.config, data, tls=True)
                            else:
                                break
                            out = drv.s2b(r["out"])
                    pages.append({"proto": proto, "selector": drv.b2s(sel), "type": typ, "parent": parent, "via": via,
                                  "request": drv.b2s(data), "out": r["out"], "exc": r["exc"], "log": r["log"][-3:]})
                    if typ in ("1", None):
                        for s2, t2, via2 in links_of(proto, out):
                            if s2 not in seen:
                                queue.append((s2, t2, drv.b2s(sel), via2))
            return {"root": w.root, "pages": pages}
        finally:
            w.close()

    OPS["c05_crawl_all"] = op_c05_crawl_all
    OPS["c05_folders"] = op_c05_folders
    OPS["k05_route"] = op_k05_route
    OPS["k05_urlparse"] = op_k05_urlparse
    OPS["k05_qs"] = op_k05_qs
