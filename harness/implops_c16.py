"""C16 — implementation-side operations (run inside the implementation's interpreter).

One job = one scratch world: a document root containing the tree `XT/` (the
"extracted" side, built from the job's `tree` list) and the archive `XT.zip`
written with the real `zipfile` module from the job's `members` list, then a list
of actions against the REAL code: index dump of VFSZip, VFS calls on VFSZip and on
VFS_Real, whole requests through GopherRequestHandler, handler choice."""
import os
import shutil
import stat
import zipfile

ARC = "XT"           # extracted tree = /XT, archive = /XT.zip


class RawInfo(zipfile.ZipInfo):
    """A member whose name is stored as the given raw bytes WITHOUT the UTF-8 flag
    (what zip(1) writes on POSIX); zipfile itself would always set the flag for
    non-ASCII names."""

    def _encodeFilenameFlags(self):
        return self.rawname, self.flag_bits & ~0x800


def write_zip(path, members, s2b):
    with zipfile.ZipFile(path, "w") as z:
        for m in members:
            raw = s2b(m["raw"])
            dt = tuple(m.get("date", (2021, 3, 4, 5, 6, 8)))
            if m.get("utf8flag"):
                zi = zipfile.ZipInfo(raw.decode("utf-8"), date_time=dt)
            else:
                zi = RawInfo(raw.decode("cp437"), date_time=dt)
                zi.rawname = raw
            kind = m["kind"]
            if kind == "link":
                zi.external_attr = (stat.S_IFLNK | 0o777) << 16
                data = s2b(m["dest"])
            elif kind == "dir":
                zi.external_attr = ((stat.S_IFDIR | 0o755) << 16) | 0x10
                data = b""
            else:
                zi.external_attr = (stat.S_IFREG | m.get("mode", 0o644)) << 16
                data = s2b(m.get("data", ""))
            zi.compress_type = zipfile.ZIP_DEFLATED if m.get("deflate") else zipfile.ZIP_STORED
            import warnings
            with warnings.catch_warnings():
                warnings.simplefilter("ignore")
                z.writestr(zi, data)


def prune_links(top):
    """Remove, until nothing changes, every symbolic link below `top` that the OS
    cannot resolve or that resolves to something outside `top` (a dangling link is
    listed by readdir but no handler can serve it; a link leaving the tree is not
    'another member')."""
    removed = []
    rtop = os.path.realpath(top)
    changed = True
    while changed:
        changed = False
        for dp, dns, fns in os.walk(top, followlinks=False):
            for n in dns + fns:
                p = os.path.join(dp, n)
                if os.path.islink(p):
                    ok = os.path.exists(p)
                    if ok:
                        rp = os.path.realpath(p)
                        ok = rp == rtop or rp.startswith(rtop + os.sep)
                    if not ok:
                        os.unlink(p)
                        removed.append(os.path.relpath(p, top))
                        changed = True
    return removed


def clean_caches(root):
    """shelve files of the ZIP index and directory-cache pickles"""
    for dp, dns, fns in os.walk(root, followlinks=False):
        for n in fns:
            if n.startswith(".cache.pygopherd."):
                try:
                    os.unlink(os.path.join(dp, n))
                except OSError:
                    pass


def canon_index(v):
    """dircache of a VFSZip -> {inode: ["d", [[name, inode], ...]] | ["f", filename]} (insertion order kept)"""
    out = {}
    for k, val in v.dircache.items():
        if isinstance(val, dict):
            out[k] = ["d", [[n, i] for n, i in val.items()]]
        else:
            out[k] = ["f", val]
    return out


def register(OPS, drv):
    from pygopherd.handlers import HandlerMultiplexer
    from pygopherd.handlers.base import VFS_Real
    from pygopherd.handlers.ZIP import VFSZip, ZIPHandler

    def infolist(zpath):
        res = []
        with zipfile.ZipFile(zpath) as z:
            for info in z.infolist():
                # the transcoding done at the top of populate_cache's loop
                if info.flag_bits & 0x800:
                    name = info.filename.encode("utf-8").decode(errors="surrogateescape")
                else:
                    name = info.filename.encode("cp437").decode(errors="surrogateescape")
                islink = stat.S_ISLNK(info.external_attr >> 16)
                data = z.read(info.filename)
                res.append({
                    "name": name, "oname": info.filename, "link": islink,
                    "is_dir": info.is_dir(),
                    "data": drv.b2s(data),
                    "dest": data.decode(errors="surrogateescape") if islink else None,
                    "last_with_name": z.getinfo(info.filename) is info,
                })
        return res

    def vfs_call(vfs, op, sel):
        try:
            if op == "stat":
                st = vfs.stat(sel)
                return ["ok", "dir" if stat.S_ISDIR(st[0]) else ("reg" if stat.S_ISREG(st[0]) else "other"),
                        st[6] if stat.S_ISREG(st[0]) else 0]
            if op == "isdir":
                return ["ok", bool(vfs.isdir(sel))]
            if op == "isfile":
                return ["ok", bool(vfs.isfile(sel))]
            if op == "exists":
                return ["ok", bool(vfs.exists(sel))]
            if op == "listdir":
                return ["ok", list(vfs.listdir(sel))]
            if op == "open":
                with vfs.open(sel, "rb") as f:
                    return ["ok", drv.b2s(f.read())]
            if op == "obs":     # what a client can observe of this path through the VFS
                try:
                    st = vfs.stat(sel)
                except OSError:
                    return ["absent"]
                if stat.S_ISDIR(st[0]):
                    return ["dir", sorted(vfs.listdir(sel))]
                with vfs.open(sel, "rb") as f:
                    return ["file", drv.b2s(f.read()), st[6]]
        except (OSError, IOError, KeyError) as e:
            return ["exc", type(e).__name__]
        raise ValueError(op)

    def handler_chain(sel, config):
        """class names of the handler chosen for `sel`, unwrapping ZIP handlers"""
        names = []
        try:
            h = HandlerMultiplexer.getHandler(sel, "", None, config)
            for _ in range(4):
                names.append(type(h).__name__)
                if isinstance(h, ZIPHandler):
                    h._makehandler()
                    h = h.handler
                else:
                    break
        except Exception as e:  # FileNotFound and whatever else
            names.append("!" + type(e).__name__)
        return names

    def rebuild(w, tree, members, prune=True):
        """(re)create /XT from `tree` and rewrite /XT.zip IN PLACE (same path, same inode) from `members`"""
        top = os.path.join(w.root, ARC)
        shutil.rmtree(top, ignore_errors=True)
        os.makedirs(top)
        ents = [dict(e, path=ARC + "/" + e["path"]) for e in tree]
        absl = [e for e in ents if e.get("kind") == "symlink" and e["target"].startswith("/")]
        drv.build_tree(w.root, [e for e in ents if e not in absl])
        for e in absl:
            p = os.path.join(os.fsencode(w.root), drv.s2b(e["path"]))
            os.makedirs(os.path.dirname(p), exist_ok=True)
            os.symlink(os.fsencode(w.root) + b"/" + ARC.encode() + drv.s2b(e["target"]), p)
        pruned = prune_links(top) if prune else []
        zpath = os.path.join(w.root, ARC + ".zip")
        ino = os.stat(zpath).st_ino if os.path.exists(zpath) else None
        write_zip(zpath, members, drv.s2b)          # ZipFile(path, "w") truncates and rewrites the same file
        if ino is not None and os.stat(zpath).st_ino != ino:
            raise RuntimeError("archive was not rewritten in place")
        return sorted(pruned)

    def op_c16(job):
        spec = {"tree": [dict(e, path=ARC + "/" + e["path"]) for e in job.get("tree", [])] +
                        [{"path": ARC, "kind": "dir"}] + job.get("extra_root", []),
                "config": job.get("config")}
        # absolute link targets: the tree's root plays the role of "/"
        w = None
        cwd0 = os.getcwd()
        try:
            pre = []
            for e in spec["tree"]:
                if e.get("kind") == "symlink" and e["target"].startswith("/"):
                    pre.append(e)
            tree_wo_abs = [e for e in spec["tree"] if e not in pre]
            w = drv.World(dict(spec, tree=tree_wo_abs))
            for e in pre:
                p = os.path.join(os.fsencode(w.root), drv.s2b(e["path"]))
                os.makedirs(os.path.dirname(p), exist_ok=True)
                os.symlink(os.fsencode(w.root) + b"/" + ARC.encode() + drv.s2b(e["target"]), p)
            top = os.path.join(w.root, ARC)
            pruned = prune_links(top) if job.get("prune", True) else []
            zpath = os.path.join(w.root, ARC + ".zip")
            write_zip(zpath, job["members"], drv.s2b)
            cwd = os.path.join(w.tmp, "cwd")
            os.makedirs(cwd)
            for e in job.get("cwd_files", []):
                drv.build_tree(cwd, [e])
            os.chdir(cwd)
            out = {"pruned": sorted(pruned), "infolist": infolist(zpath), "actions": []}
            real = VFS_Real(w.config)
            for a in job["actions"]:
                k = a["do"]
                drv.reset_lazies()
                if k == "index":
                    try:
                        v = VFSZip(w.config, real, "/" + ARC + ".zip")
                        r = {"index": canon_index(v), "invalid": sorted(v.invalid_paths),
                             "entrycache": sorted(v.entrycache.keys())}
                    except Exception as e:
                        r = {"exc": type(e).__name__}
                elif k == "vfs":
                    try:
                        v = VFSZip(w.config, real, "/" + ARC + ".zip")
                        r = {"results": [vfs_call(v, op, s) for op, s in a["calls"]]}
                    except Exception as e:
                        r = {"exc": type(e).__name__}
                elif k == "vfs_real":
                    r = {"results": [vfs_call(real, op, s) for op, s in a["calls"]]}
                elif k == "req":
                    r = drv.serve_once(w.config, drv.s2b(a["data"]), tls=a.get("tls", False), trace=a.get("trace", False))
                    if r.get("trace"):
                        r["trace"] = [[c, p.replace(w.tmp, "<TMP>")] for c, p in r["trace"]
                                      if not p.endswith((".py", ".pyc")) and "__pycache__" not in p]
                    r["out"] = r["out"].replace(w.tmp, "<TMP>")
                    r["log"] = [l.replace(w.tmp, "<TMP>") for l in r["log"]][-4:]
                elif k == "handler":
                    r = {"chain": handler_chain(a["sel"], w.config)}
                elif k == "rewrite":
                    # the site is updated while the server keeps running
                    r = {"pruned": rebuild(w, a["tree"], a["members"])}
                else:
                    raise ValueError(k)
                out["actions"].append(r)
                clean_caches(w.root)
            # anything the requests created in the server's working directory
            created = []
            for dp, dns, fns in os.walk(cwd):
                for n in dns + fns:
                    created.append(os.path.relpath(os.path.join(dp, n), cwd))
            out["cwd_created"] = sorted(set(created) - {e["path"] for e in job.get("cwd_files", [])})
            return out
        finally:
            os.chdir(cwd0)
            if w is not None:
                w.close()

    def op_c16_paths(job):
        """the real posixpath functions on a list of strings / pairs"""
        import posixpath
        out = {"norm": [], "split": [], "join": []}
        for p in job.get("paths", []):
            out["norm"].append(posixpath.normpath(p))
            out["split"].append(list(posixpath.split(p)))
        for a, b in job.get("pairs", []):
            out["join"].append(posixpath.join(a, b))
        return out

    OPS["c16"] = op_c16
    OPS["c16_paths"] = op_c16_paths
