"""C16 — implementation-side operations (run inside the implementation's interpreter).

One job = one scratch world: a document root containing the tree `XT/` (the
"extracted" side, built from the job's `tree` list) and the archive `XT.zip`
written with the real `zipfile` module from the job's `members` list, then a list
of actions against the REAL code: index dump of VFSZip, VFS calls on VFSZip and on
VFS_Real, whole requests through GopherRequestHandler, handler choice."""
import os
import shutil
import stat
import zipfile

ARC = "XT"           # extracted tree = /XT, archive = /XT.zip


class RawInfo(zipfile.ZipInfo):
    """A member whose name is stored as the given raw bytes WITHOUT the UTF-8 flag
    (what zip(1) writes on POSIX); zipfile itself would always set the flag for
    non-ASCII names."""

    def _encodeFilenameFlags(self):
        return self.rawname, self.flag_bits & ~0x800


def write_zip(path, members, s2b):
    with zipfile.ZipFile(path, "w") as z:
        for m in members:
            raw = s2b(m["raw"])
            dt = tuple(m.get("date", (2021, 3, 4, 5, 6, 8)))
            if m.get("utf8flag"):
                zi = zipfile.ZipInfo(raw.decode("utf-8"), date_time=dt)
            else:
                zi = RawInfo(raw.decode("cp437"), date_time=dt)
                zi.rawname = raw
            kind = m["kind"]
            if kind == "link":
                zi.external_attr = (stat.S_IFLNK | 0o777) << 16
                data = s2b(m["dest"])
            elif kind == "dir":
                zi.external_attr = ((stat.S_IFDIR | 0o755) << 16) | 0x10
                data = b""
            else:
                zi.external_attr = (stat.S_IFREG | m.get("mode", 0o644)) << 16
                data = s2b(m.get("data", ""))
            zi.compress_type = zipfile.ZIP_DEFLATED if m.get("deflate") else zipfile.ZIP_STORED
            # per-member fields as other tools write them (none of them is part of the tree)
            if m.get("method") and kind == "file":
                zi.compress_type = {"stored": zipfile.ZIP_STORED, "deflate": zipfile.ZIP_DEFLATED,
                                    "bzip2": zipfile.ZIP_BZIP2, "lzma": zipfile.ZIP_LZMA}[m["method"]]
            if "attr" in m and kind == "file":
                zi.external_attr = m["attr"]
            if "create_system" in m:
                zi.create_system = m["create_system"]
            if "extra" in m:
                zi.extra = s2b(m["extra"])
            if "comment" in m:
                zi.comment = s2b(m["comment"])
            if "internal_attr" in m:
                zi.internal_attr = m["internal_attr"]
            if "versions" in m:
                zi.create_version, zi.extract_version = m["versions"]
            import warnings
            with warnings.catch_warnings():
                warnings.simplefilter("ignore")
                z.writestr(zi, data)


def write_zip_raw(path, members, s2b, opts):
    """An archive built record by record, the way Info-ZIP lays it out and zipfile never does:
    the LOCAL header carries a longer extra field (UT with mtime+atime, ux) than the CENTRAL record
    (UT with mtime only, ux); optionally data descriptors (flag bit 3) with zeroed local sizes."""
    import struct
    import zlib
    out = bytearray()
    central = bytearray()
    n = 0
    for m in members:
        raw = s2b(m["raw"])
        kind = m["kind"]
        if kind == "link":
            attr, data = (stat.S_IFLNK | 0o777) << 16, s2b(m["dest"])
        elif kind == "dir":
            attr, data = ((stat.S_IFDIR | 0o755) << 16) | 0x10, b""
        else:
            attr, data = (stat.S_IFREG | m.get("mode", 0o644)) << 16, s2b(m.get("data", ""))
        deflate = bool(m.get("deflate")) and not opts.get("store_all") and kind == "file"
        meth = m.get("method") if kind == "file" and not opts.get("store_all") else None
        if meth == "bzip2":
            import bz2
            payload, method = bz2.compress(data), 12
        elif meth == "stored":
            payload, method = data, 0
        elif deflate or meth in ("deflate", "lzma"):
            c = zlib.compressobj(6, zlib.DEFLATED, -15)
            payload = c.compress(data) + c.flush()
            method = 8
        else:
            payload, method = data, 0
        crc = zlib.crc32(data) & 0xFFFFFFFF
        flags = (0x800 if m.get("utf8flag") else 0) | (m.get("flags", 0) if method == 8 else 0)
        if "attr" in m and kind == "file":
            attr = m["attr"]
        descr = bool(opts.get("descriptor")) and kind == "file"
        if descr:
            flags |= 0x08
        t = 1614834368
        ux = struct.pack("<HHBBIBI", 0x7875, 11, 1, 4, 1000, 4, 1000)
        lextra = struct.pack("<HHBII", 0x5455, 9, 3, t, t) + ux
        cextra = struct.pack("<HHBI", 0x5455, 5, 3, t) + ux
        if "extra" in m:
            lextra, cextra = s2b(m["extra"]), s2b(m["extra"])
        dt = m.get("date", (2021, 3, 4, 5, 6, 8))
        dostime, dosdate = (dt[3] << 11) | (dt[4] << 5) | (dt[5] // 2), ((dt[0] - 1980) << 9) | (dt[1] << 5) | dt[2]
        mcomment = s2b(m.get("comment", ""))
        made_by = (m.get("create_system", 3) << 8) | (m.get("versions", [0x1E, 20])[0] & 0xFF)
        need = m.get("versions", [0x1E, 20])[1]
        if method == 12:
            need = max(need, 46)
        offset = len(out)
        lcrc, lcs, lus = (0, 0, 0) if descr else (crc, len(payload), len(data))
        out += struct.pack("<4sHHHHHIIIHH", b"PK\x03\x04", need, flags, method, dostime, dosdate, lcrc, lcs, lus,
                           len(raw), len(lextra)) + raw + lextra + payload
        if descr:
            out += struct.pack("<4sIII", b"PK\x07\x08", crc, len(payload), len(data))
        central += struct.pack("<4sHHHHHHIIIHHHHHII", b"PK\x01\x02", made_by, need, flags, method, dostime, dosdate, crc,
                               len(payload), len(data), len(raw), len(cextra), len(mcomment), 0, m.get("internal_attr", 0),
                               attr, offset) + raw + cextra + mcomment
        n += 1
    cdoff = len(out)
    comment = b"archive comment, " * 3 if opts.get("comment") else b""
    out += central + struct.pack("<4sHHHHIIH", b"PK\x05\x06", 0, 0, n, n, len(central), cdoff, len(comment)) + comment
    with open(path, "wb") as f:
        f.write(bytes(out))


def write_zip_infozip(path, stage, opts):
    """zip(1) on a staging copy of the tree: extended-timestamp extra fields, explicit directory members,
    symbolic links stored as links; optionally store only, forced data descriptors, forced zip64"""
    import subprocess
    tmp = path + ".tmp-infozip"
    if os.path.exists(tmp):
        os.unlink(tmp)
    cmd = ["zip", "-r", "-y", "-q"]
    if opts.get("store_all"):
        cmd.append("-0")
    if opts.get("descriptor"):
        cmd.append("-fd")
    if opts.get("zip64"):
        cmd.append("-fz")
    p = subprocess.run(cmd + [tmp, "."], cwd=stage, stdout=subprocess.PIPE, stderr=subprocess.STDOUT)
    if p.returncode not in (0, 12) or not os.path.exists(tmp):
        raise RuntimeError("zip failed: %r" % p.stdout[-300:])
    with open(tmp, "rb") as f:
        data = f.read()
    os.unlink(tmp)
    with open(path, "wb") as f:
        f.write(data)


def finish_container(path, opts):
    """what happens to an archive after it was written: a comment is added, a self-extractor stub is
    glued in front (offsets left as they were: `cat stub a.zip`)"""
    if opts.get("comment") and opts.get("writer") != "raw":
        # written into the end-of-central-directory record by hand (zipfile's append mode would re-encode
        # every non-ASCII member name as UTF-8 of its cp437 reading)
        import struct
        with open(path, "rb") as f:
            data = f.read()
        i = data.rfind(b"PK\x05\x06")
        if i >= 0 and data[i + 20:i + 22] == b"\x00\x00" and len(data) == i + 22:
            comment = b"archive comment, " * 3
            data = data[:i + 20] + struct.pack("<H", len(comment)) + comment
            with open(path, "wb") as f:
                f.write(data)
    if opts.get("sfx"):
        with open(path, "rb") as f:
            data = f.read()
        with open(path, "wb") as f:
            f.write(b"#!/bin/sh\n# self-extractor stub\nexit 0\n" + b"\x00JUNK" * 50 + data)


def prune_links(top):
    """Remove, until nothing changes, every symbolic link below `top` that the OS
    cannot resolve or that resolves to something outside `top` (a dangling link is
    listed by readdir but no handler can serve it; a link leaving the tree is not
    'another member')."""
    removed = []
    rtop = os.path.realpath(top)
    changed = True
    while changed:
        changed = False
        for dp, dns, fns in os.walk(top, followlinks=False):
            for n in dns + fns:
                p = os.path.join(dp, n)
                if os.path.islink(p):
                    ok = os.path.exists(p)
                    if ok:
                        rp = os.path.realpath(p)
                        ok = rp == rtop or rp.startswith(rtop + os.sep)
                    if not ok:
                        os.unlink(p)
                        removed.append(os.path.relpath(p, top))
                        changed = True
    return removed


def clean_caches(root):
    """shelve files of the ZIP index and directory-cache pickles"""
    for dp, dns, fns in os.walk(root, followlinks=False):
        for n in fns:
            if n.startswith(".cache.pygopherd."):
                try:
                    os.unlink(os.path.join(dp, n))
                except OSError:
                    pass


def canon_index(v):
    """dircache of a VFSZip -> {inode: ["d", [[name, inode], ...]] | ["f", filename]} (insertion order kept)"""
    out = {}
    for k, val in v.dircache.items():
        if isinstance(val, dict):
            out[k] = ["d", [[n, i] for n, i in val.items()]]
        else:
            out[k] = ["f", val]
    return out


def register(OPS, drv):
    from pygopherd.handlers import HandlerMultiplexer
    from pygopherd.handlers.base import VFS_Real
    from pygopherd.handlers.ZIP import VFSZip, ZIPHandler

    def infolist(zpath):
        res = []
        with zipfile.ZipFile(zpath) as z:
            for info in z.infolist():
                # the transcoding done at the top of populate_cache's loop
                if info.flag_bits & 0x800:
                    name = info.filename.encode("utf-8").decode(errors="surrogateescape")
                else:
                    name = info.filename.encode("cp437").decode(errors="surrogateescape")
                islink = stat.S_ISLNK(info.external_attr >> 16)
                data = z.read(info.filename)
                res.append({
                    "name": name, "oname": info.filename, "link": islink,
                    "is_dir": info.is_dir(),
                    "data": drv.b2s(data),
                    "dest": data.decode(errors="surrogateescape") if islink else None,
                    "last_with_name": z.getinfo(info.filename) is info,
                })
        return res

    def vfs_call(vfs, op, sel):
        try:
            if op == "stat":
                st = vfs.stat(sel)
                return ["ok", "dir" if stat.S_ISDIR(st[0]) else ("reg" if stat.S_ISREG(st[0]) else "other"),
                        st[6] if stat.S_ISREG(st[0]) else 0]
            if op == "isdir":
                return ["ok", bool(vfs.isdir(sel))]
            if op == "isfile":
                return ["ok", bool(vfs.isfile(sel))]
            if op == "exists":
                return ["ok", bool(vfs.exists(sel))]
            if op == "listdir":
                return ["ok", list(vfs.listdir(sel))]
            if op == "open":
                with vfs.open(sel, "rb") as f:
                    return ["ok", drv.b2s(f.read())]
            if op == "obs":     # what a client can observe of this path through the VFS
                try:
                    st = vfs.stat(sel)
                except OSError:
                    return ["absent"]
                if stat.S_ISDIR(st[0]):
                    return ["dir", sorted(vfs.listdir(sel))]
                with vfs.open(sel, "rb") as f:
                    return ["file", drv.b2s(f.read()), st[6]]
        except (OSError, IOError, KeyError) as e:
            return ["exc", type(e).__name__]
        except Exception as e:
            if op == "obs":         # an observation never takes the other paths of its sequence down
                return ["exc", type(e).__name__]
            raise
        raise ValueError(op)

    def handler_chain(sel, config):
        """class names of the handler chosen for `sel`, unwrapping ZIP handlers"""
        names = []
        try:
            h = HandlerMultiplexer.getHandler(sel, "", None, config)
            for _ in range(4):
                names.append(type(h).__name__)
                if isinstance(h, ZIPHandler):
                    h._makehandler()
                    h = h.handler
                else:
                    break
        except Exception as e:  # FileNotFound and whatever else
            names.append("!" + type(e).__name__)
        return names

    def rebuild(w, tree, members, prune=True, container=None, stage_tree=None):
        """(re)create /XT from `tree` and rewrite /XT.zip IN PLACE (same path, same inode) from `members`;
        /only_z holds nothing but a copy of the archive, /only_t nothing but (a link to) the tree, so that
        the menus of the two parents can be compared as a whole"""
        opts = container or {}
        top = os.path.join(w.root, ARC)
        shutil.rmtree(top, ignore_errors=True)
        os.makedirs(top)
        ents = [dict(e, path=ARC + "/" + e["path"]) for e in tree]
        absl = [e for e in ents if e.get("kind") == "symlink" and e["target"].startswith("/")]
        drv.build_tree(w.root, [e for e in ents if e not in absl])
        for e in absl:
            p = os.path.join(os.fsencode(w.root), drv.s2b(e["path"]))
            os.makedirs(os.path.dirname(p), exist_ok=True)
            os.symlink(os.fsencode(w.root) + b"/" + ARC.encode() + drv.s2b(e["target"]), p)
        zpath = os.path.join(w.root, ARC + ".zip")
        ino = os.stat(zpath).st_ino if os.path.exists(zpath) else None
        writer = opts.get("writer", "zipfile")
        if writer == "infozip" and not shutil.which("zip"):
            writer = "raw"
        if writer == "infozip":
            stage = os.path.join(w.tmp, "stage")
            shutil.rmtree(stage, ignore_errors=True)
            os.makedirs(stage)
            drv.build_tree(stage, list(stage_tree if stage_tree is not None else tree))   # link targets as given
            write_zip_infozip(zpath, stage, opts)
            shutil.rmtree(stage, ignore_errors=True)
        elif writer == "raw":
            write_zip_raw(zpath, members, drv.s2b, opts)
        else:
            write_zip(zpath, members, drv.s2b)          # ZipFile(path, "w") truncates and rewrites the same file
        finish_container(zpath, dict(opts, writer=writer))
        if ino is not None and os.stat(zpath).st_ino != ino:
            raise RuntimeError("archive was not rewritten in place")
        pruned = prune_links(top) if prune else []
        oz, ot = os.path.join(w.root, "only_z"), os.path.join(w.root, "only_t")
        os.makedirs(oz, exist_ok=True)
        os.makedirs(ot, exist_ok=True)
        with open(zpath, "rb") as f:
            data = f.read()
        with open(os.path.join(oz, ARC + ".zip"), "wb") as f:
            f.write(data)
        if not os.path.lexists(os.path.join(ot, ARC)):
            os.symlink(os.path.join("..", ARC), os.path.join(ot, ARC))
        return sorted(pruned)

    def op_c16(job):
        spec = {"tree": [dict(e, path=ARC + "/" + e["path"]) for e in job.get("tree", [])] +
                        [{"path": ARC, "kind": "dir"}] + job.get("extra_root", []),
                "config": job.get("config")}
        # absolute link targets: the tree's root plays the role of "/"
        w = None
        cwd0 = os.getcwd()
        try:
            w = drv.World({"tree": [{"path": ARC, "kind": "dir"}] + job.get("extra_root", []), "config": job.get("config")})
            pruned = rebuild(w, job.get("tree", []), job["members"], prune=job.get("prune", True),
                             container=job.get("container"), stage_tree=job.get("stage"))
            zpath = os.path.join(w.root, ARC + ".zip")
            cwd = os.path.join(w.tmp, "cwd")
            os.makedirs(cwd)
            for e in job.get("cwd_files", []):
                drv.build_tree(cwd, [e])
            os.chdir(cwd)
            out = {"pruned": sorted(pruned), "infolist": infolist(zpath) if job.get("infolist", True) else None,
                   "actions": []}
            real = VFS_Real(w.config)
            for a in job["actions"]:
                k = a["do"]
                drv.reset_lazies()
                if k == "index":
                    try:
                        v = VFSZip(w.config, real, "/" + ARC + ".zip")
                        r = {"index": canon_index(v), "invalid": sorted(v.invalid_paths),
                             "entrycache": sorted(v.entrycache.keys())}
                    except Exception as e:
                        r = {"exc": type(e).__name__}
                elif k == "vfs":
                    try:
                        v = VFSZip(w.config, real, "/" + ARC + ".zip")
                        r = {"results": [vfs_call(v, op, s) for op, s in a["calls"]]}
                        if a.get("with_chain"):
                            # what the file system the archive lives in answers to the same calls
                            r["chain"] = [vfs_call(real, op, s) for op, s in a["calls"]]
                    except Exception as e:
                        r = {"exc": type(e).__name__}
                elif k == "vfs_real":
                    r = {"results": [vfs_call(real, op, s) for op, s in a["calls"]]}
                elif k == "req":
                    r = drv.serve_once(w.config, drv.s2b(a["data"]), tls=a.get("tls", False), trace=a.get("trace", False))
                    if r.get("trace"):
                        r["trace"] = [[c, p.replace(w.tmp, "<TMP>")] for c, p in r["trace"]
                                      if not p.endswith((".py", ".pyc")) and "__pycache__" not in p]
                    r["out"] = r["out"].replace(w.tmp, "<TMP>")
                    r["log"] = [l.replace(w.tmp, "<TMP>") for l in r["log"]][-4:]
                elif k == "handler":
                    r = {"chain": handler_chain(a["sel"], w.config)}
                elif k == "rewrite":
                    # the site is updated while the server keeps running
                    r = {"pruned": rebuild(w, a["tree"], a["members"], container=a.get("container"),
                                           stage_tree=a.get("stage"))}
                else:
                    raise ValueError(k)
                out["actions"].append(r)
                clean_caches(w.root)
            # anything the requests created in the server's working directory
            created = []
            for dp, dns, fns in os.walk(cwd):
                for n in dns + fns:
                    created.append(os.path.relpath(os.path.join(dp, n), cwd))
            out["cwd_created"] = sorted(set(created) - {e["path"] for e in job.get("cwd_files", [])})
            return out
        finally:
            os.chdir(cwd0)
            if w is not None:
                w.close()

    def op_c16_paths(job):
        """the real posixpath functions on a list of strings / pairs"""
        import posixpath
        out = {"norm": [], "split": [], "join": []}
        for p in job.get("paths", []):
            out["norm"].append(posixpath.normpath(p))
            out["split"].append(list(posixpath.split(p)))
        for a, b in job.get("pairs", []):
            out["join"].append(posixpath.join(a, b))
        return out

    OPS["c16"] = op_c16
    OPS["c16_paths"] = op_c16_paths
