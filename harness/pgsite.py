"""Site-level helpers shared by C03/C05/C06/C13: crawl a generated tree through all
protocols with the real server code and canonicalise what each protocol showed."""
import html
import re
import urllib.parse

import gen
import trees
import validators as V
from common import impl_run_parallel

SERVER = b"gopher.example"
PORT = 70


def crawl_worlds(specs, protos=None, max_pages=300):
    jobs = []
    for s in specs:
        j = {"op": "crawl", "protos": protos or gen.PROTOCOLS, "max_pages": max_pages}
        j.update(s)
        jobs.append(j)
    res = impl_run_parallel(jobs, chunks=min(len(jobs), 8))
    out = []
    for r in res:
        if not r["ok"]:
            raise RuntimeError(r["err"] + "\n" + r.get("tb", ""))
        out.append(r["res"]["pages"])
    return out


def name_norm(b):
    """Gemini/Spartan show names that are not valid UTF-8 with backslashreplace; apply the
    same normalisation to every protocol before comparing display names (DESIGN C06)."""
    return b.decode("utf-8", "backslashreplace").encode("utf-8")


def gopher_url(typ, selector, host, port):
    return b"gopher://" + host + b":" + str(port).encode() + b"/" + urllib.parse.quote_from_bytes(
        typ.encode() + selector, safe="/").encode()


def view_gopher(menu, port=None):
    """canonical (kind, name, target) sequence of a parsed Gopher menu"""
    port = PORT if port is None else port
    out = []
    for m in menu:
        if m["type"] == "i":
            out.append(("info", name_norm(m["name"]), None))
            continue
        mu = re.match(rb"/?URL:(.+)$", m["selector"], re.S)
        if mu:
            out.append(("url", name_norm(m["name"]), mu.group(1)))
        elif m["host"] == SERVER and m["port"] == port:
            out.append(("link", name_norm(m["name"]), m["selector"]))
        else:
            out.append(("url", name_norm(m["name"]), gopher_url(m["type"], m["selector"], m["host"], m["port"])))
    return out


def _target_of_href(href, strip_prefix=""):
    if href is None:
        return None
    if strip_prefix and href.startswith(strip_prefix + "/"):
        href = href[len(strip_prefix):]
    if V.is_local_href(href):
        sel = V.unquote_to_selector(href)
        return ("link", sel)
    return ("url", href.encode("utf-8", "surrogateescape"))


def view_html(body):
    out = []
    for row in V.html_rows(body):
        name = name_norm(row["text"].encode("utf-8", "surrogateescape"))
        href = row["href"] or row["form"]
        if href is None:
            out.append(("info", name, None))
        else:
            k, t = _target_of_href(href)
            out.append((k, name, t))
    return out


def view_gemtext(body):
    out = []
    lines = body.split(b"\n")
    if lines and lines[-1] == b"":
        lines = lines[:-1]
    for line in lines:
        m = re.match(rb"=[>:] (\S+) (.*)$", line, re.S)
        if m:
            href = m.group(1).decode("ascii", "surrogateescape")
            if href.startswith("/GEMINI-QUERY/"):
                href = href[len("/GEMINI-QUERY"):]
            k, t = _target_of_href(href)
            out.append((k, m.group(2), t))
        else:
            out.append(("info", line, None))
    return out


def view_wml(body):
    text = body.decode("utf-8", "surrogateescape")
    m = re.search(r"<b>.*?</b><br/>\n(.*)</p>\n</card>\n</wml>\n$", text, re.S)
    if not m:
        raise V.Malformed("WML deck frame not recognised")
    items = m.group(1).split("<br/>\n")
    if items and items[-1] == "":
        items = items[:-1]
    out = []
    i = 0
    while i < len(items):
        it = items[i]
        ma = re.fullmatch(r'(?:(.) <a accesskey="(.)" |<a )href="([^"]*)">(.*)</a>', it, re.S)
        if ma:
            href = html.unescape(ma.group(3))
            k, t = _target_of_href(href, "/wap")
            out.append((k, name_norm(html.unescape(ma.group(4)).encode("utf-8", "surrogateescape")), t))
            i += 1
            continue
        # search item: name <br/>\n  <input .../>\n<anchor>Go\n  <go method="get" href="...">...</anchor>\n<br/>\n
        if i + 1 < len(items) and items[i + 1].lstrip().startswith("<input "):
            mg = re.search(r'<go method="get" href="([^"]*)">', items[i + 1])
            href = html.unescape(mg.group(1)) if mg else None
            k, t = _target_of_href(href, "/wap") if href else ("info", None)
            out.append((k, name_norm(html.unescape(it).encode("utf-8", "surrogateescape")), t))
            i += 2
            continue
        out.append(("info", name_norm(html.unescape(it).encode("utf-8", "surrogateescape")), None))
        i += 1
    return out


def canon_self_urls(view, port):
    """a gopher:// URL that names this very server (same host and port) is the same target as the
    local link to that selector: equivalent link targets"""
    pre = b"gopher://" + SERVER + b":" + str(port).encode() + b"/"
    out = []
    for kind, name, target in view:
        if kind == "url" and target is not None and target.startswith(pre) and len(target) > len(pre):
            out.append(("link", name, urllib.parse.unquote_to_bytes(target[len(pre) + 1:])))
        else:
            out.append((kind, name, target))
    return out


def view_page(proto, resp, port=None):
    """(kind, name, target) sequence a client of `proto` sees in a directory page; raises Malformed"""
    return canon_self_urls(_view_page(proto, resp, port), PORT if port is None else port)


def _view_page(proto, resp, port=None):
    v = V.validate(proto, resp)
    if v["kind"] != "success":
        raise V.Malformed("not a success response")
    body = v["body"]
    if proto in ("gopher", "sgopher", "gopherplus", "sgopherplus"):
        return view_gopher(V.parse_gopher_menu(body), port)
    if proto in ("http", "https"):
        return view_html(body)
    if proto == "wap":
        return view_wml(body)
    return view_gemtext(body)
