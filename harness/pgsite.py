"""Site-level helpers shared by C03/C05/C06/C13: crawl a generated tree through all
protocols with the real server code and canonicalise what each protocol showed."""
import html
import re
import urllib.parse

import gen
import trees
import validators as V
from common import impl_run_parallel

SERVER = b"gopher.example"
PORT = 70


def crawl_worlds(specs, protos=None, max_pages=300):
    jobs = []
    for s in specs:
        j = {"op": "crawl", "protos": protos or gen.PROTOCOLS, "max_pages": max_pages}
        j.update(s)
        jobs.append(j)
    res = impl_run_parallel(jobs, chunks=min(len(jobs), 8))
    out = []
    for r in res:
        if not r["ok"]:
            raise RuntimeError(r["err"] + "\n" + r.get("tb", ""))
        out.append(r["res"]["pages"])
    return out


def name_norm(b):
    """Gemini/Spartan show names that are not valid UTF-8 with backslashreplace; apply the
    same normalisation to every protocol before comparing display names (DESIGN C06)."""
    return b.decode("utf-8", "backslashreplace").encode("utf-8")


def gopher_url(typ, selector, host, port):
    return b"gopher://" + host + b":" + str(port).encode() + b"/" + urllib.parse.quote_from_bytes(
        typ.encode() + selector, safe="/").encode()


def view_gopher(menu, port=None):
    """canonical (kind, name, target) sequence of a parsed Gopher menu"""
    port = PORT if port is None else port
    out = []
    for m in menu:
        if m["type"] == "i":
            out.append(("info", name_norm(m["name"]), None))
            continue
        mu = re.match(rb"/?URL:(.+)$", m["selector"], re.S)
        if mu:
            out.append(("url", name_norm(m["name"]), mu.group(1)))
        elif m["host"] == SERVER and m["port"] == port:
            out.append(("link", name_norm(m["name"]), m["selector"]))
        else:
            out.append(("url", name_norm(m["name"]), gopher_url(m["type"], m["selector"], m["host"], m["port"])))
    return out


def _target_of_href(href, strip_prefix=""):
    if href is None:
        return None
    if strip_prefix and href.startswith(strip_prefix + "/"):
        href = href[len(strip_prefix):]
    if V.is_local_href(href):
        sel = V.unquote_to_selector(href)
        return ("link", sel)
    return ("url", href.encode("utf-8", "surrogateescape"))


def view_html(body):
    out = []
    for row in V.html_rows(body):
        name = name_norm(row["text"].encode("utf-8", "surrogateescape"))
        href = row["href"] or row["form"]
        if href is None:
            out.append(("info", name, None))
        else:
            k, t = _target_of_href(href)
            out.append((k, name, t))
    return out


def view_gemtext(body):
    out = []
    lines = body.split(b"\n")
    if lines and lines[-1] == b"":
        lines = lines[:-1]
    for line in lines:
        m = re.match(rb"=[>:] (\S+) (.*)$", line, re.S)
        if m:
            href = m.group(1).decode("ascii", "surrogateescape")
            if href.startswith("/GEMINI-QUERY/"):
                href = href[len("/GEMINI-QUERY"):]
            k, t = _target_of_href(href)
            out.append((k, m.group(2), t))
        else:
            out.append(("info", line, None))
    return out


def view_wml(body):
    text = body.decode("utf-8", "surrogateescape")
    m = re.search(r"<b>.*?</b><br/>\n(.*)</p>\n</card>\n</wml>\n$", text, re.S)
    if not m:
        raise V.Malformed("WML deck frame not recognised")
    items = m.group(1).split("<br/>\n")
    if items and items[-1] == "":
        items = items[:-1]
    out = []
    i = 0
    while i < len(items):
        it = items[i]
        ma = re.fullmatch(r'(?:(.) <a accesskey="(.)" |<a )href="([^"]*)">(.*)</a>', it, re.S)
        if ma:
            href = html.unescape(ma.group(3))
            k, t = _target_of_href(href, "/wap")
            out.append((k, name_norm(html.unescape(ma.group(4)).encode("utf-8", "surrogateescape")), t))
            i += 1
            continue
        # search item: name <br/>\n  <input .../>\n<anchor>Go\n  <go method="get" href="...">...</anchor>\n<br/>\n
        if i + 1 < len(items) and items[i + 1].lstrip().startswith("<input "):
            mg = re.search(r'<go method="get" href="([^"]*)">', items[i + 1])
            href = html.unescape(mg.group(1)) if mg else None
            k, t = _target_of_href(href, "/wap") if href else ("info", None)
            out.append((k, name_norm(html.unescape(it).encode("utf-8", "surrogateescape")), t))
            i += 2
            continue
        out.append(("info", name_norm(html.unescape(it).encode("utf-8", "surrogateescape")), None))
        i += 1
    return out


GOPHER_URL = re.compile(rb"gopher://(\[[^\]/]*\]|[^/:]*)(?::(-?\d*))?(?:/(.*))?$", re.S | re.I)


def parse_gopher_url(url):
    """RFC 4266: gopher://<host>:<port>/<gopher-path>, <gopher-path> = <gophertype><selector>, percent-encoded;
    no path at all or an empty one is the root menu.  -> (host, port, type, selector) or None"""
    m = GOPHER_URL.match(url)
    if not m:
        return None
    host, port, path = m.group(1), m.group(2), m.group(3)
    path = urllib.parse.unquote_to_bytes(path or b"")
    try:
        port = int(port) if port not in (None, b"") else 70
    except ValueError:
        return None
    if path == b"":
        return (host.lower(), port, "1", b"")
    return (host.lower(), port, chr(path[0]), path[1:])


def canon_targets(view, port):
    """Targets as a client resolves them: a gopher:// URL is the tuple (host, port, type, selector) it
    stands for, so that two spellings of one target compare equal and two targets never do; a gopher://
    URL that names this very server (same host and port) is the local link to that selector."""
    out = []
    for kind, name, target in view:
        g = parse_gopher_url(target) if kind == "url" and target is not None else None
        if g is None:
            out.append((kind, name, target))
        elif g[0] == SERVER and g[1] == port and not (g[3] == b"" and g[2] != "1"):
            out.append(("link", name, g[3]))
        else:
            out.append(("url", name, (b"gopher",) + g))
    return out


def canon_self_urls(view, port):
    return canon_targets(view, port)


def view_page(proto, resp, port=None):
    """(kind, name, target) sequence a client of `proto` sees in a directory page; raises Malformed"""
    return canon_targets(_view_page(proto, resp, port), PORT if port is None else port)


def _view_page(proto, resp, port=None):
    v = V.validate(proto, resp)
    if v["kind"] != "success":
        raise V.Malformed("not a success response")
    body = v["body"]
    if proto in ("gopher", "sgopher", "gopherplus", "sgopherplus"):
        return view_gopher(V.parse_gopher_menu(body), port)
    if proto in ("http", "https"):
        return view_html(body)
    if proto == "wap":
        return view_wml(body)
    return view_gemtext(body)


def gplus_info_lines(body):
    """the +INFO lines (item descriptors) of a Gopher+ attribute listing, as a plain menu"""
    out = []
    for line in body.split(b"\r\n"):
        if line.startswith(b"+INFO: "):
            out.append(line[len(b"+INFO: "):] + b"\r\n")
        elif line.startswith(b"+INFO:"):
            out.append(line[len(b"+INFO:"):] + b"\r\n")
    return b"".join(out)


def view_gplus_dir(proto, resp, port=None):
    """the listing a client reads off the reply to a Gopher+ "$..." request: one item per +INFO line"""
    v = V.validate(proto, resp)
    if v["kind"] != "success":
        raise V.Malformed("not a success response")
    port = PORT if port is None else port
    return canon_targets(view_gopher(V.parse_gopher_menu(gplus_info_lines(v["body"])), port), port)
