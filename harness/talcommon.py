"""Harness pieces shared by c17.py and c18.py: case construction, the real-code runs,
Gallina literal writers for real compiled programs / traces, K runners."""
import json

import talgen
import talref
from common import coq_eval, coq_bool, coq_list, impl_run_parallel

OPTIONS_SPEC = {"o1": ["s", "opt<1>&"]}

GRAMMAR_EXCLUSIONS = [
    "repeat over a mapping (DESIGN D20: outside TAL's definition of repeat; detected dynamically by the reference evaluator, case dropped)",
    "the `default` marker substituted into a string: expression or traversed into (simpleTAL's marker is a str; TALES leaves it undefined; detected dynamically, case dropped)",
    "metal:use-macro whose expression may be `nothing` combined with TAL statements on the same element (METAL leaves it undefined; simpleTAL drops the tag but still runs the statements)",
    "metal:define-slot inside fill-slot content, recursive macros (non-terminating in simpleTAL)",
    "exists:/nocall: with alternation (simpleTAL documents its own rule: later alternatives are full expressions)",
    "alternation after a string: alternative (string: takes the rest in Zope, simpleTAL splits first)",
    "tal:content together with tal:replace, duplicate statements / duplicate attribute names on one element",
    "variables / mapping keys named like Python attributes of dict, list, str (path traversal tries getattr first in both simpleTAL and Zope)",
    "repeat/NAME/end and repeat/NAME/length while repeating over an iterator (TAL does not define them without a length; iterators, generators and next-only objects ARE repeat sources: empty, one-shot, exhausted by an earlier loop)",
]


def coq_s(s):
    """Python str -> Gallina str literal; printable ASCII as (lit "...") to keep files small"""
    if s and all(32 <= ord(c) <= 126 for c in s):
        return '(lit "%s"%%string)' % s.replace('"', '""')
    return "([" + ";".join(str(ord(c)) for c in s) + "])%N"


def tlist(items, ty):
    """list literal; the empty list carries its type so that a shard never has an undetermined []"""
    items = list(items)
    return coq_list(items) if items else "(@nil (%s))" % ty


def coq_pairs(pairs):
    return tlist(("(%s, %s)" % (coq_s(a), coq_s(b)) for a, b in pairs), "str * str")


def coq_cmd(c):
    op = c[0]
    if op == 1:
        return "CDefine " + tlist(("(%s, (%s, %s))" % (coq_bool(a), coq_s(b), coq_s(e)) for a, b, e in c[1]),
                                  "bool * (str * str)")
    if op == 2:
        return "CCondition %s %d" % (coq_s(c[1]), c[2])
    if op == 3:
        return "CRepeat %s %s %d" % (coq_s(c[1]), coq_s(c[2]), c[3])
    if op == 4:
        return "CContent %s %s %s %d" % (coq_bool(c[1]), coq_bool(c[2]), coq_s(c[3]), c[4])
    if op == 6:
        return "CAttributes " + coq_pairs(c[1])
    if op == 7:
        return "COmitTag " + coq_s(c[1])
    if op == 8:
        return "CStartScope %s %s" % (coq_pairs(c[1]), coq_pairs(c[2]))
    if op == 9:
        return "COutput " + coq_s(c[1])
    if op == 10:
        return "CStartTag %s %s" % (coq_s(c[1]), coq_bool(c[2]))
    if op == 11:
        return "CEndTagEndScope %s %s %s" % (coq_s(c[1]), coq_bool(c[2]), coq_bool(c[3]))
    if op == 13:
        return "CNoOp"
    if op == 14:
        return "CUseMacro %s %s %d" % (coq_s(c[1]), tlist(("(%s, (%d, %d))" % (coq_s(n), a, b) for n, a, b in c[2]),
                                                          "str * subt"), c[3])
    if op == 15:
        return "CDefineSlot %s %d" % (coq_s(c[1]), c[2])
    raise ValueError("opcode %r is not part of the byte code model" % (c,))


def coq_program(prog):
    """(program, (symtab, macrotab)) literal in nat_scope / N strings"""
    cmds = tlist((coq_cmd(c) for c in prog["cmds"]), "cmd")
    sym = tlist(("(%d, %d)" % (k, v) for k, v in prog["sym"]), "nat * nat")
    mac = tlist(("(%s, (%d, %d))" % (coq_s(n), a, b) for n, a, b in prog["macros"]), "str * subt")
    return "((%s)%%nat, ((%s)%%nat, (%s)%%nat))" % (cmds, sym, mac)


def coq_tag(t):
    k = t[0]
    if k == "n":
        return "TgNone"
    if k == "c":
        return "TgCond " + coq_bool(t[1])
    if k == "r":
        if t[1] == "d":
            return "TgRep RDefault"
        if t[1] == "s":
            return "TgRep RSkip"
        return "TgRep (RLoop %d)" % t[1]
    if k == "v":
        return {"n": "TgVal VNothing", "d": "TgVal VDefault", "v": "TgVal VValue"}.get(t[1]) or "TgVal (VTemplate %d)" % t[1]
    if k == "m":
        return {"n": "TgMac MNothing", "o": "TgMac MOther"}.get(t[1]) or "TgMac (MMacro %d)" % t[1]
    raise ValueError(t)


def coq_trace_case(prog, tr):
    es = tlist(("(%d, %s)" % (pc, coq_tag(t)) for pc, t in tr["entries"]), "entry")
    names = lambda l: tlist((coq_s(x) for x in l), "str")
    return "(%s, ((%s)%%nat, (%s, (%s, %s))))" % (coq_program(prog), es, names(tr["globals0"]), names(tr["locals1"]),
                                                    names(tr["globals1"]))


def coq_atts(a):
    return tlist(("(%s, %s)" % (coq_s(k), "None" if v is None else "Some %s" % coq_s(v)) for k, v in a), "str * option str")


def coq_event(ev):
    k = ev[0]
    if k == "S":
        return "EvStart %s %s" % (coq_s(ev[1]), coq_atts(ev[2]))
    if k == "SE":
        return "EvStartEnd %s %s" % (coq_s(ev[1]), coq_atts(ev[2]))
    if k == "E":
        return "EvEnd " + coq_s(ev[1])
    if k == "T":
        return "EvData %s %s" % (coq_s(ev[1]), coq_bool(ev[2]))
    if k == "C":
        return "EvComment " + coq_s(ev[1])
    if k == "D":
        return "EvDecl " + coq_s(ev[1])
    if k == "P":
        return "EvPi " + coq_s(ev[1])
    raise ValueError("event %r is not part of the compiler model" % (ev,))


def coq_compile_case(variant, events, prog):
    evs = tlist((coq_event(e) for e in events), "event")
    real = "None" if prog is None else "(Some %s)" % coq_program(prog)
    v = [coq_bool(x) for x in variant]
    return "((%s, (%s, (%s, (%s, %s)))), (%s, %s))" % (v[0], v[1], v[2], v[3], v[4], evs, real)


K_IMPORTS = "Lib.Str Model.TALES Model.TALProg Model.TALVM Model.TALCompile Model.TALDoc Corr.K17"
K_PRE = "From Coq Require Import String.\n"


def k_wf(prop, name, progs, shard=150):
    cases = [coq_program(p) for p in progs]
    return coq_eval(prop, name, K_IMPORTS, "chk_wf", cases, shard=shard, pre=K_PRE)


def k_trace(prop, name, items, shard=100):
    cases = [coq_trace_case(p, t) for p, t in items]
    return coq_eval(prop, name, K_IMPORTS, "chk_trace", cases, shard=shard, pre=K_PRE)


def k_compile(prop, name, items, variant, shard=120):
    """items: [(events, real program or None)]"""
    cases = [coq_compile_case(variant, ev, p) for ev, p in items]
    return coq_eval(prop, name, K_IMPORTS, "chk_compile", cases, shard=shard, pre=K_PRE)


PROBES = [('<p tal:content="text foo">d</p>', "text"), ('<script>a<b</script>', "cdata"), ('<p tal:content="x">d', "eof"),
          ('<p tal:define="a b" tal:define="c d">x</p>', "dup"), ('<div metal:define-macro="m" metal:define-slot="s">D</div>', "start")]


def probe_variant():
    """Which of the repairs does the code under test contain?  (v_text, v_cdata, v_eof, v_dup, v_start) —
    selects the variant of Model/TALCompile.v that K compares with; K then checks that variant
    on every generated template."""
    res = run_cases([{"id": i, "main": src, "lib": None, "ctx": {}, "options": None, "want": ["prog"]}
                     for i, (src, _) in enumerate(PROBES)])
    cmds0 = (res[0].get("prog") or {}).get("main", {}).get("cmds", [])
    v_text = any(c[0] == 4 and c[3] == "foo" for c in cmds0)
    cmds1 = (res[1].get("prog") or {}).get("main", {}).get("cmds", [])
    v_cdata = any(c[0] == 9 and "a<b" in c[1] for c in cmds1)
    v_eof = "compile_exc" in res[2]
    v_dup = "compile_exc" in res[3]
    mac = (res[4].get("prog") or {}).get("main", {}).get("macros", [])
    v_start = any(m[1] == 0 for m in mac)
    return (v_text, v_cdata, v_eof, v_dup, v_start)


# templates that exercise the compiler's error paths and corner cases (compile model K)
MALFORMED = ['<p tal:content="x">unclosed', '<p tal:define="x">bad</p>', '<b><p tal:content="x"></b>', '</p>',
             '<p metal:fill-slot="s">x</p>', '<p tal:content="">e</p>', '<tal:block content="x">b</tal:block>',
             '<metal:block define-macro="m9" tal:omit-tag="">b</metal:block>', '<p tal:repeat="x">r</p>',
             '<div metal:define-macro="1x">m</div>', '<p tal:attributes="a">r</p>',
             '<p tal:define="a b;; c; global d e f;local g h;x y  z">r</p>', '<br tal:content="x"><img tal:omit-tag>',
             '<p tal:content="a text b">x</p>', '<p tal:content="text">x</p>', '<p tal:replace="structure">x</p>',
             '<div metal:define-macro="m">a</div><div metal:define-macro="m">b</div>', '<p tal:condition="">c</p>',
             '<p metal:use-macro="">c</p>', '<p metal:define-slot="">c</p>', '<p metal:define-slot="a b">c</p>',
             '<div metal:use-macro="m"><i metal:fill-slot="s">1</i><i metal:fill-slot="s">2</i></div>',
             '<p tal:content="a" tal:replace="b">both</p>', '<p tal:define="a b" tal:define="c d">dup</p>',
             '<p tal:repeat="i l" tal:repeat="j l">dup</p>', '<div metal:use-macro="a" metal:use-macro="b">dup</div>',
             '<tal:block content="a" tal:content="b">dup</tal:block>', '<tal:block omit-tag="" tal:omit-tag="x">fine</tal:block>',
             '<div metal:define-macro="m" metal:define-slot="s">D</div>',
             '<b metal:define-macro="m">M</b><p metal:use-macro="macros/m" metal:define-macro="n">x</p>',
             '<b metal:use-macro="m"><u metal:define-slot="q" metal:fill-slot="s">F</u></b>',
             '<b metal:use-macro="m" metal:fill-slot="s">self</b>', '<b metal:use-macro="m" metal:define-macro="n" tal:define="x y">all</b>',
             '<ul><li tal:repeat="i l">a<li>b</ul>', '<p tal:attributes="a b;;c; d e">x</p>', '<p tal:omit-tag>v</p>',
             '<input tal:attributes="checked c" disabled>', '<p xmlns:foo="http://example.org/ns" foo:bar="1">n</p>',
             '<a tal:define="x string:a;;b;;;c">s</a>', '<p tal:repeat="i  l">two spaces</p>', '<P TAL:CONTENT="x">case</P>',
             '<p tal:content="structure  x">x</p>', '<br/><hr tal:condition="c"/><p tal:content="x"/>']


# ----------------------------------------------------------------------------
# cases
# ----------------------------------------------------------------------------
def make_case(rng, idx, maxdepth, hostile=True, structure=True, metal=True, py=None, lib_prob=0.3, want=(), only=None):
    opts = talgen.GenOpts(maxdepth=maxdepth, structure=structure, metal=metal, py=py, only=only)
    lib_nodes, libm = None, []
    if metal and rng.random() < lib_prob:
        lib_nodes, libm = talgen.gen_template(rng, opts, nmacros=rng.choice([1, 2]), macro_prefix="q", self_path="lib/")
    nodes, macros = talgen.gen_template(rng, opts, libmacros=libm)
    ctx = talgen.gen_context(rng, hostile)
    case = {"id": idx, "main": talgen.serialize(nodes), "lib": talgen.serialize(lib_nodes) if lib_nodes else None,
            "ctx": ctx, "options": OPTIONS_SPEC, "want": list(want), "allow_python": 0}
    return case, nodes, lib_nodes


def run_cases(cases, per_job=40):
    jobs = [{"op": "tal_cases", "cases": cases[i:i + per_job]} for i in range(0, len(cases), per_job)]
    res = impl_run_parallel(jobs)
    flat = []
    for r in res:
        if not r["ok"]:
            raise RuntimeError(r["err"] + "\n" + r.get("tb", ""))
        flat.extend(r["res"])
    return flat


def reference(case, nodes, lib_nodes, pinned=(), allow_python=False):
    """expected output per the reference evaluator; raises talref.OutOfScope"""
    tpls = {"main": nodes}
    if lib_nodes:
        tpls["lib"] = lib_nodes
    counter = [0]
    vals = {k: talgen.build_value(v, counter) for k, v in sorted(case["ctx"].items())}
    options = {k: talgen.build_value(v) for k, v in case["options"].items()} if case.get("options") else None
    if case.get("canary"):
        vals["canary"] = []
    return talref.Ref(tpls, vals, options=options, pinned=pinned, allow_python=allow_python).run()


def replay_doc(case, nodes=None, lib_nodes=None):
    d = {"template": case["main"], "lib_template": case.get("lib"), "context": case["ctx"],
         "options": case.get("options"), "allow_python": case.get("allow_python", 0)}
    if nodes is not None:
        d["tree"] = talgen.tree_json(nodes)
        d["lib_tree"] = talgen.tree_json(lib_nodes) if lib_nodes else None
    return d


def case_from_replay(d):
    case = {"id": 0, "main": d["template"], "lib": d.get("lib_template"), "ctx": d["context"],
            "options": d.get("options"), "allow_python": d.get("allow_python", 0), "want": ["snap"]}
    nodes = talgen.tree_from_json(d["tree"]) if d.get("tree") else None
    lib_nodes = talgen.tree_from_json(d["lib_tree"]) if d.get("lib_tree") else None
    return case, nodes, lib_nodes


def short(s, n=600):
    return s if s is None or len(s) <= n else s[:n] + "...[%d chars]" % len(s)


# ----------------------------------------------------------------------------
# direct (model-independent) statement of program well-formedness on the real commandList
# ----------------------------------------------------------------------------
HEAD_ORDER = {14: 1, 15: 2, 1: 3, 2: 4, 3: 5, 4: 6, 6: 7, 7: 8}


def py_wf(prog):
    """None when the real program is well formed, else a reason.  Written against the property text:
    scopes balanced and properly nested; commands of an element in priority order; every jump
    target is the ENDTAG_ENDSCOPE of the element that owns the command; sub-template ranges are
    whole elements."""
    cmds = prog["cmds"]
    sym = dict((k, v) for k, v in prog["sym"])
    stack = []          # [start index, in_head, last rank, [symbols]]
    spans = {}
    for i, c in enumerate(cmds):
        op = c[0]
        if op == 8:
            if stack and stack[-1][1]:
                return "START_SCOPE at %d inside the command list of the element opened at %d" % (i, stack[-1][0])
            stack.append([i, True, 0, []])
        elif op in HEAD_ORDER:
            if not stack or not stack[-1][1]:
                return "command %d at %d outside an element head" % (op, i)
            if HEAD_ORDER[op] <= stack[-1][2]:
                return "command %d at %d out of priority order" % (op, i)
            stack[-1][2] = HEAD_ORDER[op]
            s = {2: 2, 3: 3, 4: 4, 14: 3, 15: 2}.get(op)
            if s is not None:
                stack[-1][3].append((i, c[s]))
        elif op == 10:
            if not stack or not stack[-1][1]:
                return "STARTTAG at %d without an open element head" % i
            stack[-1][1] = False
        elif op in (9, 13):
            if stack and stack[-1][1]:
                return "OUTPUT at %d inside an element head" % i
        elif op == 11:
            if not stack or stack[-1][1]:
                return "ENDTAG_ENDSCOPE at %d does not close an element body" % i
            start, _, _, syms = stack.pop()
            for at, s in syms:
                if sym.get(s) != i:
                    return "symbol %r of the command at %d points at %r, the owning element ends at %d" % (s, at, sym.get(s), i)
            spans[start] = i
        else:
            return "unknown opcode %r at %d" % (op, i)
    if stack:
        return "element opened at %d never closed" % stack[-1][0]
    subs = [(n, a, b) for n, a, b in prog["macros"]]
    for c in cmds:
        if c[0] == 14:
            subs.extend((n, a, b) for n, a, b in c[2])
    for n, a, b in subs:
        if b not in sym or spans.get(a) != sym[b]:
            return "sub-template %r (%d, symbol %d) is not one element of the program" % (n, a, b)
    return None


class Findings:
    """One replay per stable tag (the smallest input), so that a defect that shows on many generated
    templates prints one line."""

    def __init__(self, chk):
        self.chk = chk
        self.best = {}
        self.count = {}

    def add(self, tag, rep, size):
        self.count[tag] = self.count.get(tag, 0) + 1
        if tag not in self.best or size < self.best[tag][0]:
            self.best[tag] = (size, rep)

    def flush(self):
        for tag in sorted(self.best):
            rep = dict(self.best[tag][1])
            rep["occurrences"] = self.count[tag]
            self.chk.violation(rep, tag=tag)
        n = len(self.best)
        self.best, self.count = {}, {}
        return n


# ----------------------------------------------------------------------------
# K: Context.evaluate and the output functions
# ----------------------------------------------------------------------------
EVAL_PY = ["1+1", "'a<b'", "None", "[]", "s1", "len(l1)", "path('s1')", "undefined_name", "string('x $k1 ')", "exists('nope')"]


def coq_cval(v):
    return "(%s, (%s, (%s, %s)))" % (coq_s(v[0]), coq_bool(v[1]), coq_bool(v[2]), coq_bool(v[3]))


def coq_opt_cval(v):
    return "None" if v is None else "(Some %s)" % coq_cval(v)


def eval_cases(rng, n_ctx, per_ctx):
    """[(allow, ctx spec, [expr...])]"""
    out = []
    for i in range(n_ctx):
        ctx = talgen.gen_context(rng, True)
        sc = talgen.Scope(names=list(talgen.CTX_NAMES) + ["k1", "k2"])
        exprs = []
        for _ in range(per_ctx):
            exprs.append(talgen.gen_expr(rng, sc, None, 0, EVAL_PY if rng.random() < 0.5 else None))
        exprs += ["python:1+1", "not:python:s1", "nope | python:'x'", "string:a ${python:1+1} b", "exists:nope | python:1",
                  "string:$s1 ${l1/0} $$ $nope/x ${", "not:", "exists:", "", "string:", "path: s1 |  t1", "nocall:f1", "f1",
                  "not:default", "not:nothing", "s1|", "|s1", "string:$", "string:${s1", "string:$ x",
                  "nocall:s1 | string:x", "exists:s1 | nope", "nocall: s1 |t1", "exists:nope | s1", "nocall:nope | s1",
                  "nocall:f2/k | string:x", "exists:d3/fn/k | nothing", "not:exists:s1 | nope", "string:${nocall:s1 | t1}"]
        out.append({"allow": i % 2, "ctx": ctx, "exprs": exprs})
    return out


def probe_eval_variant():
    """is the first alternative of `nocall:a | b` / `exists:a | b` stripped (repaired) or handed to traversePath with its
    trailing blank (pinned, finding exists-nocall-first-alternative)?  Selects the variant of Model/TALESEval.v"""
    res = impl_run_parallel([{"op": "tal_eval", "cases": [{"allow": 0, "ctx": {"s1": ["s", "v"]}, "exprs": ["nocall:s1 | string:x"]}]}])
    if not res[0]["ok"]:
        raise RuntimeError(res[0]["err"])
    rr = res[0]["res"][0][0]
    return bool(rr.get("res")) and rr["res"][0] == "v"


def k_eval(prop, name, cases, shard=400):
    """runs the real Context.evaluate (traversals and python evaluations recorded) and the model in Coq"""
    strip1 = probe_eval_variant()
    res = impl_run_parallel([{"op": "tal_eval", "cases": cases[i:i + 8]} for i in range(0, len(cases), 8)])
    lits, src, skipped = [], [], 0
    k = 0
    for r in res:
        if not r["ok"]:
            raise RuntimeError(r["err"] + "\n" + r.get("tb", ""))
        for per_case in r["res"]:
            case = cases[k]
            k += 1
            for expr, rr in zip(case["exprs"], per_case):
                if "exc" in rr:
                    skipped += 1
                    continue
                tr = tlist(("((%s, %s), %s)" % (coq_s(p), coq_bool(c), coq_opt_cval(v)) for p, c, v in rr["trav"]),
                           "(str * bool) * option cval")
                pt = tlist(("(%s, %s)" % (coq_s(e), coq_cval(v)) for e, v in rr["py"]), "str * cval")
                lits.append("((((%s, %s), %s), (%s, %s)), (%s, %d%%nat))" % (coq_bool(strip1), coq_bool(case["allow"]), coq_s(expr), tr, pt,
                                                                   coq_opt_cval(rr["res"]), rr["evals"]))
                src.append({"expression": expr, "allow_python": case["allow"], "context": case["ctx"], "real": rr})
    mism, err, nsh = coq_eval(prop, name, K_IMPORTS, "chk_eval", lits, shard=shard, pre=K_PRE)
    return mism, err, nsh, src, skipped


def k_out(prop, name, rng, n):
    refs = ["&amp;", "&lt;", "&#39;", "&#x3C;", "&nbsp;", "&quot;"]
    marks = ["<script>alert(1)</script>", "<b>", "\" onmouseover=\"x", "</p><p>", "<img src=x>", ">"]
    vals = talgen.HOSTILE + talgen.BENIGN + ["", " ", "a\nb", "\u00e9", "&&&", "<<>>", "\"\"", "''"] + \
        [a + " " + b for a in refs for b in marks] + [b + a for a in refs[:3] for b in marks[:3]]
    inputs = []
    for i in range(n):
        tag = rng.choice(talgen.BLOCK_TAGS + list(talgen.VOID))
        atts = [[rng.choice(talgen.ATTR_NAMES), rng.choice(vals)] for _ in range(rng.choice([0, 1, 2, 3]))]
        inputs.append([tag, atts, rng.choice(vals) if i >= len(vals) else vals[i]])
    from common import impl_run
    r = impl_run([{"op": "tal_escape", "inputs": inputs}])[0]
    if not r["ok"]:
        raise RuntimeError(r["err"] + "\n" + r.get("tb", ""))
    lits = []
    for (tag, atts, v), row in zip(inputs, r["res"]):
        lits.append("((%s, (%s, %s)), (%s, (%s, (%s, (%s, %s)))))" % (
            coq_s(tag), coq_pairs(atts), coq_s(v), coq_s(row[0]), coq_s(row[1]), coq_s(row[2]), coq_s(row[3]), coq_s(row[4])))
    mism, err, nsh = coq_eval(prop, name, K_IMPORTS, "chk_out", lits, shard=500, pre=K_PRE)
    return mism, err, nsh, inputs, r["res"]


# ----------------------------------------------------------------------------
# K: tree-walking specification / data VM vs the real expansion (stage 1 statements)
# ----------------------------------------------------------------------------
STAGE1 = ("condition", "content", "replace", "attributes", "omit-tag")


def k_spec(prop, name, rng, n, maxdepth, shard=100):
    cases = []
    for i in range(n):
        case, nodes, lib = make_case(rng, i, maxdepth, metal=False, lib_prob=0.0, want=["prog", "evals"], only=STAGE1)
        cases.append(case)
    res = run_cases(cases)
    lits, src, skipped = [], [], 0
    for case, r in zip(cases, res):
        if "compile_exc" in r or r.get("exc") or "evals" not in r or len(r["evals"]) >= 3000:
            skipped += 1
            continue
        tbl = tlist(("((%s, %s), %s)" % (coq_s(e), coq_pairs(o), coq_cval(v)) for e, o, v in r["evals"]),
                    "(str * list (str * str)) * cval")
        lits.append("(%s, (%s, %s))" % (coq_program(r["prog"]["main"]), tbl, coq_s(r["out"])))
        src.append({"template": case["main"], "context": case["ctx"], "output": r["out"]})
    mism, err, nsh = coq_eval(prop, name, K_IMPORTS, "chk_spec", lits, shard=shard, pre=K_PRE)
    return mism, err, nsh, src, skipped


TALSIX = ("define", "condition", "repeat", "content", "replace", "attributes", "omit-tag")


def coq_cvalL(v):
    ln = "None" if v[4] is None else "(Some %d%%nat)" % v[4]
    return "(%s, (%s, (%s, (%s, %s))))" % (coq_s(v[0]), coq_bool(v[1]), coq_bool(v[2]), coq_bool(v[3]), ln)


def coq_doc(nodes, cdata=False):
    """the generator's tree as a Model/TALDoc.dnode forest: adjacent character data is one node (html.parser delivers
    one data event per run), attributes in source order with their decoded values"""
    out, pend = [], []

    def flush():
        if pend:
            data = "".join(pend)
            del pend[:]
            if data:
                out.append("DData %s %s" % (coq_s(data), coq_bool(cdata)))

    for n in nodes:
        if isinstance(n, talgen.Text):
            pend.append(n.data)
            continue
        flush()
        if isinstance(n, talgen.Raw):
            src = n.src
            if src.startswith("<!--") and src.endswith("-->"):
                out.append("DComment " + coq_s(src[4:-3]))
            elif src.startswith("<?") and src.endswith(">"):
                out.append("DPi " + coq_s(src[2:-1]))
            elif src.startswith("<!") and src.endswith(">"):
                out.append("DDecl " + coq_s(src[2:-1]))
            else:
                raise ValueError("raw node %r has no document-tree form" % src)
            continue
        atts = coq_atts(talgen.source_parts(n))
        sc = n.form in ("selfclose", "voidslash")
        kids = [] if (sc or n.is_void()) else n.children
        out.append("DElem %s %s %s %s" % (coq_s(n.tag), atts, coq_bool(sc),
                                          coq_doc(kids, cdata=n.tag in ("script", "style"))))
    flush()
    return tlist(("(%s)" % x for x in out), "dnode")


def k_spec_full(prop, name, rng, n, maxdepth, shard=60):
    """all six TAL statements, no METAL: spec + data VM over the 'number of context operations' environment;
    and (chk_doc) the document tree itself: its events are the real parser's, the specification applied to the tree
    writes the real output"""
    cases, trees, dlits = [], [], []
    for i in range(n):
        case, nodes, lib = make_case(rng, i, maxdepth, metal=False, lib_prob=0.0, want=["prog", "evals2", "events"], only=TALSIX)
        cases.append(case)
        trees.append(nodes)
    res = run_cases(cases)
    lits, src, skipped = [], [], 0
    for case, r, nodes in zip(cases, res, trees):
        if "compile_exc" in r or r.get("exc") or "evals2" not in r or len(r["evals2"]) >= 4000 or len(r["out"]) > 20000:
            skipped += 1
            continue
        tbl = tlist(("((%d%%nat, (%s, %s)), %s)" % (ver, coq_s(e), coq_pairs(o), coq_cvalL(v)) for ver, e, o, v in r["evals2"]),
                    "(nat * (str * list (str * str))) * cvalL")
        lits.append("(%s, (%s, (%s, %d%%nat)))" % (coq_program(r["prog"]["main"]), tbl, coq_s(r["out"]), r["nops"]))
        evs = tlist((coq_event(e) for e in r["events"]["main"]), "event")
        dlits.append("((%s, %s), (%s, (%s, %d%%nat)))" % (coq_doc(nodes), evs, tbl, coq_s(r["out"]), r["nops"]))
        src.append({"template": case["main"], "context": case["ctx"], "output": r["out"], "context_operations": r["nops"]})
    mism, err, nsh = coq_eval(prop, name, K_IMPORTS, "chk_spec_full", lits, shard=shard, pre=K_PRE)
    mism_d, err_d, nsh_d = coq_eval(prop, name + "_doc", K_IMPORTS, "chk_doc", dlits, shard=shard, pre=K_PRE)
    K_DOC.clear()
    K_DOC.update({"mismatches": mism_d, "error": err_d, "shards": nsh_d, "cases": len(dlits)})
    return mism, err, nsh, src, skipped


K_DOC = {}
