"""Harness pieces shared by c17.py and c18.py: case construction, the real-code runs,
Gallina literal writers for real compiled programs / traces, K runners."""
import json

import talgen
import talref
from common import coq_eval, coq_bool, coq_list, impl_run_parallel

OPTIONS_SPEC = {"o1": ["s", "opt<1>&"]}

GRAMMAR_EXCLUSIONS = [
    "repeat over a mapping (DESIGN D20: outside TAL's definition of repeat; detected dynamically by the reference evaluator, case dropped)",
    "the `default` marker substituted into a string: expression or traversed into (simpleTAL's marker is a str; TALES leaves it undefined; detected dynamically, case dropped)",
    "metal:use-macro whose expression may be `nothing` combined with TAL statements on the same element (METAL leaves it undefined; simpleTAL drops the tag but still runs the statements)",
    "metal:define-slot inside fill-slot content, recursive macros (non-terminating in simpleTAL)",
    "exists:/nocall: with alternation (simpleTAL documents its own rule: later alternatives are full expressions)",
    "alternation after a string: alternative (string: takes the rest in Zope, simpleTAL splits first)",
    "tal:content together with tal:replace, duplicate statements / duplicate attribute names on one element",
    "variables / mapping keys named like Python attributes of dict, list, str (path traversal tries getattr first in both simpleTAL and Zope)",
    "iterators as repeat sequences",
]


def coq_s(s):
    """Python str -> Gallina str literal; printable ASCII as (lit "...") to keep files small"""
    if s and all(32 <= ord(c) <= 126 for c in s):
        return '(lit "%s"%%string)' % s.replace('"', '""')
    return "([" + ";".join(str(ord(c)) for c in s) + "])%N"


def tlist(items, ty):
    """list literal; the empty list carries its type so that a shard never has an undetermined []"""
    items = list(items)
    return coq_list(items) if items else "(@nil (%s))" % ty


def coq_pairs(pairs):
    return tlist(("(%s, %s)" % (coq_s(a), coq_s(b)) for a, b in pairs), "str * str")


def coq_cmd(c):
    op = c[0]
    if op == 1:
        return "CDefine " + tlist(("(%s, (%s, %s))" % (coq_bool(a), coq_s(b), coq_s(e)) for a, b, e in c[1]),
                                  "bool * (str * str)")
    if op == 2:
        return "CCondition %s %d" % (coq_s(c[1]), c[2])
    if op == 3:
        return "CRepeat %s %s %d" % (coq_s(c[1]), coq_s(c[2]), c[3])
    if op == 4:
        return "CContent %s %s %s %d" % (coq_bool(c[1]), coq_bool(c[2]), coq_s(c[3]), c[4])
    if op == 6:
        return "CAttributes " + coq_pairs(c[1])
    if op == 7:
        return "COmitTag " + coq_s(c[1])
    if op == 8:
        return "CStartScope %s %s" % (coq_pairs(c[1]), coq_pairs(c[2]))
    if op == 9:
        return "COutput " + coq_s(c[1])
    if op == 10:
        return "CStartTag %s %s" % (coq_s(c[1]), coq_bool(c[2]))
    if op == 11:
        return "CEndTagEndScope %s %s %s" % (coq_s(c[1]), coq_bool(c[2]), coq_bool(c[3]))
    if op == 13:
        return "CNoOp"
    if op == 14:
        return "CUseMacro %s %s %d" % (coq_s(c[1]), tlist(("(%s, (%d, %d))" % (coq_s(n), a, b) for n, a, b in c[2]),
                                                          "str * subt"), c[3])
    if op == 15:
        return "CDefineSlot %s %d" % (coq_s(c[1]), c[2])
    raise ValueError("opcode %r is not part of the byte code model" % (c,))


def coq_program(prog):
    """(program, (symtab, macrotab)) literal in nat_scope / N strings"""
    cmds = tlist((coq_cmd(c) for c in prog["cmds"]), "cmd")
    sym = tlist(("(%d, %d)" % (k, v) for k, v in prog["sym"]), "nat * nat")
    mac = tlist(("(%s, (%d, %d))" % (coq_s(n), a, b) for n, a, b in prog["macros"]), "str * subt")
    return "((%s)%%nat, ((%s)%%nat, (%s)%%nat))" % (cmds, sym, mac)


def coq_tag(t):
    k = t[0]
    if k == "n":
        return "TgNone"
    if k == "c":
        return "TgCond " + coq_bool(t[1])
    if k == "r":
        if t[1] == "d":
            return "TgRep RDefault"
        if t[1] == "s":
            return "TgRep RSkip"
        return "TgRep (RLoop %d)" % t[1]
    if k == "v":
        return {"n": "TgVal VNothing", "d": "TgVal VDefault", "v": "TgVal VValue"}.get(t[1]) or "TgVal (VTemplate %d)" % t[1]
    if k == "m":
        return {"n": "TgMac MNothing", "o": "TgMac MOther"}.get(t[1]) or "TgMac (MMacro %d)" % t[1]
    raise ValueError(t)


def coq_trace_case(prog, tr):
    es = tlist(("(%d, %s)" % (pc, coq_tag(t)) for pc, t in tr["entries"]), "entry")
    names = lambda l: tlist((coq_s(x) for x in l), "str")
    return "(%s, ((%s)%%nat, (%s, (%s, %s))))" % (coq_program(prog), es, names(tr["globals0"]), names(tr["locals1"]),
                                                    names(tr["globals1"]))


K_IMPORTS = "Lib.Str Model.TALES Model.TALProg Model.TALVM Corr.K17"
K_PRE = "From Coq Require Import String.\n"


def k_wf(prop, name, progs, shard=150):
    cases = [coq_program(p) for p in progs]
    return coq_eval(prop, name, K_IMPORTS, "chk_wf", cases, shard=shard, pre=K_PRE)


def k_trace(prop, name, items, shard=100):
    cases = [coq_trace_case(p, t) for p, t in items]
    return coq_eval(prop, name, K_IMPORTS, "chk_trace", cases, shard=shard, pre=K_PRE)


# ----------------------------------------------------------------------------
# cases
# ----------------------------------------------------------------------------
def make_case(rng, idx, maxdepth, hostile=True, structure=True, metal=True, py=None, lib_prob=0.3, want=()):
    opts = talgen.GenOpts(maxdepth=maxdepth, structure=structure, metal=metal, py=py)
    lib_nodes, libm = None, []
    if metal and rng.random() < lib_prob:
        lib_nodes, libm = talgen.gen_template(rng, opts, nmacros=rng.choice([1, 2]), macro_prefix="q", self_path="lib/")
    nodes, macros = talgen.gen_template(rng, opts, libmacros=libm)
    ctx = talgen.gen_context(rng, hostile)
    case = {"id": idx, "main": talgen.serialize(nodes), "lib": talgen.serialize(lib_nodes) if lib_nodes else None,
            "ctx": ctx, "options": OPTIONS_SPEC, "want": list(want), "allow_python": 0}
    return case, nodes, lib_nodes


def run_cases(cases, per_job=40):
    jobs = [{"op": "tal_cases", "cases": cases[i:i + per_job]} for i in range(0, len(cases), per_job)]
    res = impl_run_parallel(jobs)
    flat = []
    for r in res:
        if not r["ok"]:
            raise RuntimeError(r["err"] + "\n" + r.get("tb", ""))
        flat.extend(r["res"])
    return flat


def reference(case, nodes, lib_nodes, pinned=(), allow_python=False):
    """expected output per the reference evaluator; raises talref.OutOfScope"""
    tpls = {"main": nodes}
    if lib_nodes:
        tpls["lib"] = lib_nodes
    counter = [0]
    vals = {k: talgen.build_value(v, counter) for k, v in sorted(case["ctx"].items())}
    options = {k: talgen.build_value(v) for k, v in case["options"].items()} if case.get("options") else None
    if case.get("canary"):
        vals["canary"] = []
    return talref.Ref(tpls, vals, options=options, pinned=pinned, allow_python=allow_python).run()


def replay_doc(case, nodes=None, lib_nodes=None):
    d = {"template": case["main"], "lib_template": case.get("lib"), "context": case["ctx"],
         "options": case.get("options"), "allow_python": case.get("allow_python", 0)}
    if nodes is not None:
        d["tree"] = talgen.tree_json(nodes)
        d["lib_tree"] = talgen.tree_json(lib_nodes) if lib_nodes else None
    return d


def case_from_replay(d):
    case = {"id": 0, "main": d["template"], "lib": d.get("lib_template"), "ctx": d["context"],
            "options": d.get("options"), "allow_python": d.get("allow_python", 0), "want": ["snap"]}
    nodes = talgen.tree_from_json(d["tree"]) if d.get("tree") else None
    lib_nodes = talgen.tree_from_json(d["lib_tree"]) if d.get("lib_tree") else None
    return case, nodes, lib_nodes


def short(s, n=600):
    return s if s is None or len(s) <= n else s[:n] + "...[%d chars]" % len(s)


# ----------------------------------------------------------------------------
# direct (model-independent) statement of program well-formedness on the real commandList
# ----------------------------------------------------------------------------
HEAD_ORDER = {14: 1, 15: 2, 1: 3, 2: 4, 3: 5, 4: 6, 6: 7, 7: 8}


def py_wf(prog):
    """None when the real program is well formed, else a reason.  Written against the property text:
    scopes balanced and properly nested; commands of an element in priority order; every jump
    target is the ENDTAG_ENDSCOPE of the element that owns the command; sub-template ranges are
    whole elements."""
    cmds = prog["cmds"]
    sym = dict((k, v) for k, v in prog["sym"])
    stack = []          # [start index, in_head, last rank, [symbols]]
    spans = {}
    for i, c in enumerate(cmds):
        op = c[0]
        if op == 8:
            if stack and stack[-1][1]:
                return "START_SCOPE at %d inside the command list of the element opened at %d" % (i, stack[-1][0])
            stack.append([i, True, 0, []])
        elif op in HEAD_ORDER:
            if not stack or not stack[-1][1]:
                return "command %d at %d outside an element head" % (op, i)
            if HEAD_ORDER[op] <= stack[-1][2]:
                return "command %d at %d out of priority order" % (op, i)
            stack[-1][2] = HEAD_ORDER[op]
            s = {2: 2, 3: 3, 4: 4, 14: 3, 15: 2}.get(op)
            if s is not None:
                stack[-1][3].append((i, c[s]))
        elif op == 10:
            if not stack or not stack[-1][1]:
                return "STARTTAG at %d without an open element head" % i
            stack[-1][1] = False
        elif op in (9, 13):
            if stack and stack[-1][1]:
                return "OUTPUT at %d inside an element head" % i
        elif op == 11:
            if not stack or stack[-1][1]:
                return "ENDTAG_ENDSCOPE at %d does not close an element body" % i
            start, _, _, syms = stack.pop()
            for at, s in syms:
                if sym.get(s) != i:
                    return "symbol %r of the command at %d points at %r, the owning element ends at %d" % (s, at, sym.get(s), i)
            spans[start] = i
        else:
            return "unknown opcode %r at %d" % (op, i)
    if stack:
        return "element opened at %d never closed" % stack[-1][0]
    subs = [(n, a, b) for n, a, b in prog["macros"]]
    for c in cmds:
        if c[0] == 14:
            subs.extend((n, a, b) for n, a, b in c[2])
    for n, a, b in subs:
        if b not in sym or spans.get(a) != sym[b]:
            return "sub-template %r (%d, symbol %d) is not one element of the program" % (n, a, b)
    return None
