"""Runs INSIDE the implementation's interpreter (/venv/bin/python, PYTHONPATH=<repo>).
Reads a JSON list of jobs on stdin, prints one JSON list of results on stdout.
Everything here drives the real pygopherd code in-process; nothing is re-implemented."""
import base64
import configparser
import io
import json
import os
import shutil
import socket
import ssl
import stat
import sys
import tempfile
import threading
import time
import traceback

REPO = os.environ.get("VERIF_REPO", "/repo")

_real_stdout = sys.stdout
sys.stdout = sys.stderr  # nothing but the final JSON goes to stdout

import mimetypes  # noqa: E402

from pygopherd import GopherExceptions, gopherentry, initialization, logger  # noqa: E402
import pygopherd.fileext  # noqa: E402
import pygopherd.handlers.base as hbase  # noqa: E402
from pygopherd.handlers import HandlerMultiplexer  # noqa: E402
import pygopherd.handlers.UMN as UMN  # noqa: E402
from pygopherd.protocols import ProtocolMultiplexer  # noqa: E402
from pygopherd.server import GopherRequestHandler  # noqa: E402

# ----------------------------------------------------------------------------
# audit / stat tracing
# ----------------------------------------------------------------------------
_trace = None  # list when recording


def _p(x):
    if isinstance(x, bytes):
        return os.fsdecode(x)
    if isinstance(x, int):
        return f"<fd {x}>"
    try:
        return os.fspath(x) if not isinstance(x, str) else x
    except TypeError:
        return repr(x)


def _audit(event, args):
    t = _trace
    if t is None:
        return
    try:
        if event == "open":
            t.append(("open", _p(args[0])))
        elif event in ("os.listdir", "os.scandir"):
            t.append(("list", _p(args[0]) if args[0] is not None else "."))
        elif event == "subprocess.Popen":
            t.append(("exec", _p(args[0])))
        elif event in ("os.exec", "os.posix_spawn", "os.spawn"):
            t.append(("exec", _p(args[0] if event != "os.spawn" else args[1])))
        elif event in ("os.remove", "os.rename", "os.mkdir", "os.rmdir", "os.truncate", "os.chmod", "os.utime"):
            t.append(("write", _p(args[0])))
    except Exception:  # never let tracing break the run
        pass


sys.addaudithook(_audit)

_orig_stat, _orig_lstat = os.stat, os.lstat


def _stat(path, *a, **k):
    t = _trace
    if t is not None and not isinstance(path, int):
        t.append(("stat", _p(path)))
    return _orig_stat(path, *a, **k)


def _lstat(path, *a, **k):
    t = _trace
    if t is not None and not isinstance(path, int):
        t.append(("stat", _p(path)))
    return _orig_lstat(path, *a, **k)


os.stat, os.lstat = _stat, _lstat

# ----------------------------------------------------------------------------
# fake connection plumbing (same trick as pygopherd/testutil.py)
# ----------------------------------------------------------------------------


class FakeServer:
    def __init__(self, config, name="gopher.example", port=70):
        self.config = config
        self.server_name = name
        self.server_port = port
        self.context = None


class MockRequest(socket.SocketType):
    def __init__(self, rfile, wfile):  # noqa
        self.rfile = rfile
        self.wfile = wfile

    def makefile(self, mode, *_):
        if mode[0] == "r":
            return self.rfile
        return self.wfile

    def __del__(self):  # socket.__del__ would look at a closed fd
        pass


class MockSSLRequest(MockRequest, ssl.SSLSocket):
    pass


class KeepBytesIO(io.BytesIO):
    """wfile whose content survives close()."""

    def close(self):
        self.final = self.getvalue()
        super().close()


class Handler(GopherRequestHandler):
    rbufsize = -1
    wbufsize = -1

    def __init__(self, request, client_address, server):  # noqa
        self.request = request
        self.client_address = client_address
        self.server = server
        self.setup()


_logsink = []
SERVER_PORT = 70      # advertised port of the fake server; a World may change it (spec "server_port")

# a request that does not finish is a finding, not a hang of the harness: interrupt it
import signal  # noqa: E402
REQUEST_TIME_LIMIT = float(os.environ.get("VERIF_REQUEST_TIME_LIMIT", "10"))


class RequestTimeLimit(BaseException):
    pass


def _on_alarm(signum, frame):
    raise RequestTimeLimit("request still running after %.0f s" % REQUEST_TIME_LIMIT)


class time_limit:
    """with time_limit(): ...  -- raises RequestTimeLimit when the block runs longer than the limit"""

    def __enter__(self):
        if _alarm_ok:
            signal.setitimer(signal.ITIMER_REAL, REQUEST_TIME_LIMIT)

    def __exit__(self, *a):
        if _alarm_ok:
            signal.setitimer(signal.ITIMER_REAL, 0)
        return False


try:
    signal.signal(signal.SIGALRM, _on_alarm)
    _alarm_ok = threading.current_thread() is threading.main_thread()
except (ValueError, OSError):
    _alarm_ok = False


def _log(msg):
    _logsink.append(msg)


def reset_lazies():
    hbase.rootpath = None
    HandlerMultiplexer.handlers = None
    HandlerMultiplexer.rootpath = None
    gopherentry.mapping = None
    gopherentry.eaexts = None
    UMN.extstrip = None


def make_config(root, overrides=None):
    config = initialization.init_config(os.path.join(REPO, "conf", "pygopherd.conf"))
    config.set("pygopherd", "root", root)
    config.set("pygopherd", "mimetypes", os.path.join(REPO, "conf", "mime.types"))
    config.set("pygopherd", "tracebacks", "no")
    config.set("logger", "logmethod", "file")
    for sec, opts in (overrides or {}).items():
        if not config.has_section(sec):
            config.add_section(sec)
        for k, v in opts.items():
            if v is None:
                config.remove_option(sec, k)
            else:
                config.set(sec, k, v)
    return config


_mime_key = None


def init_process(config):
    global _mime_key
    logger.log = _log
    logger.priority = None
    GopherExceptions.tracebacks = 0
    key = config.get("pygopherd", "encoding") + "|" + config.get("pygopherd", "mimetypes")
    if key != _mime_key:
        mimetypes.encodings_map.clear()
        mimetypes.encodings_map.update({".gz": "gzip", ".Z": "compress", ".bz2": "bzip2", ".xz": "xz", ".br": "br"})
        pygopherd.fileext.typemap.clear()
        initialization.init_mimetypes(config)
        _mime_key = key
    reset_lazies()


def b2s(b):
    return b.decode("latin-1")


def s2b(s):
    return s.encode("latin-1")


# ----------------------------------------------------------------------------
# scratch trees
# ----------------------------------------------------------------------------
def build_tree(base, tree):
    """tree: list of dicts {path, kind: file|dir|symlink|fifo|socket, data(latin1), mode, mtime, target}.
    Paths are latin-1 strings standing for raw bytes, relative to base."""
    bbase = os.fsencode(base)
    later = []
    for e in tree:
        p = os.path.join(bbase, s2b(e["path"]).lstrip(b"/"))
        kind = e.get("kind", "file")
        os.makedirs(os.path.dirname(p), exist_ok=True)
        if kind == "dir":
            os.makedirs(p, exist_ok=True)
        elif kind == "file":
            with open(p, "wb") as f:
                f.write(s2b(e.get("data", "")))
        elif kind == "symlink":
            os.symlink(s2b(e["target"]), p)
        elif kind == "fifo":
            os.mkfifo(p)
        elif kind == "socket":
            s = socket.socket(socket.AF_UNIX)
            s.bind(p)
            s.close()
        if "mode" in e and kind != "symlink":
            os.chmod(p, e["mode"])
        if "mtime" in e and kind != "symlink":
            later.append((p, e["mtime"]))
    for p, m in reversed(later):
        os.utime(p, (m, m))


def serve_once(config, data, tls=False, trace=False, client=("10.77.77.77", "7777"), wfile=None):
    """One request through the real GopherRequestHandler.handle()."""
    global _trace
    rfile = io.BytesIO(data)
    wfile = wfile if wfile is not None else KeepBytesIO()
    req = (MockSSLRequest if tls else MockRequest)(rfile, wfile)
    server = FakeServer(config, port=SERVER_PORT)
    h = Handler(req, client, server)
    del _logsink[:]
    exc = None
    tr = [] if trace else None
    t0 = time.time()
    _trace = tr
    if _alarm_ok:
        signal.setitimer(signal.ITIMER_REAL, REQUEST_TIME_LIMIT)
    try:
        try:
            h.handle()
        except BaseException as e:  # what would reach socketserver
            exc = type(e).__name__ + ": " + str(e)
        try:
            h.finish()
        except BaseException as e:
            if exc is None and not isinstance(e, ValueError):
                exc = "finish:" + type(e).__name__ + ": " + str(e)
    finally:
        _trace = None
    dt = time.time() - t0
    if _alarm_ok:
        signal.setitimer(signal.ITIMER_REAL, 0)
    out = getattr(wfile, "final", None)
    if out is None:
        try:
            out = wfile.getvalue()
        except Exception:
            out = b""
    return {"out": b2s(out), "log": list(_logsink), "exc": exc, "trace": tr, "secs": round(dt, 4)}


class World:
    def __init__(self, spec):
        self.tmp = tempfile.mkdtemp(prefix="pgverif-")
        self.parent = os.path.join(self.tmp, spec.get("parent_name", "outside"))
        self.root = os.path.join(self.parent, spec.get("root_name", "root"))
        os.makedirs(self.root)
        build_tree(self.root, spec.get("tree", []))
        build_tree(self.parent, spec.get("outside", []))
        # files planted at paths (relative to the top of the world) that an earlier run saw the server look at
        for rel, data in spec.get("plant", []):
            pth = os.path.normpath(os.path.join(self.tmp, rel))
            if not pth.startswith(self.tmp + os.sep) or pth == self.root or pth.startswith(self.root + os.sep) or os.path.lexists(pth):
                continue
            try:
                os.makedirs(os.path.dirname(pth), exist_ok=True)
                with open(pth, "wb") as f:
                    f.write(s2b(data))
            except OSError:
                pass
        self.systmp = None
        if spec.get("tmpdir"):
            # the system's temporary directory is a place outside the root like any other
            self.systmp = os.path.join(self.tmp, "systmp")
            os.makedirs(self.systmp, exist_ok=True)
        self.spec = spec
        global SERVER_PORT
        SERVER_PORT = int(spec.get("server_port", 70))
        self.configure()

    def configure(self):
        spec = self.spec
        root_spelling = spec.get("root_spelling")
        cfgroot = self.root
        if root_spelling == "dotdot":  # like the test helper: a root containing a .. component
            cfgroot = os.path.join(self.root, "..", os.path.basename(self.root))
        elif root_spelling == "relative":  # relative to the working directory at configuration time
            cfgroot = os.path.relpath(self.root, os.getcwd())
        elif root_spelling == "trailing":
            cfgroot = self.root + "/"
        self.config = make_config(cfgroot, spec.get("config"))
        init_process(self.config)

    def close(self):
        shutil.rmtree(self.tmp, ignore_errors=True)


def op_world(job):
    w = World(job)
    cwd0 = os.getcwd()
    tmp0, env0 = tempfile.tempdir, os.environ.get("TMPDIR")
    try:
        if w.systmp:
            tempfile.tempdir = w.systmp
            os.environ["TMPDIR"] = w.systmp
        if job.get("cwd") == "root":
            os.chdir(w.root)
        elif job.get("cwd") == "tmp":
            os.chdir(w.tmp)
        elif job.get("cwd") == "parent":
            os.chdir(w.parent)
        elif job.get("cwd") == "deep":
            d = os.path.join(w.tmp, "x", "y", "z")
            os.makedirs(d, exist_ok=True)
            os.chdir(d)
        w.configure()
        res = []
        hangs = 0
        for r in job["requests"]:
            if r.get("reset_lazies"):
                reset_lazies()
            if hangs >= 3:
                # three requests already ran into the time limit: do not wait for every further one
                res.append({"out": "", "log": [], "exc": "NotServed: skipped after repeated time-limit hits", "trace": [] if r.get("trace") else None,
                            "secs": 0.0})
                continue
            o = serve_once(w.config, s2b(r["data"]), tls=r.get("tls", False), trace=r.get("trace", False))
            if o["exc"] and o["exc"].startswith("RequestTimeLimit"):
                hangs += 1
            res.append(o)
        return {"root": w.root, "parent": w.parent, "results": res}
    finally:
        os.chdir(cwd0)
        tempfile.tempdir = tmp0
        if env0 is None:
            os.environ.pop("TMPDIR", None)
        else:
            os.environ["TMPDIR"] = env0
        w.close()


# ----------------------------------------------------------------------------
# component-level ops
# ----------------------------------------------------------------------------
def _mk_handler(cls, selector, config):
    return cls(selector, "", None, config, None)


def op_strfun(job):
    fn = job["fn"]
    config = make_config("/nonexistent-root")
    out = []
    if fn == "isrequestsecure":
        for s in job["inputs"]:
            out.append(bool(_mk_handler(hbase.BaseHandler, s, config).isrequestsecure()))
    elif fn == "url_isrequestsecure":
        from pygopherd.handlers.url import HTMLURLHandler
        for s in job["inputs"]:
            out.append(bool(_mk_handler(HTMLURLHandler, s, config).isrequestsecure()))
    elif fn == "url_canhandle":
        from pygopherd.handlers.url import HTMLURLHandler
        for s in job["inputs"]:
            out.append(bool(_mk_handler(HTMLURLHandler, s, config).canhandlerequest()))
    elif fn == "slashnormalize":
        from pygopherd.protocols.base import BaseGopherProtocol
        proto = BaseGopherProtocol("", None, None, None, None, config)
        for s in job["inputs"]:
            out.append(proto.slashnormalize(s))
    elif fn == "virtual_split":
        from pygopherd.handlers.virtual import Virtual
        from pygopherd.handlers.url import URLTypeRewriter
        vfs = hbase.VFS_Real(config)
        for s in job["inputs"]:
            v = Virtual(s, "", None, config, None, vfs)
            r = URLTypeRewriter(s, "", None, config, None, vfs)
            out.append([v.selectorreal, v.selectorargs, bool(r.canhandlerequest()), s[2:]])
    elif fn == "getfspath":
        for root, s in job["inputs"]:
            config.set("pygopherd", "root", root)
            hbase.rootpath = None
            try:
                out.append(hbase.VFS_Real(config).getfspath(s))
            except IndexError:
                out.append(None)
        hbase.rootpath = None
    elif fn == "normpath_inside":
        # the OS-level notion the model's `inside` stands for, on symlink-free paths
        for root, p in job["inputs"]:
            try:
                a = os.path.normpath("/" + root).lstrip("/")
                b = os.path.normpath("/" + p).lstrip("/")
                # POSIX keeps exactly two leading slashes; "/" + x avoids that
                ra = [c for c in a.split("/") if c]
                rb = [c for c in b.split("/") if c]
                out.append(rb[:len(ra)] == ra)
            except ValueError:
                out.append(None)
    else:
        raise ValueError("unknown strfun " + fn)
    return out


OPS = {"world": op_world, "strfun": op_strfun}


def main():
    # further ops live in sibling modules
    here = os.path.dirname(os.path.abspath(__file__))
    sys.path.insert(0, here)
    for fn in sorted(os.listdir(here)):
        if fn.startswith("implops_") and fn.endswith(".py"):
            mod = __import__(fn[:-3])
            mod.register(OPS, sys.modules[__name__])
    jobs = json.load(sys.stdin)
    results = []
    for job in jobs:
        try:
            results.append({"ok": True, "res": OPS[job["op"]](job)})
        except Exception as e:
            results.append({"ok": False, "err": type(e).__name__ + ": " + str(e), "tb": traceback.format_exc()})
    _real_stdout.write("\n" + json.dumps(results, ensure_ascii=True) + "\n")
    _real_stdout.flush()


if __name__ == "__main__":
    main()
