"""C04 — documents are delivered byte-for-byte with truthful length and type."""
import base64
import concurrent.futures
import gzip
import html
import json
import os
import re
import sys
import zlib

from common import (Check, coq_eval, coq_str, coq_bool, coq_opt, coq_bytes, impl_run, impl_run_parallel,
                    REPO, NPROC)
import gen
import coqmulti
from c01 import FULL_CONFIG

SIZES = [0, 1, 4095, 4096, 4097, 8191, 8192, 8193, 12287, 12288, 12289]
BIG_BLK, BIG_REPS, BIG_TAIL = 4099, 256, 577          # 1 049 921 bytes, never block aligned
GET_PROTOS = list(gen.PROTOCOLS)
HEAD_PROTOS = ["http", "https", "wap"]
BPROTO = {"gopher": "PGopher", "sgopher": "PGopher", "gopherplus": "PGopherPlus", "sgopherplus": "PGopherPlus",
          "http": "(PHttp GET)", "https": "(PHttp GET)", "gemini": "PGemini", "spartan": "PSpartan"}

DECOMP_PATT = r"\.txt\.(bz2|gz|Z)$"          # the restrictive example of the shipped configuration file
PATT_CONFIG = dict(FULL_CONFIG)
PATT_CONFIG["handlers.file.CompressedFileHandler"] = dict(FULL_CONFIG["handlers.file.CompressedFileHandler"],
                                                          decompresspatt=DECOMP_PATT)
NAMED_CONFIGS = {"default": None, "full": FULL_CONFIG, "fullpatt": PATT_CONFIG, "live": None, "livepatt": PATT_CONFIG}

WML_HEAD = ('<?xml version="1.0"?>\n<!DOCTYPE wml PUBLIC "-//WAPFORUM//DTD WML 1.1//EN"\n'
            '"http://www.wapforum.org/DTD/wml_1.1.xml">\n<wml>\n'
            '<card id="index" title="Text File" newcontext="true">\n<p>\n')
WML_FOOT = "</p>\n</card>\n</wml>\n"


# ----------------------------------------------------------------------------
# generators
# ----------------------------------------------------------------------------
def rand_bytes(rng, n):
    return bytes(rng.getrandbits(8) for _ in range(n))


def text_of_size(rng, n):
    """printable lines with awkward characters, exactly n bytes"""
    alpha = b"abcdefghij <>&\"' \t0123456789"
    out = bytearray()
    while len(out) < n:
        ln = rng.randrange(0, 60)
        out += bytes(rng.choice(alpha) for _ in range(ln)) + rng.choice([b"\n", b"\n", b"\r\n", b" \n", b"\n\n"])
    return bytes(out[:n])


def content_files(rng, tier):
    """[(path, bytes)] — contents chosen by size and by kind"""
    files = []
    for n in SIZES:
        files.append((f"s/b{n}.bin", rand_bytes(rng, n)))
    for n in ([4095, 4096, 4097, 8193] if tier == "quick" else SIZES):
        files.append((f"s/t{n}.txt", text_of_size(rng, n)))
    files += [
        ("t/empty.txt", b""),
        ("t/nonl.txt", b"no newline at the end"),
        ("t/crlf.txt", b"one\r\ntwo\rthree\n\rfour\r\n\r\nfive\n\n\nsix \r\n"),
        ("t/inv.txt", b"caf\xe9 \xff\xfe\n\xc3\n\xe2\x82\nok \xe2\x82\xac\n\x80\x80 \n"),
        ("t/ws.txt", "tail nbsp \nideographic　　\nnel\u0085\nx y \n \t \nend\x0b\x0c\n".encode()),
        ("t/markup.txt", b"<p>&amp; \"q\" 'a' &#x27; &lt;b&gt; </p>\n<p>\n</p>\n</card>\n</wml>\n&\n<\n"),
        ("t/blank.txt", b"\n\n\n"),
        ("t/ctl.txt", bytes(range(0, 32)) + b"\n" + bytes(range(127, 160)) + b"\n"),
    ]
    for i in range(4 if tier == "quick" else 16):
        files.append((f"t/r{i}.txt", text_of_size(rng, rng.randrange(1, 700))))
    files += lookalikes(rng)
    files += longpath_files(rng)
    return files


def longpath_files(rng):
    """Documents reachable only through long request lines: deep trees with long component names
    (each < 255 bytes; the whole path stays below PATH_MAX).  Percent-encoding triples non-ASCII bytes."""
    def comp(word, nbytes):
        w = word.encode("utf-8")
        return (w * (nbytes // len(w) + 1))[:nbytes - nbytes % len(w)] if False else (word * (nbytes // len(w)))

    cyr = "/".join(comp("каталог-", 200) + str(i) for i in range(3))          # ~600 bytes, ~1.7 KiB once encoded
    cjk = "/".join(comp("資料夾", 240) + str(i) for i in range(5))             # ~1.2 KiB raw, ~3.6 KiB encoded
    asc = "/".join(comp("long-ascii-component_", 250) + str(i) for i in range(12))   # ~3 KiB raw
    out = []
    for stem, name, data in ((cyr, "doc.txt", text_of_size(rng, 700)), (cjk, "data.bin", rand_bytes(rng, 5000)),
                             (asc, "a.txt", b"reachable through a three kilobyte selector\n")):
        out.append((("L/" + stem + "/" + name).encode("utf-8").decode("latin-1"), data))
    return out


def lookalikes(rng):
    """Documents whose content (or name) LOOKS like something a more specific handler wants, without
    meeting that handler's documented acceptance rule: each is an ordinary stored document."""
    tail = text_of_size(rng, 200)
    return [
        ("k/desk.txt", b"From the desk of the editor\n\nDear reader,\n" + tail),
        ("k/hours.txt", b"From Monday to Friday we are open 9:00-17:00\nFrom Saturday on, closed\n"),
        ("k/from.bin", b"From \x00\x01\x02\xff\xfe binary \x00" + rand_bytes(rng, 300)),
        ("k/fromnl", b"From \n"),
        ("k/inbox.mbox", b"not a mailbox, just notes\nFrom here on it is text\n"),
        ("k/nomail.mbox", b"From: alice@example.com\nSubject: a header block is not an mbox From_ line\n\nbody\n"),
        ("k/notitle.html", b"<html><body><p>no title element here</p></body></html>\n"),
        ("k/halftitle.html", b"<html><head><title>never closed\n<p>text</p>\n"),
        ("k/htmlish.txt", b"<html><head><title>Titled text</title></head></html>\n"),
        ("k/pk.bin", b"PK\x03\x04" + rand_bytes(rng, 120)),
        ("k/pk.txt", b"PK\x03\x04 is how a ZIP starts\n"),
        ("k/shebang.txt", b"#!/bin/sh\necho this must not run\n"),
        ("k/shebang", b"#!/bin/sh\necho nor this\n"),
        ("k/maplike.txt", b"iWelcome\tfake\t(NULL)\t0\r\n0A file\t/a.txt\n1dir\tsub\n"),
        ("k/linkslike.txt", b"Name=Link\nType=1\nPath=/elsewhere\nHost=example.org\nPort=70\n"),
        ("k/tallike.txt", b'<html><body tal:content="selector">x</body></html>\n'),
        ("k/gzlike.txt", b"\x1f\x8b\x08 looks like gzip magic\n"),
        ("k/gophermap.txt", b"0entry\t/x\n"),
        ("k/cache.pygopherd.dir.txt", b"\x80\x04\x95 not a pickle\n"),
    ]


NAMED = ["sp ace.txt", "q?.txt", "a|b.txt", "per%cent.txt", "per%41.txt", "#frag.txt", "am&p.txt", "semi;colon.txt",
         "a+b.txt", "\xae.txt", "caf\xc3\xa9.txt", "UPPER.TXT", "noext", ".hidden", "arch.tar.gz", "x.tgz",
         "doc.txt.bz2", "pic.GIF", "page.html", "colon:name.txt", "eq=ual.txt", "at@sign.txt", "tilde~.txt",
         "paper.ps.Z", "old.tar.Z", "lower.txt.z", "quote'\".txt", "lt<gt>.txt", "weird.\xe2\x84\xaa", "two.dots.png", "x.svgz", "trailing.", "a.Z",
         "data.json", "nul.bin"]


# ---- names whose PREFIX (not extension) means something to a URL / path library ----
# The MIME tables assign a type to a NAME by its extension.  Library helpers that accept "a URL or a
# path" read more into a string: "<scheme>:" prefixes (RFC 2397 data URLs carry their type before a
# comma), query / fragment / parameter delimiters, leading and trailing dots, percent escapes,
# backslashes.  Whatever string the server hands to such a helper, the advertised type is the table
# entry of the name's extension.
SCHEMES = ["data", "DATA", "Data", "dAtA", "http", "https", "file", "ftp", "mailto", "urn", "gopher", "javascript",
           "blob", "x", "c", "zip", "tel"]
SCHEME_SHAPES = ["{s}:{stem}{e}", "{s}:{stem},{tail}{e}", "{s}:text;charset=x,{stem}{e}", "{s}:;base64,{stem}{e}",
                 "{s}:a=b,{stem}{e}", "{s}:{stem}{e},", "{s}:{e}", "{s}:{s}:{stem}{e}", "{s}:,{e}", "{s}::{stem}{e}"]
OTHER_SHAPES = [".{stem}{e}", "{e}", ".{stem}.x{e}", "{stem}{e}.", "{stem}.{stem}{e}", "{stem}{e}?v=1", "{stem}{e}#top", "{stem}{e};type=i",
                "?{stem}{e}", "#{stem}{e}", ";{stem}{e}", "={stem}{e}", ":{stem}{e}", ",{stem}{e}", "%64ata:{stem}{e}",
                "data%3A{stem}{e}", "~{stem}{e}", "-{stem}{e}", "@{stem}{e}", "{stem}\\x{e}", "data:\\{stem}{e}",
                "{stem}?x=1{e}", "{stem}#x{e}", "{stem} {e}", "{stem}{e}.bak", "{stem}{e}~"]
EXT_POOL = [".csv", ".png", ".html", ".pdf", ".txt", ".gif", ".jpg", ".xml", ".mp3", ".css", ".json", ".tar.gz",
            ".ps.Z", ".tgz", ".svgz", ".PNG", ".Html", ".zip", ".wav", ".mpeg"]
PREFIX_DIRS = [("data:dir", "plain{e}"), ("http:dir", "x.y{e}"), ("dir.png", "noext"), ("bundle.tar.gz", "inner{e}"),
               ("d.html", "data:in{e}"), (".dot.d", "f{e}"), ("q?d", "f{e}"), ("frag#d.gif", "f")]


def prefix_names(rng, tier):
    """[relative path]: every scheme spelling and every shape at least once, extensions rotating
    from a seeded start; the thorough tier takes the whole product with data-like schemes."""
    k = rng.randrange(len(EXT_POOL))
    out = []

    def ext():
        nonlocal k
        k += 1
        return EXT_POOL[k % len(EXT_POOL)]

    def fill(shape, s):
        return shape.format(s=s, stem=rng.choice(["report", "logo", "index", "2024", "a b", "n"]), tail="final", e=ext())
    for i, s in enumerate(SCHEMES):
        out.append(fill(SCHEME_SHAPES[0], s))
        out.append(fill(SCHEME_SHAPES[1 + (i + k) % (len(SCHEME_SHAPES) - 1)], s))
    for i, shape in enumerate(SCHEME_SHAPES[1:]):
        out.append(fill(shape, SCHEMES[(i + k) % 4]))          # one of the data spellings
    if tier == "thorough":
        for s in SCHEMES[:5]:
            for shape in SCHEME_SHAPES:
                for _ in range(3):
                    out.append(fill(shape, s))
    for shape in OTHER_SHAPES:
        out.append(fill(shape, ""))
    # (a selector containing ".." is refused outright, whatever it names: no such names here)
    paths = ["n/" + nm for nm in out if nm not in ("", ".") and ".." not in nm]
    for d, f in PREFIX_DIRS:
        paths.append("n/" + d + "/" + f.format(e=ext()))
    # directly below the root: the selector is "/" + name
    paths += [fill(SCHEME_SHAPES[0], SCHEMES[k % 4]), fill(SCHEME_SHAPES[1], "data"), fill(SCHEME_SHAPES[0], "http")]
    seen, uniq = set(), []
    for pth in paths:
        if pth not in seen:
            seen.add(pth)
            uniq.append(pth)
    return uniq


def prefix_names_of(files):
    return [p for p, _ in files if p.startswith("n/") and p[2:] not in NAMED or "/" not in p]


def named_files(rng, tier="quick"):
    out = []
    for pth in prefix_names(rng, tier):
        nm = pth.rsplit("/", 1)[-1]
        body = b"<html><head><title>T x</title></head></html>\n" if nm.lower().endswith((".html", ".htm")) \
            else ("content of %r\n" % nm).encode() + rand_bytes(rng, 16)
        out.append((pth, body))
    for nm in NAMED:
        body = ("<html><head><title>T %s</title></head></html>\n" % "x").encode() if nm.endswith(".html") \
            else ("content of %r\n" % nm).encode() + rand_bytes(rng, 16)
        out.append(("n/" + nm, body))
    return out


def pattern_doc(tag, n):
    """recognisable, position dependent lines '<tag><8 digits depending on line number and tag>' cut to n bytes"""
    t = tag.encode("ascii")
    mult = (ord(tag[0]) | 1) * 7919             # documents differ at (nearly) every offset, not only in the tag
    return b"".join(t + b"%08d\n" % (i * mult % 10 ** 8) for i in range(n // (len(t) + 9) + 1))[:n]


# documents for concurrent transfers: (path, tag, size); every one spans several 4096-byte copy blocks
CONC_DOCS = [("c/a.bin", "A", 5 * 4096 + 7), ("c/b.bin", "B", 4 * 4096), ("c/c.txt", "c", 70001), ("c/d.bin", "D", 65536 + 4096),
             ("c/e.txt", "e", 3 * 4096 + 1), ("c/f.bin", "F", 2 * 4096 + 4095)]
LIVE_CONC_DOCS = [("c/x.bin", "X", 262144 + 4097), ("c/y.bin", "Y", 262144 + 1), ("c/z.txt", "z", 262144 + 77),
                  ("c/w.bin", "W", 3 * 65536 + 5)]
CONC_SNDBUF = 8192


def conc_tree(docs):
    return [{"path": p, "data": latin(pattern_doc(t, n)), "mtime": 1_700_000_000} for p, t, n in docs]


def conc_groups(rng, tier):
    """(scheduled groups, live groups): each group = {policy/split/seed | client pacing, members: [(path, proto)]};
    the members of a group are DIFFERENT documents in flight at the same time, one connection each."""
    sched = []
    pols = ["burst2", "burst3", "burst5"]
    splits = ["half", "late", "byte", "third", "most"]
    n = 8 if tier == "quick" else 40
    order = []
    for gi in range(n):
        size = [2, 3, 4, 2][gi % 4] if gi < 4 else rng.choice([2, 2, 3, 4, 5])
        while len(order) < size:                      # every protocol syntax in turn, seeded order
            order += rng.sample(GET_PROTOS, len(GET_PROTOS))
        protos, order = order[:size], order[size:]
        docs = rng.sample(CONC_DOCS, size)
        sched.append({"policy": pols[gi] if gi < 3 else rng.choice(pols + ["random", "random", "roundrobin"]),
                      "split": splits[gi % len(splits)] if gi < 5 else rng.choice(splits), "seed": rng.randrange(1 << 16),
                      "members": [(d[0], pr) for d, pr in zip(docs, protos)]})
    live = []
    for gi in range(1 if tier == "quick" else 4):
        size = 3 if gi == 0 else rng.choice([2, 3, 4])
        protos = rng.sample(["gopher", "sgopher", "gopherplus", "sgopherplus", "http", "https", "gemini", "spartan"], size)
        if gi == 0 and not any(gen.TLS[x] for x in protos):
            protos[-1] = "https"
        docs = rng.sample(LIVE_CONC_DOCS, size)
        live.append({"rcvbuf": rng.choice([4096, 8192, 16384]), "stall": 0.3, "piece": rng.choice([4096, 16384, 30000]),
                     "slow_rounds": 30, "members": [(d[0], pr) for d, pr in zip(docs, protos)]})
    return sched, live


def conc_job(mode, group_specs):
    """the implementation-side job for groups of one mode ('sched' | 'live')"""
    docs = CONC_DOCS if mode == "sched" else LIVE_CONC_DOCS
    groups = []
    for g in group_specs:
        rq = []
        for pth, proto in g["members"]:
            data, tls = gen.request_bytes(proto, sel_of(pth), gplus="+")
            rq.append({"data": gen.lat(data), "tls": tls})
        groups.append(dict({k: v for k, v in g.items() if k != "members"}, requests=rq))
    job = {"op": "c04_concurrent" if mode == "sched" else "c04_live_concurrent", "tree": conc_tree(docs), "groups": groups}
    if mode == "sched":
        wd, wt = gen.request_bytes("gopher", "/c/a.bin")
        job["warmup"] = {"data": gen.lat(wd), "tls": wt}
    else:
        job["sndbuf"] = CONC_SNDBUF
    return job


# ---- the SPELLING of the request target -------------------------------------------------------
# One name has many RFC 3986-equivalent spellings.  The server's own menus percent-encode everything
# but "/"; a client may send the characters a path segment allows literally (unreserved, sub-delims,
# ":" and "@"), write escapes in lower case, escape characters that need no escape, or (HTTP) send the
# absolute form of the target.  Every spelling names the same file: it is delivered with that file's
# bytes and type -- never another file's (decoys named like the truncated forms stand next to it).
UNRESERVED = frozenset(b"abcdefghijklmnopqrstuvwxyzABCDEFGHIJKLMNOPQRSTUVWXYZ0123456789-._~")
PCHAR_LITERAL = UNRESERVED | frozenset(b"!$&'()*+,;=:@")
SPELL_CHARS = [";", "=", ",", ":", "@", "!", "$", "&", "'", "(", ")", "*", "+"]
SPELL_STEMS = ["report", "README", "backup", "index", "a b", "Makefile", "notes"]
SPELL_EXTS = [".txt", ".pdf", ".tar", ".png", ".csv", ".gif", "", ".json", ".mp3"]
SPELL_MODES = ["literal", "lowerhex", "allhex", "mixed", "absolute"]


def spell_files(rng, tier):
    """[(path, bytes, is_decoy)]: names with a path-segment delimiter in the LAST component, and decoys
    named like what is left when the name is cut at such a character (other bytes, mostly another type)"""
    names = ["report;v2.txt", "README;1", "backup;1.tar", "a+b;c=d,e.png", ";lead.pdf", "trail.gif;", "x;y;z.csv",
             "p;x=1/q;y=2.mp3", "d;1/plain.png"]
    k = rng.randrange(len(SPELL_EXTS))
    for i, ch in enumerate(SPELL_CHARS):
        for j in range(1 if tier == "quick" else 4):
            stem = SPELL_STEMS[(i + j + k) % len(SPELL_STEMS)]
            ext = SPELL_EXTS[(i + 2 * j + k) % len(SPELL_EXTS)]
            tail = rng.choice(["v2", "1", "x=1", "old", ""])
            names.append(rng.choice([stem + ch + tail + ext, stem + ext + ch + tail, stem + ch + ch + tail + ext,
                                     stem + ch + tail + rng.choice(SPELL_CHARS) + "z" + ext]))
    names = list(dict.fromkeys(names))
    taken = set(names) | {n.split("/")[0] for n in names if "/" in n}
    decoys = []
    for n in names:
        d, _, last = n.rpartition("/")
        for ch in SPELL_CHARS + [" "]:
            cut = last.split(ch)[0]
            if ch == "+":
                cut = last.replace("+", " ")                    # the form-decoding reading of "+"
            cand = (d + "/" if d else "") + cut
            if cut and cut != last and cand not in taken and not any(t.startswith(cand + "/") for t in taken):
                taken.add(cand)
                decoys.append(cand)
    out = [("q/" + n, ("document %r\n" % n).encode() + rand_bytes(rng, 24), False) for n in names]
    out += [("q/" + n, ("DECOY %r -- not what was asked for\n" % n).encode() + rand_bytes(rng, 8), True) for n in decoys]
    return out


def spell_target(raw, mode, rng):
    """one spelling of the path `raw` (bytes, starts with "/")"""
    out = bytearray()
    for c in raw:
        if c == 0x2f:
            out.append(c)
            continue
        if mode == "literal" or mode == "absolute":
            enc, low = c not in PCHAR_LITERAL, False
        elif mode == "lowerhex":
            enc, low = c not in UNRESERVED, True
        elif mode == "allhex":
            enc, low = True, rng.random() < 0.5
        else:
            enc, low = c not in PCHAR_LITERAL or rng.random() < 0.4, rng.random() < 0.5
        out += (b"%%%02x" if low else b"%%%02X") % c if enc else bytes([c])
    return bytes(out)


def spell_request(proto, raw, mode, rng, meth="GET"):
    """(request bytes, tls, may be refused outright)"""
    t = spell_target(raw, mode, rng)
    tls = gen.TLS[proto]
    if proto in ("http", "https", "wap"):
        pre = b"/wap" if proto == "wap" else b""
        if mode == "absolute":
            sch = b"https" if proto == "https" else b"http"
            return (meth.encode() + b" " + sch + b"://gopher.example" + pre + t +
                    b" HTTP/1.1\r\nHost: gopher.example\r\n\r\n"), tls, True
        return meth.encode() + b" " + pre + t + b" HTTP/1.0\r\n\r\n", tls, False
    if proto == "gemini":
        host = b"GOPHER.example" if mode == "absolute" else b"gopher.example"
        return b"gemini://" + host + t + b"\r\n", tls, False
    return b"gopher.example " + t + b" 0\r\n", tls, False


def latin(b):
    return b.decode("latin-1")


def sel_bytes_of(path_latin):
    return b"/" + path_latin.encode("latin-1")


def sel_of(path_latin):
    """selector str (code points, surrogateescape) for a latin-1 coded raw path"""
    return "/" + path_latin.encode("latin-1").decode("utf-8", "surrogateescape")


# ----------------------------------------------------------------------------
# Coq literal helpers
# ----------------------------------------------------------------------------
def ostr(x):
    """option str literal with its type spelled out (a shard may contain only None)"""
    return "(@None str)" if x is None else "(Some %s)" % coq_str(x)


def coq_pairs(name, pairs):
    return "Definition %s : list (str * str) := [%s].\n" % (
        name, "; ".join("(%s, %s)" % (coq_str(k), coq_str(v)) for k, v in pairs))


def tables_pre(t):
    return (coq_pairs("t_suffix", t["suffix_map"]) + coq_pairs("t_enc", t["encodings_map"]) +
            coq_pairs("t_strict", t["types_strict"]) + coq_pairs("t_common", t["types_common"]) +
            "Definition t_default : str := %s.\n" % coq_str(t["default_mimetype"]))


TARGS = "t_suffix t_enc t_strict t_common t_default"
TARGS4 = "t_suffix t_enc t_strict t_common"


def coq_def(name, data):
    return "Definition %s : list N := %s.\n" % (name, coq_bytes(data))


def coq_defs(name, s):
    return "Definition %s : list N := %s.\n" % (name, coq_str(s))


# ----------------------------------------------------------------------------
# independent readers used by the search (no model involved)
# ----------------------------------------------------------------------------
def split_response(proto, out):
    """(meta lines, body) the way a client of the protocol reads; None if malformed"""
    if proto in ("gopher", "sgopher"):
        return [], out
    if proto in ("gopherplus", "sgopherplus", "gemini", "spartan"):
        i = out.find(b"\r\n")
        if i < 0:
            return None
        return [out[:i]], out[i + 2:]
    i = out.find(b"\r\n\r\n")
    if i < 0:
        return None
    return out[:i].split(b"\r\n"), out[i + 4:]


def wml_decode(text):
    """independent WML reader: list of lines, or None"""
    if not (text.startswith(WML_HEAD) and text.endswith(WML_FOOT)):
        return None
    mid = text[len(WML_HEAD):len(text) - len(WML_FOOT)]
    lines = []
    pos = 0
    while pos < len(mid):
        if mid.startswith("</p>\n<p>", pos):
            lines.append("")
            pos += 8
            continue
        j = mid.find("\n", pos)
        if j < 0:
            return None
        lines.append(html.unescape(mid[pos:j]))
        pos = j + 1
    return lines


def name_ext(name):
    """(stem, extension) of a file NAME: the extension starts at the last dot, unless only dots precede it"""
    i = name.rfind(".")
    if i <= 0 or not name[:i].strip("."):
        return name, ""
    return name[:i], name[i:]


def twin_guess(sel, T):
    """Independent reading of the documented lookup, on the NAME (last path component) alone and without
    the library: suffix aliases (case-insensitive), then one encoding suffix (case-SENSITIVE), then the
    type of the remaining suffix (case-insensitive), standard types before common ones.  Nothing else
    in the name (scheme-like prefixes, URL delimiters) plays a part.  T: dict of dicts (documented tables)."""
    base, ext = name_ext(sel.rsplit("/", 1)[-1])
    n = 0
    while ext.lower() in T["suffix"] and n < 8:
        base, ext = name_ext(base + T["suffix"][ext.lower()])
        n += 1
    enc = None
    if ext in T["enc"]:
        enc = T["enc"][ext]
        base, ext = name_ext(base)
    ext = ext.lower()
    if ext in T["strict"]:
        return (T["strict"][ext], enc)
    return (T["common"].get(ext), enc)


def expected_type(guess, default, decompressors=None, tal=False):
    """the documented precedence, from the real mimetypes answer for the name"""
    ty, enc = guess
    if tal:
        return ty                              # the template's own type
    if enc:
        if decompressors and enc in decompressors and ty:
            return ty                          # decompressed on the fly: the inner type
        return "application/octet-stream"
    return ty or default


def advertised(proto, t):
    if proto in ("http", "https"):
        return t or "text/plain"
    if proto == "wap":
        return "text/vnd.wap.wml" if (t is None or t == "text/plain") else t
    return t or "text/plain"


# ----------------------------------------------------------------------------
def run(tier):
    chk = Check("C04", tier)
    chk.proofs(extra_files=["Corr/K04.v"])
    cov = chk.coverage
    rng = chk.rng
    found = False
    kbroken = []          # (name, detail)
    import time as _time
    t_last = [_time.time()]
    timing = chk.notes.setdefault("timing_s", {})

    def tick(label):
        now = _time.time()
        timing[label] = round(now - t_last[0], 1)
        t_last[0] = now
        if os.environ.get("VERIF_TIMING"):
            print("timing", label, timing[label], file=sys.stderr)
    tick("proofs")

    # ---------------- component K: html.escape / decimal / splitext ----------------
    alpha = ["&", "<", ">", '"', "'", "a", "m", "p", ";", "#", "x", "2", "7", "l", "t", "g", "q", "u", "o", " ", "\n",
             "\udcff", "é", "&amp;", "&lt;", "&#x27;", "&quot;"]
    esc_in = [[q, ""] for q in (0, 1)]
    for _ in range(1500 if tier == "quick" else 8000):
        esc_in.append([rng.randrange(2), "".join(rng.choice(alpha) for _ in range(rng.randrange(0, 14)))])
    dec_in = sorted(set([0, 1, 9, 10, 11, 99, 100, 101, 4095, 4096, 4097, 65535, 65536, 10 ** 9, 2 ** 31, 2 ** 32, 2 ** 63,
                         10 ** 20] + [rng.randrange(0, 10 ** rng.randrange(1, 25)) for _ in range(600)]))
    sx_alpha = [".", "/", "a", "B", "t", "x", "z", "g"]
    sx_in = ["", "/", ".", "..", "/.", "/..", "/a", "/a.", "/.a", "/..a", "/a.b/c", "/a.b/.c", "/a.b/c.", "/a/b.c.d"]
    for _ in range(1200):
        sx_in.append("".join(rng.choice(sx_alpha) for _ in range(rng.randrange(1, 9))))
    res = impl_run([{"op": "c04_escape", "inputs": esc_in}, {"op": "c04_dec", "inputs": [str(n) for n in dec_in]},
                    {"op": "c04_splitext", "inputs": sx_in}, {"op": "c04_tables"},
                    {"op": "c04_tables", "config": FULL_CONFIG}, {"op": "c04_documented"},
                    {"op": "c04_documented", "config": FULL_CONFIG}])
    for r in res:
        if not r["ok"]:
            raise RuntimeError(r["err"] + "\n" + r.get("tb", ""))
    esc_out, dec_out, sx_out, live, live_full, doc, doc_full = [r["res"] for r in res]
    # The tables the model and the search use are the DOCUMENTED ones (fresh mimetypes + the configured
    # files + the [pygopherd] encoding option as written); what init_mimetypes left in the running
    # interpreter (`live`) is compared with them below.
    TABS = ("suffix_map", "encodings_map", "types_strict", "types_common")
    tables = dict(live, **{k: doc[k] for k in TABS})
    tables_full = dict(live_full, **{k: doc_full[k] for k in TABS})
    T = {"suffix": dict(doc["suffix_map"]), "enc": dict(doc["encodings_map"]), "strict": dict(doc["types_strict"]),
         "common": dict(doc["types_common"])}
    table_diffs = {}
    for lv, dc, nm in ((live, doc, "default"), (live_full, doc_full, "full")):
        for k in TABS:
            a, b = dict(lv[k]), dict(dc[k])
            if a != b:
                table_diffs[f"{nm}:{k}"] = {"only_in_running_interpreter": sorted(set(a.items()) - set(b.items()))[:12],
                                           "only_in_documented": sorted(set(b.items()) - set(a.items()))[:12]}
    cases = ["((%s, %s), (%s, %s))" % (coq_bool(q), coq_str(s), coq_str(e), coq_str(u))
             for (q, s), (e, u) in zip(esc_in, esc_out)]
    m1, e1, n1 = coq_eval("C04", "k_escape", "Lib.Str Corr.K04", "chk_escape", cases, shard=800)
    cases = ["(%d, %s)" % (n, coq_str(s)) for n, s in zip(dec_in, dec_out)]
    m2, e2, n2 = coq_eval("C04", "k_dec", "Lib.Str Corr.K04", "chk_dec", cases, shard=800)
    cases = ["(%s, (%s, %s))" % (coq_str(p), coq_str(b), coq_str(e)) for p, (b, e) in zip(sx_in, sx_out)]
    m3, e3, n3 = coq_eval("C04", "k_splitext", "Lib.Str Corr.K04", "chk_splitext", cases, shard=800)
    for (q, s) in esc_in:
        chk.count(("esc", q, s), nontrivial=any(c in s for c in "&<>\"'"))
    for n in dec_in:
        chk.count(("dec", n))
    for p in sx_in:
        chk.count(("splitext", p), nontrivial="." in p)
    if m1 or e1:
        kbroken.append(("K04 html.escape/unescape", {"mismatches": [esc_in[i] for i in m1[:10]], "error": e1}))
    if m2 or e2:
        kbroken.append(("K04 decimal printing", {"mismatches": [dec_in[i] for i in m2[:10]], "error": e2}))
    if m3 or e3:
        kbroken.append(("K04 posixpath.splitext", {"mismatches": [sx_in[i] for i in m3[:10]], "error": e3}))
    # direct statements on the implementation's library functions
    for (q, s), (e, u) in zip(esc_in, esc_out):
        if u != s or "<" in e or ">" in e:
            found = True
            chk.violation({"what": "html.escape is not inverted by html.unescape / leaves markup", "input": s,
                           "quote": q, "escaped": e, "unescaped": u}, tag="escape-roundtrip")
    for n, s in zip(dec_in, dec_out):
        if not s.isdigit() or int(s) != n:
            found = True
            chk.violation({"what": "decimal printing does not read back", "n": n, "printed": s}, tag="dec-roundtrip")

    tick("component-strings")
    # ---------------- component K: MIME tables, exhaustively ----------------
    shipped_mapping = [['text/html', 'h'], ['text/.+', '0'], ['application/mac-binhex40', '4'], ['audio/.+', 's'],
                       ['image/gif', 'g'], ['image/.+', 'I'], ['application/gopher-menu', '1'],
                       ['application/gopher\\+-menu', '1'], ['multipart/mixed', 'M'], ['application/.+', '9'], ['.*', '0']]
    mapping_ok = tables["mapping"] == shipped_mapping
    keys_ascii = all(k.isascii() for tab in ("suffix_map", "encodings_map", "types_strict", "types_common")
                     for k, _ in tables[tab])
    exts = sorted(set(k for k, _ in tables["types_strict"]) | set(k for k, _ in tables["types_common"]))
    encs = [""] + [k for k, _ in tables["encodings_map"]]
    enc_keys = sorted(set(encs[1:]) | set(k for k, _ in live["encodings_map"]))
    sufs = [k for k, _ in tables["suffix_map"]]

    def variants(e):
        vs = {e, e.upper(), e.capitalize() if len(e) < 2 else e[0] + e[1].upper() + e[2:]}
        return sorted(vs)

    names = []
    for ei, e in enumerate(exts):
        vs = variants(e)
        if tier == "quick":                     # lower case always, the other spellings alternately
            vs = [e] + [v for v in vs if v != e][ei % 2:][:1]
        for v in vs:
            names.append("/dir.d/name" + v)
        if tier == "thorough":
            for enc in encs[1:]:
                names.append("/dir.d/name" + e + enc)
                for v in variants(e):
                    names.append("/x" + v + enc)
                    names.append("/x" + v + enc.upper())
        else:                                   # every extension with one of the encodings, rotating
            names.append("/dir.d/name" + e + encs[1 + ei % (len(encs) - 1)])
    for s in sufs:
        for v in variants(s):
            names += ["/a" + v, "/a.b" + v, "/a" + v + ".gz"]
    for k in enc_keys:                 # every encoding suffix, as configured and in the other cases
        for stem in ("/paper.ps", "/old.tar", "/a.txt", "/noext", "/x.html"):
            names += [stem + k, stem + k.upper(), stem + k.lower(), stem + k.swapcase()]
    names += ["/", "/noext", "/.hidden", "/.hidden.txt", "/a.", "/a..", "/a..txt", "/d.txt/x", "/a.txt/", "/a.TXT.GZ",
              "/a.tar.gz.bz2", "/a.gz", "/a.gz.gz", "/.gz", "/a.txt.Z", "/a.txt.z", "/a.tal", "/a.html.tal",
              "/a.Kml", "/a.K", "/a.tİf", "/a.é", "/a.txt\n", "/a b.txt", "/a.txt ", "/a.tXt",
              "/a.svgz.gz", "/a.tgz.tgz", "/x.tar.gz", "/x.tar.bz2", "/x.tbz2", "/x.txz", "/x.TGZ", "/x.Tgz",
              "/a:b.txt", "/a.data:text", "/weird.\udcae", "/\udcae.txt"]
    # names with scheme-like prefixes and URL delimiters, below a directory and directly below the root
    for pth in prefix_names(rng, tier):
        nm = pth.rsplit("/", 1)[-1]
        names += ["/p.d/" + nm, "/" + nm, "/" + pth]
    names = sorted(set(names))
    res = impl_run([{"op": "c04_guess", "inputs": names}, {"op": "c04_filemime", "inputs": names}])
    for r in res:
        if not r["ok"]:
            raise RuntimeError(r["err"] + "\n" + r.get("tb", ""))
    guess_out, fm_out = [r["res"] for r in res]
    guess_of = {n: tuple(g) for n, g in zip(names, guess_out)}
    terr = [coqmulti.compile_module("C04", f"C04T_{c}", "Lib.Str", tables_pre(t))
            for c, t in (("default", tables), ("full", tables_full))]
    pre = "Require Import C04T_default."
    cases = ["(%s, (%s, %s))" % (coq_str(n), ostr(t), ostr(e)) for n, (t, e) in zip(names, guess_out)]
    m4, e4, n4 = coq_eval("C04", "k_guess", "Lib.Str Corr.K04", f"chk_guess {TARGS4}", cases, shard=600, pre=pre)
    cases = ["(%s, (%s, (%s, (%s, %s))))" % (coq_str(n), ostr(m), ostr(e), ostr(em), ostr(ty))
             for n, (m, e, em, ty) in zip(names, fm_out)]
    if tier == "quick":
        cases = [c for i, c in enumerate(cases) if i % 3 == 0 or not names[i].startswith(("/dir.d/", "/x"))]
        fm_idx = [i for i in range(len(names)) if i % 3 == 0 or not names[i].startswith(("/dir.d/", "/x"))]
    else:
        fm_idx = list(range(len(names)))
    m5, e5, n5 = coq_eval("C04", "k_filemime", "Lib.Str Corr.K04", f"chk_filemime {TARGS}", cases, shard=600, pre=pre)
    m5 = [fm_idx[i] for i in m5]
    for n, g in zip(names, guess_out):
        chk.count(("mime", n), nontrivial=(g[0] is not None or g[1] is not None))
    if table_diffs:
        kbroken.append(("K04 init_mimetypes establishes the documented tables", table_diffs))
    if not (mapping_ok and keys_ascii):
        kbroken.append(("K04 assumptions about the shipped tables", {"mapping_is_shipped": mapping_ok,
                                                                     "table_keys_ascii": keys_ascii}))
    if m4 or e4:
        kbroken.append(("K04 mimetypes.guess_type", {"mismatches": [[names[i], guess_out[i]] for i in m4[:10]], "error": e4}))
    if m5 or e5:
        kbroken.append(("K04 populatefromfs MIME attributes", {"mismatches": [[names[i], fm_out[i]] for i in m5[:10]],
                                                               "error": e5}))
    # direct statement: the entry's type follows the documented precedence from the table answer
    nprec = 0
    for n, g, (m, e, em, ty) in zip(names, guess_out, fm_out):
        dg = twin_guess(n, T)
        want = expected_type(dg, tables["default_mimetype"])
        if m != want:
            found = True
            nprec += 1
            if nprec <= 12:
                chk.violation({"what": "the entry's MIME type is not the one the configured tables assign to the name "
                                       "(documented precedence: encoding suffix, case-sensitive => application/octet-stream; "
                                       "known suffix => its type; else the default)",
                               "selector": n, "documented_lookup": list(dg), "running_guess_type": g, "entry_mimetype": m,
                               "entry_encoding": e, "expected": want, "kind": "mime"}, tag="mime-precedence")
    cov["correspondence"] = {"escape_cases": len(esc_in), "decimal_cases": len(dec_in), "splitext_cases": len(sx_in),
                             "mime_names": len(names), "mime_exhaustive_over_extensions": len(exts),
                             "encodings": encs[1:], "shards": n1 + n2 + n3 + n4 + n5}

    tick("component-mime")
    # ---------------- end to end ----------------
    files = content_files(rng, tier) + named_files(rng, tier)
    prefix_set = set(prefix_names_of(files))
    blk = rand_bytes(rng, BIG_BLK)
    big = blk * BIG_REPS + blk[:BIG_TAIL]
    plain_gz = text_of_size(rng, 5000)
    plain_bin = rand_bytes(rng, 4097)
    plain_tar = rand_bytes(rng, 3000)
    special = [
        ("z/c.txt.gz", gzip.compress(plain_gz, mtime=0), ("gz", plain_gz)),
        ("z/b.bin.gz", gzip.compress(plain_bin, mtime=0), ("gz", plain_bin)),
        ("z/backup.tar.gz", gzip.compress(plain_tar, mtime=0), ("gz", plain_tar)),
        # several gzip members in one file (cat a.gz b.gz): the decompressor sends all of them
        ("z/multi.txt.gz", gzip.compress(plain_gz, mtime=0) + gzip.compress(b"tail member\n" * 40, mtime=0),
         ("gz", plain_gz + b"tail member\n" * 40)),
        ("z/emptylast.txt.gz", gzip.compress(plain_gz[:2000], mtime=0) + gzip.compress(b"", mtime=0), ("gz", plain_gz[:2000])),
        ("z/t.html.tal", b'<html><body tal:content="selector">x</body></html>\n', ("tal", None)),
        ("z/u.txt.tal", b'line <b tal:replace="selector">x</b>\n', ("tal", None)),
    ]
    tree = [{"path": p, "data": latin(d), "mtime": 1_700_000_000 + i} for i, (p, d) in enumerate(files)]
    tree.append({"path": "big/big.bin", "data": latin(big), "mtime": 1_700_000_000})
    tree += [{"path": p, "data": latin(d), "mtime": 1_700_000_500} for p, d, _ in special]

    def reqs_for(path, protos, heads):
        sel = sel_of(path)
        out = []
        for proto in protos:
            if proto in ("gopher", "sgopher", "gopherplus", "sgopherplus") and (sel != sel.strip() or "\t" in sel):
                continue
            data, tls = gen.request_bytes(proto, sel, gplus="+")
            out.append((proto, "GET", data, tls))
        for proto in heads:
            data, tls = gen.request_bytes(proto, sel)
            out.append((proto, "HEAD", data.replace(b"GET ", b"HEAD ", 1), tls))
        return out

    plan = {"default": [], "full": [], "fullpatt": [], "live": [], "livepatt": []}   # (path, data, special, proto, method, request bytes, tls)
    rot = 0
    for p, d in files:
        protos, heads = GET_PROTOS, HEAD_PROTOS
        if tier == "quick" and (len(d) > 8000 or p in prefix_set):
            # quick tier: the large documents go through a rotating half of the protocol syntaxes
            rot += 1
            protos = [x for k_, x in enumerate(GET_PROTOS) if (k_ + rot) % 2 == 0]
            heads = [HEAD_PROTOS[rot % 3]]
        for q in reqs_for(p, protos, heads):
            plan["default"].append((p, d, None) + q)
    for q in reqs_for("big/big.bin", ["gopherplus", "http", "gemini"] if tier == "quick" else
                      ["gopher", "gopherplus", "http", "gemini", "spartan"], []):
        plan["default"].append(("big/big.bin", big, None) + q)
    full_files = [(p, d) for p, d in files if p in (("s/b0.bin", "s/b4097.bin", "s/t4097.txt") if tier == "quick" else
                                                   ("s/b0.bin", "s/b4096.bin", "s/b4097.bin", "s/b12289.bin", "s/t4097.txt")) or p in (
                                                    "t/inv.txt", "n/page.html", "n/sp ace.txt", "n/q?.txt")
                  or p.startswith("k/")]
    live_long = [(p, d) for p, d in files if p.startswith("L/")]
    # some of the prefixed names also through the full handler list and the real server (those the
    # transforming handlers leave alone: no encoding suffix)
    pfx_plain = [(p, d) for p, d in files if p in prefix_set and twin_guess(sel_of(p), T)[1] is None
                 and ":" in p and not p.lower().endswith((".html", ".htm"))]
    pfx_some = [x for x in pfx_plain if "/" not in x[0]][:2] + [x for x in pfx_plain if x[0].lower().startswith("n/data:")][:2]
    full_files += pfx_some
    for p, d in full_files:
        quickcut = tier == "quick" and p.startswith("k/")
        for q in reqs_for(p, ["gopher", "gopherplus", "https", "wap", "gemini"] if quickcut else GET_PROTOS,
                          ["http"] if quickcut else HEAD_PROTOS):
            plan["full"].append((p, d, None) + q)
    for q in reqs_for("big/big.bin", ["gopherplus"] if tier == "thorough" else [], []):
        plan["full"].append(("big/big.bin", big, None) + q)
    for p, d, sp in special:
        for q in reqs_for(p, GET_PROTOS, HEAD_PROTOS):
            plan["full"].append((p, d, sp) + q)
        # without the transforming handlers the same files are plain stored files
        for q in reqs_for(p, ["gopherplus", "http", "gemini"], []):
            plan["default"].append((p, d, None) + q)
        # with a decompression pattern that declines some encoded files: the declined ones are plain stored
        # files too (their own bytes, application/octet-stream, exact length)
        applies = sp[0] == "tal" or re.search(DECOMP_PATT, sel_of(p)) is not None
        for q in reqs_for(p, GET_PROTOS, HEAD_PROTOS):
            plan["fullpatt"].append((p, d, sp if applies else None) + q)
        # ... and through the real server on a real socket (a decompressor writes to the descriptor itself)
        if sp[0] == "gz":
            for q in reqs_for(p, GET_PROTOS, ["http"]):
                plan["livepatt"].append((p, d, sp if applies else None) + q)

    # the real ThreadingTCPServer on a socket, TLS requests through a real TLS client: what the
    # in-process transport cannot show (anything that depends on the descriptor under a TLS stream)
    live_files = [(p, d) for p, d in files if p in ("s/b4095.bin", "s/b4096.bin", "s/b4097.bin", "s/t4097.txt", "t/inv.txt",
                                                    "n/sp ace.txt") or (tier == "thorough" and p in ("s/b8193.bin", "s/b12289.bin"))]
    LIVE_PROTOS = GET_PROTOS if tier == "thorough" else ["sgopher", "gopherplus", "sgopherplus", "http", "https", "gemini", "spartan"]
    for p, d in live_files + live_long + pfx_some[1:3]:
        for q in reqs_for(p, LIVE_PROTOS, ["https"]):
            plan["live"].append((p, d, None) + q)
    for q in reqs_for("big/big.bin", ["sgopherplus", "https", "gemini"] if tier == "quick" else
                      ["sgopher", "sgopherplus", "https", "gemini"], []):
        plan["live"].append(("big/big.bin", big, None) + q)
    CONFIGS = (("default", None, "c04_world"), ("full", FULL_CONFIG, "c04_world"), ("fullpatt", PATT_CONFIG, "c04_world"),
               ("live", None, "c04_live"), ("livepatt", PATT_CONFIG, "c04_live"))
    jobs = []
    for cfgname, cfg, op in CONFIGS:
        jobs.append({"op": op, "tree": tree, "config": cfg,
                     "requests": [{"data": gen.lat(x[5]), "tls": x[6]} for x in plan[cfgname]]})
    wres = impl_run_parallel(jobs, chunks=len(jobs))
    for r in wres:
        if not r["ok"]:
            raise RuntimeError(r["err"] + "\n" + r.get("tb", ""))
    sel_guess_names = sorted(set(sel_of(p) for p, _ in files) | {sel_of(p) for p, _, _ in special} | {"/big/big.bin"})
    gres = impl_run([{"op": "c04_guess", "inputs": sel_guess_names}])
    if not gres[0]["ok"]:
        raise RuntimeError(gres[0]["err"])
    sel_guess = {n: twin_guess(n, T) for n in sel_guess_names}

    tick("impl-worlds")
    decomp = {"gzip": "zcat"}
    records = []      # dicts, one per request
    for (cfgname, _, _), wr in zip(CONFIGS, wres):
        for x, o in zip(plan[cfgname], wr["res"]["results"]):
            p, d, sp, proto, meth, reqb, tls = x
            records.append({"cfg": cfgname, "path": p, "sel": sel_of(p), "data": d, "special": sp, "proto": proto,
                            "meth": meth, "req": reqb, "tls": tls, "out": base64.b64decode(o["out_b64"]),
                            "exc": o["exc"], "log": o["log"]})

    # ---- histories: a document changes between requests inside one long-lived process ----
    hdocs = {"h/doc.txt": text_of_size(rng, 12), "h/data.bin": rand_bytes(rng, 4097)}
    hsteps, hmeta = [], []

    def hreqs(state_no, cur):
        metas = []
        for pth, dat in cur.items():
            for q in reqs_for(pth, ["gopher", "gopherplus", "sgopherplus", "http", "wap", "gemini", "spartan"], ["http"]):
                metas.append((pth, dat) + q)
        hsteps.append({"op": "req", "requests": [{"data": gen.lat(m[4]), "tls": m[5]} for m in metas]})
        hmeta.append((state_no, metas))
    cur = dict(hdocs)
    hreqs(0, cur)
    changes = [("write", "h/doc.txt", text_of_size(rng, 5026)), ("truncate", "h/data.bin", b""),
               ("replace", "h/doc.txt", text_of_size(rng, 300)), ("write", "h/data.bin", rand_bytes(rng, 4099)),
               ("truncate", "h/doc.txt", b""), ("replace", "h/data.bin", rand_bytes(rng, 1))]
    if tier == "thorough":
        changes += [(rng.choice(["write", "replace"]), rng.choice(list(hdocs)), rand_bytes(rng, rng.choice([0, 1, 4095, 4096, 4097, 9000])))
                    for _ in range(12)]
    for k, (opn, pth, dat) in enumerate(changes, 1):
        hsteps.append({"op": opn, "path": pth, "data": latin(dat)})
        cur[pth] = dat
        hreqs(k, dict(cur))
    htree = [{"path": pth, "data": latin(dat), "mtime": 1_700_000_000} for pth, dat in hdocs.items()]
    # ---- I/O faults after a successful stat: HEAD and GET must still tell the same story ----
    ftree = [{"path": "f/doc.txt", "data": "fault doc\n", "mtime": 1_700_000_000},
             {"path": "f/dir", "kind": "dir"}, {"path": "f/dir/x.txt", "data": "x\n", "mtime": 1_700_000_000},
             {"path": "f/gm", "kind": "dir"}, {"path": "f/gm/gophermap", "data": "iinfo\n0x\t/f/doc.txt\n", "mtime": 1_700_000_000},
             {"path": "f/page.html", "data": "<html><title>T</title></html>\n", "mtime": 1_700_000_000}]
    fcases = []
    for fault, target in (("eacces-open", "/f/doc.txt"), ("vanish-open", "/f/doc.txt"), ("eacces-open", "/f/page.html"),
                          ("eacces-list", "/f/dir"), ("eacces-open", "/f/gm/gophermap"), ("vanish-open", "/f/gm/gophermap")):
        req_sel = "/f/gm" if target.endswith("/gophermap") else target
        rq = []
        for proto in ("http", "https", "wap"):
            d_, t_ = gen.request_bytes(proto, req_sel)
            rq.append((proto, "GET", d_, t_))
            rq.append((proto, "HEAD", d_.replace(b"GET ", b"HEAD ", 1), t_))
        fcases.append({"fault": fault, "path": target, "selector": req_sel, "rq": rq,
                       "requests": [{"data": gen.lat(d_), "tls": t_} for _, _, d_, t_ in rq]})
    # ---- the same document under the spellings of its name a client may send ----
    sfiles = spell_files(rng, tier)
    stree = [{"path": p_, "data": latin(d_), "mtime": 1_700_000_000} for p_, d_, _ in sfiles]
    splan = []          # (path, data, proto, meth, request, tls, mode, may_refuse)
    for fi_, (p_, d_, decoy) in enumerate(sfiles):
        if decoy:
            continue
        raw = sel_bytes_of(p_)
        modes = SPELL_MODES if tier == "thorough" else ["literal", SPELL_MODES[1 + (fi_ % 4)]]
        for mi_, mode in enumerate(modes):
            sprotos = ["http", "https", "wap", "gemini", "spartan"]
            if tier == "quick" and mode != "literal":
                sprotos = [sprotos[(fi_ + mi_) % 3], sprotos[3 + fi_ % 2]]
            for proto in sprotos:
                if mode == "absolute" and proto == "spartan":
                    continue
                rb, tl, mr = spell_request(proto, raw, mode, rng)
                splan.append((p_, d_, proto, "GET", rb, tl, mode, mr))
                if mode == "literal" and proto in HEAD_PROTOS and (tier == "thorough" or proto == HEAD_PROTOS[fi_ % 3]):
                    rb, tl, mr = spell_request(proto, raw, mode, rng, meth="HEAD")
                    splan.append((p_, d_, proto, "HEAD", rb, tl, mode, mr))
    # ---- several documents in flight at once (one thread per connection, as ThreadingTCPServer runs them) ----
    cg_sched, cg_live = conc_groups(rng, tier)
    xres = impl_run_parallel([{"op": "c04_history", "tree": htree, "steps": hsteps},
                              {"op": "c04_faults", "tree": ftree,
                               "cases": [{k_: c_[k_] for k_ in ("fault", "path", "requests")} for c_ in fcases]},
                              conc_job("sched", cg_sched), conc_job("live", cg_live),
                              {"op": "c04_world", "tree": stree, "config": None,
                               "requests": [{"data": gen.lat(x[4]), "tls": x[5]} for x in splan]}], chunks=5)
    for r in xres:
        if not r["ok"]:
            raise RuntimeError(r["err"] + "\n" + r.get("tb", ""))
    req_steps = [st for st in xres[0]["res"]["steps"] if "results" in st]
    history_of = {}
    for (state_no, metas), stp in zip(hmeta, req_steps):
        upto = [i for i, st in enumerate(hsteps) if st["op"] == "req"][state_no]
        history_of[f"hist{state_no}"] = {"tree": htree, "steps": hsteps[:upto + 1]}
        for qi, (m, o) in enumerate(zip(metas, stp["results"])):
            pth, dat, proto, meth, reqb, tls = m
            records.append({"cfg": f"hist{state_no}", "path": pth, "sel": sel_of(pth), "data": dat, "special": None,
                            "proto": proto, "meth": meth, "req": reqb, "tls": tls, "out": base64.b64decode(o["out_b64"]),
                            "exc": o["exc"], "log": o["log"], "request_index": qi})
    sel_guess.update({sel_of(pth): twin_guess(sel_of(pth), T) for pth in hdocs})
    n_refused = 0
    for x, o in zip(splan, xres[4]["res"]["results"]):
        p_, d_, proto, meth, rb, tl, mode, mr = x
        out = base64.b64decode(o["out_b64"])
        chk.count(("spelling", p_, proto, meth, mode))
        # (an absolute-form target does not begin with "/wap": the server takes it for plain HTTP)
        if mr and (gen.notfound_class(proto, out) or (proto == "wap" and gen.notfound_class("http", out))):
            n_refused += 1              # a form the server does not support, refused outright: nobody's bytes
            continue
        sdir = p_.rsplit("/", 1)[0] + "/"
        records.append({"cfg": "spell", "path": p_, "sel": sel_of(p_), "data": d_, "special": None, "proto": proto,
                        "meth": meth, "req": rb, "tls": tl, "out": out, "exc": o["exc"], "log": o["log"], "nok": True,
                        "spelling": mode,
                        "world": {"tree": [e_ for e_ in stree if e_["path"].startswith(sdir)], "config": "default"}})
    sel_guess.update({sel_of(p_): twin_guess(sel_of(p_), T) for p_, _, _ in sfiles})
    cov["spellings"] = {"documents": sum(1 for x in sfiles if not x[2]), "decoys": sum(1 for x in sfiles if x[2]),
                        "requests": len(splan), "refused_outright_absolute_form": n_refused, "modes": SPELL_MODES}
    conc_stalled = []
    for mode, specs, xr in (("sched", cg_sched, xres[2]), ("live", cg_live, xres[3])):
        ddata = {pth: pattern_doc(t_, n_) for pth, t_, n_ in (CONC_DOCS if mode == "sched" else LIVE_CONC_DOCS)}
        sel_guess.update({sel_of(pth): twin_guess(sel_of(pth), T) for pth in ddata})
        for gi, (g, gr) in enumerate(zip(specs, xr["res"]["groups"])):
            if gr.get("stalled"):
                conc_stalled.append(f"{mode}{gi}")
            for qi, ((pth, proto), o) in enumerate(zip(g["members"], gr["results"])):
                reqb, tls = gen.request_bytes(proto, sel_of(pth), gplus="+")
                records.append({"cfg": f"conc-{mode}{gi}", "path": pth, "sel": sel_of(pth), "data": ddata[pth], "special": None,
                                "proto": proto, "meth": "GET", "req": reqb, "tls": tls, "out": base64.b64decode(o["out_b64"]),
                                "exc": o["exc"], "log": o["log"], "request_index": qi, "nok": True,
                                "conc": {"mode": mode, "group": g}})
    cov["concurrent"] = {"scheduled_groups": len(cg_sched), "live_groups": len(cg_live),
                         "transfers": sum(len(g["members"]) for g in cg_sched + cg_live), "scheduler_stalled": conc_stalled,
                         "policies": sorted({g["policy"] for g in cg_sched}), "live_send_buffer": CONC_SNDBUF}

    # gopher0 body of a transformed document = what the handler wrote (reference for TAL)
    handler_out = {}
    for r in records:
        if r["special"] and r["proto"] == "gopher":
            handler_out[(r["cfg"], r["path"])] = r["out"]

    def world_for(r):
        if r["cfg"] in history_of:
            return {"tree": history_of[r["cfg"]]["tree"], "config": "history", "steps": history_of[r["cfg"]]["steps"],
                    "request_index_in_last_step": r.get("request_index"),
                    "note": "requests follow each change at once, in one long-lived process"}
        if r.get("world"):
            return r["world"]
        if r.get("conc"):
            docs = CONC_DOCS if r["conc"]["mode"] == "sched" else LIVE_CONC_DOCS
            return {"config": "concurrent", "mode": r["conc"]["mode"], "group": r["conc"]["group"],
                    "request_index_in_group": r["request_index"],
                    "documents": [list(d_) for d_ in docs if d_[0] in {m[0] for m in r["conc"]["group"]["members"]}],
                    "note": "the group's requests are served at the same time, one thread per connection (servertype = "
                            "ThreadingTCPServer); documents are pattern_doc(tag, size); mode sched = in-process, deterministic "
                            "schedule with blocking points in the middle of every write(); mode live = real server, slow clients"}
        ent = [e for e in tree if e["path"] == r["path"]]
        return {"tree": ent, "config": r["cfg"]}

    reported_tags = set()

    def report(r, what, tag, **extra):
        nonlocal found
        found = True
        if r.get("spelling"):
            tag += ":spelling"
            what += " (request target spelled in the %r form; equivalent spellings name the same file)" % r["spelling"]
            extra = dict(extra, spelling=r["spelling"])
        if r.get("conc"):
            tag += ":concurrent"
            what += " (several documents in flight at once)"
        reported_tags.add(tag)
        rep = {"what": what, "protocol": r["proto"], "method": r["meth"], "selector": r["sel"], "handlers": r["cfg"],
               "request_latin1": gen.lat(r["req"]), "tls": r["tls"], "file_size": len(r["data"]),
               "response_head_latin1": gen.lat(r["out"][:300]), "response_length": len(r["out"]),
               "exception": r["exc"], "log": r["log"], "kind": "doc"}
        if len(r["data"]) <= 20000 or r.get("conc"):
            rep["world"] = world_for(r)
        else:
            rep["world"] = {"big": [BIG_BLK, BIG_REPS, BIG_TAIL], "note": "file = 256 x a random 4099-byte block + 577 bytes"}
        rep.update(extra)
        chk.violation(rep, tag=tag)

    # ---- oracle: the property stated directly on the implementation's responses ----
    get_header = {}
    n_or = 0
    hits = {}
    for r in records:
        sp = r["special"]
        parsed = split_response(r["proto"], r["out"])
        key = (r["cfg"], r["path"], r["proto"])
        n_or += 1
        chk.count(("e2e", r["cfg"], r["path"], r["proto"], r["meth"]), nontrivial=len(r["data"]) > 0)
        if parsed is None:
            report(r, "response is not in the protocol's document format", f"malformed:{r['proto']}")
            continue
        meta, body = parsed
        # what the body should be
        if sp is None:
            want = r["data"]
        elif sp[0] == "gz":
            want = sp[1]
        else:
            want = handler_out.get((r["cfg"], r["path"]), b"")
        guess = sel_guess[r["sel"]]
        t = expected_type(guess, tables["default_mimetype"], decomp if sp and sp[0] == "gz" else None,
                          tal=bool(sp and sp[0] == "tal"))
        kind = "stored" if sp is None else "transformed"
        if r["meth"] == "HEAD":
            gh = get_header.get(key)
            if body != b"":
                report(r, "HEAD response carries a body", f"head-body:{r['proto']}")
            if gh is not None and meta != gh:
                report(r, "HEAD header block differs from GET's", f"head-differs:{r['proto']}",
                       get_header=[gen.lat(x) for x in gh], head_header=[gen.lat(x) for x in meta])
            continue
        if r["proto"] in ("http", "https", "wap"):
            get_header[key] = meta
        # type
        adv = None
        if r["proto"] in ("http", "https", "wap"):
            cts = [m for m in meta if m.lower().startswith(b"content-type:")]
            adv = cts[0].split(b":", 1)[1].strip().decode("latin-1") if cts else None
            if not meta or meta[0] != b"HTTP/1.0 200 OK":
                report(r, "document request not answered with 200", f"status:{r['proto']}:{kind}")
                continue
        elif r["proto"] in ("gemini", "spartan"):
            code, _, adv_b = meta[0].partition(b" ")
            adv = adv_b.decode("latin-1")
            if code != (b"20" if r["proto"] == "gemini" else b"2"):
                report(r, "document request not answered with a success status", f"status:{r['proto']}:{kind}")
                continue
        if adv is not None and adv != advertised(r["proto"], t):
            report(r, "advertised MIME type is not the one the tables assign to the name", f"mime:{r['proto']}:{kind}",
                   advertised=adv, expected=advertised(r["proto"], t), guess_type=list(guess))
        # length
        if r["proto"] in ("gopherplus", "sgopherplus"):
            mm = re.fullmatch(rb"\+(-?\d+)", meta[0])
            if not mm:
                report(r, "Gopher+ first line is not +<length>", f"gplus-line:{kind}")
                continue
            n = int(mm.group(1))
            if n >= 0 and n != len(body):
                report(r, "Gopher+ length header differs from the number of body bytes that follow",
                       f"gplus-length:{kind}", announced=n, body_bytes=len(body))
            elif n < 0 and n != -2:
                report(r, "Gopher+ length marker is neither a length nor -2", f"gplus-line:{kind}", announced=n)
            elif n == -2 and sp is None:
                report(r, "a stored file is served without its length", "gplus-unknown:stored")
        # body
        if r["proto"] == "wap" and (t is None or t == "text/plain"):
            text = want.decode("utf-8", "surrogateescape")
            src = text.split("\n")
            if src and src[-1] == "":
                src.pop()
            src = [x.rstrip() for x in src]
            got = wml_decode(body.decode("utf-8", "surrogateescape"))
            if got != src:
                report(r, "WML conversion does not decode back to the document's lines", f"wml:{kind}",
                       decoded_lines=None if got is None else len(got), source_lines=len(src))
        elif body != want:
            first = next((i for i, (a, b) in enumerate(zip(body, want)) if a != b), min(len(body), len(want)))
            report(r, "document body differs from the file's bytes" if sp is None
                   else "document body differs from the transformed document", f"body:{r['proto']}:{kind}",
                   body_bytes=len(body), expected_bytes=len(want), first_difference_at=first,
                   delivered_there_latin1=gen.lat(body[first:first + 24]), expected_there_latin1=gen.lat(want[first:first + 24]))
    # HEAD vs GET under injected I/O faults
    nfault = 0
    for case, cres in zip(fcases, xres[1]["res"]["cases"]):
        outs = {}
        for (proto, meth, d_, t_), o in zip(case["rq"], cres["results"]):
            outs[(proto, meth)] = (base64.b64decode(o["out_b64"]), d_, t_, o)
        for proto in ("http", "https", "wap"):
            nfault += 1
            chk.count(("fault", case["fault"], case["path"], proto))
            g, h = outs[(proto, "GET")], outs[(proto, "HEAD")]
            gp, hp = split_response(proto, gen.mask_times(g[0])), split_response(proto, gen.mask_times(h[0]))
            if gp is None or hp is None or gp[0] != hp[0]:
                found = True
                reported_tags.add(f"head-differs:{proto}:fault")
                chk.violation({"what": "under an I/O fault HEAD does not return the header block GET returns",
                               "fault": case["fault"], "fault_path": case["path"], "protocol": proto, "selector": case["selector"],
                               "get_request_latin1": gen.lat(g[1]), "head_request_latin1": gen.lat(h[1]), "tls": g[2],
                               "get_response_head_latin1": gen.lat(g[0][:300]), "head_response_head_latin1": gen.lat(h[0][:300]),
                               "world": {"tree": ftree}, "kind": "fault"}, tag=f"head-differs:{proto}:fault")
    cov["faults"] = {"head_vs_get_under_fault": nfault}
    cov["oracle"] = {"requests": n_or, "files": len(files) + 1 + len(special), "violations": len(chk.violations)}

    tick("oracle")
    # ---- K: the same responses against the model, inside Coq ----
    IMPORTS = "Lib.Str Model.Copy Model.Wml Model.Mime Corr.K04"
    kerrs = [e for e in terr if e]
    byfile = {}       # (cfg, path) -> list of records
    for r in records:
        if not r.get("nok"):              # concurrent transfers: judged by the search only (the model serves one request)
            byfile.setdefault((r["cfg"], r["path"]), []).append(r)

    def hkind(r, tag):
        sp = r["special"]
        if sp is None:
            return "HFile"
        if sp[0] == "gz":
            return "(HCompressed [%s] plain_%s)" % (coq_str("gzip"), tag)
        return "(HTal hout_%s)" % tag

    CHK = {"doc": f"chk_doc {TARGS} false", "docp": f"chk_doc {TARGS} true", "dig": f"chk_doc_digest {TARGS}",
           "wapt": f"chk_wap_text {TARGS}", "wapr": f"chk_wap_raw {TARGS}"}

    def file_part(fi, key, recs):
        """definitions and cases for one file; returns (defs text, weight, {group: [(case, record)]})"""
        cfgname, path = key
        tag = f"f{fi}"
        r0 = recs[0]
        sp = r0["special"]
        defs = [coq_def(f"d_{tag}", r0["data"]), coq_defs(f"s_{tag}", r0["sel"])]
        weight = len(r0["data"]) + len(r0["sel"])
        if sp and sp[0] == "gz":
            defs.append(coq_def(f"plain_{tag}", sp[1]))
            weight += len(sp[1])
        if sp and sp[0] == "tal":
            defs.append(coq_def(f"hout_{tag}", handler_out.get((cfgname, path), b"")))
        groups = {"doc": [], "wapt": [], "wapr": []}
        seen = {}
        for i, r in enumerate(recs):
            out = gen.mask_times(r["out"])
            sel = f"s_{tag}"
            if r["proto"] == "wap":
                t = expected_type(sel_guess[r["sel"]], tables["default_mimetype"],
                                  decomp if sp and sp[0] == "gz" else None, tal=bool(sp and sp[0] == "tal"))
                if t is None or t == "text/plain":
                    src = r["data"] if sp is None else (sp[1] if sp[0] == "gz" else handler_out.get((cfgname, path), b""))
                    if ("x",) not in seen:
                        seen[("x",)] = f"x_{tag}"
                        defs.append(coq_defs(f"x_{tag}", src.decode("utf-8", "surrogateescape")))
                        weight += len(src)
                    defs.append(coq_defs(f"r_{tag}_{i}", out.decode("utf-8", "surrogateescape")))
                    weight += len(out)
                    groups["wapt"].append((f"((({r['meth']}, {hkind(r, tag)}), {sel}), (x_{tag}, r_{tag}_{i}))", r))
                    continue
                g = "wapr"
                lit = f"((({r['meth']}, {hkind(r, tag)}), {sel}), (d_{tag}, %s))"
            else:
                g = "doc"
                bp = BPROTO[r["proto"]] if r["meth"] == "GET" else "(PHttp HEAD)"
                lit = f"((({bp}, {hkind(r, tag)}), {sel}), (d_{tag}, %s))"
            if out not in seen:                     # TLS twins answer with the same bytes
                seen[out] = f"r_{tag}_{i}"
                defs.append(coq_def(f"r_{tag}_{i}", out))
                weight += len(out)
            groups[g].append((lit % seen[out], r))
        return "".join(defs), weight, groups

    parts = []
    bigrecs = []
    for fi, (key, recs) in enumerate(sorted(byfile.items(), key=lambda kv: -len(kv[1][0]["data"]))):
        if len(recs[0]["data"]) > 20000:
            bigrecs += [r for r in recs if r["proto"] != "wap"]
            continue
        parts.append((key[0],) + file_part(fi, key, recs))
    bundles = []
    bundle_recs = []
    for cfgname in sorted({p[0] for p in parts}):
        cur = None
        for c, defs, weight, groups in sorted([p for p in parts if p[0] == cfgname], key=lambda p: -p[2]):
            if cur is None or cur["w"] + weight > 70000:
                cur = {"w": 0, "defs": [], "groups": {"doc": [], "wapt": [], "wapr": []}}
                bundles.append((cfgname, cur))
            cur["w"] += weight
            cur["defs"].append(defs)
            for g in groups:
                cur["groups"][g] += groups[g]
    jobs_k = []
    for bi, (cfgname, cur) in enumerate(bundles):
        gs = [g for g in ("doc", "wapt", "wapr") if cur["groups"][g]]
        jobs_k.append({"name": f"k_e2e_{bi}", "imports": IMPORTS, "local_modules": ["C04T_full" if cfgname in ("full", "fullpatt", "livepatt") else "C04T_default"],
                       "pre": "".join(cur["defs"]), "evals": [(CHK[g], [c for c, _ in cur["groups"][g]]) for g in gs]})
        bundle_recs.append([[r for _, r in cur["groups"][g]] for g in gs] + [gs])
    bigpre = coq_def("blk", blk) + "Definition d_big : list N := big_doc blk %d %d.\n" % (BIG_REPS, BIG_TAIL)
    for i, r in enumerate(bigrecs):
        out = gen.mask_times(r["out"])
        v = zlib.adler32(out)
        bp = BPROTO[r["proto"]]
        case = f"((({bp}, HFile), {coq_str(r['sel'])}), (d_big, ({len(out)}, ({v & 0xffff}, {v >> 16}))))"
        jobs_k.append({"name": f"k_big_{i}", "imports": IMPORTS, "local_modules": ["C04T_full" if r["cfg"] == "full" else "C04T_default"], "pre": bigpre,
                       "evals": [(CHK["dig"], [case])]})
        bundle_recs.append([[r], ["dig"]])
    kres = coqmulti.run_bundles("C04", jobs_k) if not kerrs else []
    tick("k-end-to-end")
    kbad = []
    redo = []
    for job, recs_g, (mms, err) in zip(jobs_k, bundle_recs, kres):
        gs = recs_g[-1]
        if err:
            kerrs.append(err)
            continue
        for g, recs, mm, (chkx, cases) in zip(gs, recs_g[:-1], mms, job["evals"]):
            if g == "doc" and mm:
                redo.append((job, [cases[i] for i in mm], [recs[i] for i in mm]))
            else:
                kbad += [(recs[i], "other") for i in mm]
    # mismatching document cases: is it exactly the pinned size attribute of a transforming handler?
    if redo:
        jobs2 = [{"name": job["name"] + "_pinned", "imports": IMPORTS, "local_modules": job["local_modules"],
                  "pre": job["pre"], "evals": [(CHK["docp"], cases)]} for job, cases, _ in redo]
        for (job, cases, recs), (mms, err) in zip(redo, coqmulti.run_bundles("C04", jobs2)):
            if err:
                kerrs.append(err)
            still = set(mms[0])
            for j, rr in enumerate(recs):
                kbad.append((rr, "other" if j in still else "pinned-size"))
    nsh = len(jobs_k) + len(redo)
    cov["correspondence"].update({"end_to_end_cases": len(records), "end_to_end_shards": nsh,
                                  "end_to_end_mismatches": len(kbad),
                                  "pinned_size_attribute_matches": sum(1 for _, why in kbad if why == "pinned-size")})
    other = [(r, w) for r, w in kbad if w == "other"]
    pinned = [(r, w) for r, w in kbad if w == "pinned-size"]
    if pinned and "gplus-length:transformed" not in reported_tags:
        kbroken.append(("K04 end to end (size attribute of transforming handlers)",
                        {"cases": [[r["cfg"], r["proto"], r["sel"]] for r, _ in pinned[:10]]}))
    if other or kerrs:
        kbroken.append(("K04 end to end (model of the response bytes)",
                        {"cases": [[r["cfg"], r["proto"], r["meth"], r["sel"], len(r["data"])] for r, _ in other[:20]],
                         "errors": [e[-1500:] for e in kerrs[:3]]}))
    r = records[5]
    chk.sample({"kind": "end-to-end", "protocol": r["proto"], "selector": r["sel"], "request_latin1": gen.lat(r["req"]),
                "file_size": len(r["data"]), "response_head_latin1": gen.lat(r["out"][:80])})
    chk.sample({"kind": "mime", "selector": names[len(names) // 2], "guess_type": guess_out[len(names) // 2]})
    cov["rule"] = ("component: html.escape/unescape, str(int), posixpath.splitext on seeded strings; mimetypes.guess_type and "
                   "populatefromfs exhaustively over every extension of the loaded tables x case variants x encodings; end to end: "
                   "files of sizes around every multiple of the 4096-byte block up to 12289 plus 1 MiB, binary/CRLF/invalid UTF-8/"
                   "whitespace/markup contents, awkward names, through 9 protocol syntaxes + HEAD, default and full handler lists, and through "
                   "the real ThreadingTCPServer with real TLS clients (live leg); names with URL-scheme-like prefixes "
                   "(data:, http:, ... in several spellings and data-URL shapes), URL delimiters after the extension, "
                   "leading/trailing dots, percent escapes and backslashes, below directories and directly below the root; "
                   "documents with path-segment delimiters in the last component next to decoys named like the truncated forms, "
                   "requested in literal / lower-case / fully escaped / mixed / absolute-form spellings over HTTP, HTTPS, WAP, "
                   "Gemini, Spartan; groups of 2-5 different multi-block documents in flight at once (in-process under a deterministic "
                   "scheduler with blocking points inside every write(), and on the real threaded server with a small send "
                   "buffer and slow clients), "
                   "served over a real socket; non-trivial = non-empty file / string with a special character / name with a known type")
    for name, detail in kbroken:
        chk.correspondence_broken(name, detail, found)
    chk.finish_proofs(found)
    chk.assumptions += [
        "WAP text conversion is modelled on code points: file and response are decoded with CPython's UTF-8/surrogateescape codec before comparison",
        "'losslessly invertible line by line' is read as: the WML decodes to the document's lines with trailing whitespace removed (the code right-strips every line)",
        "Last-Modified values are masked; time formatting is not modelled",
        "MIME tables of the model and of the search are the documented ones: a fresh interpreter's mimetypes after the library's own init() on the configured files, with the [pygopherd] encoding option evaluated as written; the tables init_mimetypes leaves in the running interpreter are compared with them",
        "guess_type is modelled for selectors (always start with '/': no URL scheme); str.lower is exact on ASCII, U+212A and U+0130, table keys are ASCII (checked)",
        "subprocess decompression and TAL expansion are external: the model takes their output as given (gzip plain text known to the harness; TAL output = what plain Gopher delivered)",
        "1 MiB documents are compared through (length, Adler-32) inside Coq and byte for byte by the search",
        "the advertised type of a name is read from the documented tables by the name's extension alone (last dot of the last path component, not among leading dots): nothing before the extension (scheme-like prefixes, URL delimiters) plays a part; names containing '..' are not generated (such selectors are refused outright)",
        "spellings of a request target (sub-delims, ':' and '@' literal; lower-case, needless and mixed escapes) are RFC 3986-equivalent and must deliver the named file; the HTTP absolute form may instead be refused outright with the protocol's not-found answer; judged by the search only",
        "concurrent transfers (one thread per connection, servertype = ThreadingTCPServer) are judged by the search only: the model serves one request at a time; a wfile may read the block it is given at any time during write() (as sendall does) but not after it returns; the live concurrent leg sets a small SO_SNDBUF on the listening socket (an operating-system setting) so that handlers block inside write()",
    ]
    return chk.finish("proof")


def replay(path):
    with open(path) as f:
        rep = json.load(f)
    if rep.get("kind") == "fault":
        print("replay: fault cases are re-run by the check itself (op c04_faults); see the file for the input")
        return 2
    if rep.get("kind") == "doc" and rep.get("world", {}).get("config") == "concurrent":
        wd = rep["world"]
        g = dict(wd["group"], members=[tuple(m) for m in wd["group"]["members"]])
        job = conc_job(wd["mode"], [g])
        res = impl_run([job])
        if not res[0]["ok"]:
            print(res[0]["err"])
            return 2
        bad = 0
        docs = {d_[0]: pattern_doc(d_[1], d_[2]) for d_ in (CONC_DOCS if wd["mode"] == "sched" else LIVE_CONC_DOCS)}
        for (pth, proto), o in zip(g["members"], res[0]["res"]["groups"][0]["results"]):
            out = base64.b64decode(o["out_b64"])
            parsed = split_response(proto, out)
            body = parsed[1] if parsed else b""
            same = body == docs[pth] if proto != "wap" or not pth.endswith(".txt") else None
            print("%-12s %-10s %8d body bytes, document %8d bytes: %s" % (
                proto, sel_of(pth), len(body), len(docs[pth]),
                "not compared here (WML)" if same is None else "identical" if same else "DIFFERENT"))
            bad += same is False
        print("group   :", {k: v for k, v in g.items() if k != "members"}, "mode", wd["mode"])
        print("a document delivered with other bytes than its own:", bool(bad))
        return 1 if bad else 0
    if rep.get("kind") != "doc" or "tree" not in rep.get("world", {}):
        print("replay: not a replayable document case (see the file for the input)")
        return 2
    if rep["world"].get("config") == "history":
        res = impl_run([{"op": "c04_history", "tree": rep["world"]["tree"], "steps": rep["world"]["steps"]}])
        if not res[0]["ok"]:
            print(res[0]["err"])
            return 2
        last = [st for st in res[0]["res"]["steps"] if "results" in st][-1]["results"][rep["world"]["request_index_in_last_step"]]
        out = base64.b64decode(last["out_b64"])
        print("steps   :", [(st["op"], st.get("path"), len(st.get("data", ""))) for st in rep["world"]["steps"]])
        print("request :", repr(rep["request_latin1"]))
        print("response:", repr(out[:300]), "... (%d bytes)" % len(out))
        same = gen.mask_times(out)[:300] == gen.mask_times(rep["response_head_latin1"].encode("latin-1"))
        print("same behaviour as recorded:", same)
        return 1 if same else 0
    cfg = NAMED_CONFIGS.get(rep["world"]["config"])
    res = impl_run([{"op": "c04_live" if rep["world"]["config"].startswith("live") else "c04_world", "tree": rep["world"]["tree"], "config": cfg,
                     "requests": [{"data": rep["request_latin1"], "tls": rep["tls"]}]}])
    if not res[0]["ok"]:
        print(res[0]["err"])
        return 2
    out = base64.b64decode(res[0]["res"]["results"][0]["out_b64"])
    print("request :", repr(rep["request_latin1"]))
    print("response:", repr(out[:300]), "... (%d bytes)" % len(out))
    same = gen.mask_times(out)[:300] == gen.mask_times(rep["response_head_latin1"].encode("latin-1"))
    print("same behaviour as recorded:", same)
    return 1 if same else 0
